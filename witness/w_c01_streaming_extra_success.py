import json, sys, tempfile, subprocess, os
from pathlib import Path
from pyopenapi_gen.generator.client_generator import ClientGenerator
spec = {"openapi": "3.1.0", "info": {"title": "T", "version": "1"}, "paths": {"/events": {"get": {"operationId": "streamEvents", "tags": ["t"], "responses": {
    "200": {"description": "ok", "content": {"text/event-stream": {"schema": {"type": "string"}}}},
    "204": {"description": "nothing"}}}}}}
with tempfile.TemporaryDirectory() as tmp:
    sp = Path(tmp) / "s.json"; sp.write_text(json.dumps(spec))
    root = Path(tmp) / "proj"; root.mkdir()
    ClientGenerator(verbose=False).generate(spec_path=str(sp), project_root=root, output_package="client", force=True, no_postprocess=True)
    f = root / "client" / "endpoints" / "t.py"
    try:
        compile(f.read_text(), str(f), "exec"); print("compiles")
    except SyntaxError as e:
        print("SYNTAX ERROR:", e)
        lines=f.read_text().splitlines(); print("\n".join(lines[max(0,e.lineno-12):e.lineno+1]))
        sys.exit(1)
