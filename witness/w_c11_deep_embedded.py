"""C11 demo (change 2): clients sharing one core keep importing as more clients are generated.

Configuration: the project started with ONE top-level client ``billing`` generated with the
default core (``billing.core``, embedded in the client package).  Later a second client
``accounts`` is added that re-uses that core (``core_package="billing.core"``), so the core
package is one level deep and shared by both clients.

History:

    1. generate client ``billing``   (core_package not given -> ``billing.core``), declares 404, 409
    2. generate client ``accounts``  (core_package="billing.core"), declares 401, 422
    3. regenerate ``accounts`` (force) from a spec that now also declares 429

After every step every client generated so far is imported in a fresh interpreter
(every module of its package), and every status-specific exception class its
endpoints raise must be importable from the shared core.

Exit code 0 = property holds for this history, 1 = violated.
Run as:  PYTHONPATH=<worktree>/src /venv/bin/python demo.py
"""

from __future__ import annotations

import glob
import json
import os
import subprocess
import sys
import tempfile
from pathlib import Path

from pyopenapi_gen.core.http_status_codes import get_exception_class_name
from pyopenapi_gen.generator.client_generator import ClientGenerator

CORE = "acme.apis.billing.core"


def spec(title: str, path: str, op_id: str, errors: list[int]) -> dict:
    responses: dict = {
        "200": {
            "description": "ok",
            "content": {"application/json": {"schema": {"type": "object", "properties": {"id": {"type": "string"}}}}},
        }
    }
    for code in errors:
        responses[str(code)] = {"description": f"error {code}"}
    return {
        "openapi": "3.1.0",
        "info": {"title": title, "version": "1.0.0"},
        "servers": [{"url": "https://api.example.test"}],
        "paths": {path: {"get": {"operationId": op_id, "tags": [title.lower()], "responses": responses}}},
    }


CHECK_SNIPPET = r"""
import importlib, pkgutil, sys
pkg_name, core_name, names = sys.argv[1], sys.argv[2], sys.argv[3:]
pkg = importlib.import_module(pkg_name)
for m in pkgutil.walk_packages(pkg.__path__, pkg_name + "."):
    importlib.import_module(m.name)
core = importlib.import_module(core_name)
missing = [n for n in names if not hasattr(core, n)]
if missing:
    print("missing in core: " + ", ".join(missing))
    sys.exit(3)
"""


def check_client(project_root: Path, package: str, errors: list[int]) -> str | None:
    """Import the whole client package in a fresh interpreter; return an error text or None."""
    names = [get_exception_class_name(c) for c in errors]
    env = dict(os.environ)
    env["PYTHONPATH"] = str(project_root) + os.pathsep + env.get("PYTHONPATH", "")
    env["PYTHONDONTWRITEBYTECODE"] = "1"
    proc = subprocess.run(
        [sys.executable, "-c", CHECK_SNIPPET, package, CORE, *names],
        env=env,
        capture_output=True,
        text=True,
        cwd=str(project_root),
    )
    if proc.returncode != 0:
        tail = (proc.stdout + proc.stderr).strip().splitlines()[-4:]
        return " | ".join(tail)
    return None


def main() -> int:
    # package -> (title, path, operationId, error statuses, core_package argument)
    clients = {
        "acme.apis.billing": ("Billing", "/invoices", "list_invoices", [404, 409], None),
        "acme.apis.accounts": ("Accounts", "/accounts", "list_accounts", [401, 422], CORE),
    }
    history = ["acme.apis.billing", "acme.apis.accounts", "acme.apis.accounts"]

    failures: list[str] = []
    with tempfile.TemporaryDirectory() as tmp:
        root = Path(tmp) / "project"
        root.mkdir()
        spec_files = {}
        for pkg, (title, path, op_id, errors, _core) in clients.items():
            f = Path(tmp) / f"{title.lower()}.json"
            f.write_text(json.dumps(spec(title, path, op_id, errors)))
            spec_files[pkg] = f

        generated: list[str] = []
        for step, pkg in enumerate(history, 1):
            if step == 3:  # the accounts spec evolves: one more declared error status
                title, path, op_id, errors, core = clients[pkg]
                clients[pkg] = (title, path, op_id, errors + [429], core)
                spec_files[pkg].write_text(json.dumps(spec(title, path, op_id, errors + [429])))
            ClientGenerator(verbose=False).generate(
                spec_path=str(spec_files[pkg]),
                project_root=root,
                output_package=pkg,
                force=True,
                no_postprocess=True,
                core_package=clients[pkg][4],
            )
            if pkg not in generated:
                generated.append(pkg)
            for g in generated:
                err = check_client(root, g, clients[g][3])
                status = "ok" if err is None else f"BROKEN: {err}"
                print(f"step {step} (generated {pkg}): client {g}: {status}")
                if err is not None:
                    failures.append(f"after step {step} (generate {pkg}) client {g} no longer works: {err}")

    for p in glob.glob(os.path.join(tempfile.gettempdir(), "pyopenapi_gen_*.log")):
        try:
            os.remove(p)
        except OSError:
            pass

    if failures:
        print("\nPROPERTY VIOLATED:")
        for f in failures:
            print("  - " + f)
        return 1
    print("\nproperty holds for this history")
    return 0


if __name__ == "__main__":
    sys.exit(main())
