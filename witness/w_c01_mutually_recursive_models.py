"""C01 / R1.19 (known finding): schemas that reference each other (A.b -> B, B.a -> A; cycles through arrays; three-cycles) are emitted as model modules that
import each other at module level - the generated package cannot be imported.  Exit 1 when some case fails to import.
Run: PYTHONPATH=/repo/src /venv/bin/python witness/w_c01_mutually_recursive_models.py"""
BAD = []
import json, logging, pathlib, subprocess, sys, tempfile
logging.disable(logging.CRITICAL)
from pyopenapi_gen.generator.client_generator import ClientGenerator
def run(title, schemas):
    spec = {"openapi": "3.0.0", "info": {"title": "t", "version": "1"}, "paths": {"/a": {"get": {"operationId": "getA", "responses": {"200": {"description": "d", "content": {"application/json": {"schema": {"$ref": "#/components/schemas/" + list(schemas)[0]}}}}}}}}, "components": {"schemas": schemas}}
    d = tempfile.mkdtemp(); p = pathlib.Path(d) / "spec.json"; p.write_text(json.dumps(spec))
    ClientGenerator(verbose=False).generate(spec_path=str(p), project_root=pathlib.Path(d), output_package="cl", force=True, no_postprocess=True)
    code = "import cl.models, cl.client, cl.endpoints, cl.mocks; import dataclasses, typing; from cl import models\nfor n in models.__all__:\n    c = getattr(models, n)\n    if dataclasses.is_dataclass(c): typing.get_type_hints(c)\nprint('imports ok')"
    r = subprocess.run([sys.executable, "-c", code], cwd=d, capture_output=True, text=True, env={"PYTHONPATH": d, "PATH": "/usr/bin"})
    print(title, "->", (r.stdout.strip() or r.stderr.strip().splitlines()[-1])[:200])
    if "imports ok" not in r.stdout:
        BAD.append(title)
    for f in sorted((pathlib.Path(d) / "cl" / "models").glob("*.py")):
        if f.name != "__init__.py" and "--show" in sys.argv:
            print("---", f.name); print(f.read_text()[:900])
obj = lambda req=(), **p: {"type": "object", "properties": p, **({"required": list(req)} if req else {})}
ref = lambda n: {"$ref": "#/components/schemas/" + n}
run("mutual A<->B", {"A": obj(b=ref("B"), x={"type": "string"}), "B": obj(a=ref("A"), y={"type": "integer"})})
run("mutual required", {"A": obj(("b",), b=ref("B")), "B": obj(a=ref("A"))})
run("map of self", {"Tree": obj(children={"type": "object", "additionalProperties": ref("Tree")})})
run("array of other in cycle", {"A": obj(bs={"type": "array", "items": ref("B")}), "B": obj(a=ref("A"))})
run("three cycle", {"A": obj(b=ref("B")), "B": obj(c=ref("C")), "C": obj(a=ref("A"))})

sys.exit(1 if BAD else 0)
