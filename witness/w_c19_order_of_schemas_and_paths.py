import json, tempfile, os, sys, hashlib, copy, itertools
from pathlib import Path
from pyopenapi_gen.generator.client_generator import ClientGenerator
def gen(spec):
    with tempfile.TemporaryDirectory() as td:
        sp=Path(td)/"spec.json"; sp.write_text(json.dumps(spec))
        ClientGenerator(verbose=False).generate(spec_path=str(sp), project_root=Path(td), output_package="cli", force=True, no_postprocess=True)
        out={}
        for p in sorted((Path(td)/"cli").rglob("*.py")):
            out[str(p.relative_to(td))]=p.read_text()
        return out
def rev(d):
    return dict(reversed(list(d.items())))
def diff(a,b,label):
    ks=sorted(set(a)|set(b)); bad=[k for k in ks if a.get(k)!=b.get(k)]
    print(label, "files differ:" , bad[:8], "(", len(bad), "of", len(ks), ")")
    return bad
CASES={}
# (a) multi-content request body
CASES["multi-content-body"]={"openapi":"3.0.0","info":{"title":"t","version":"1"},"paths":{"/up":{"post":{"operationId":"upload","requestBody":{"content":{"application/json":{"schema":{"type":"object","properties":{"a":{"type":"string"}}}},"multipart/form-data":{"schema":{"type":"object","properties":{"f":{"type":"string","format":"binary"}}}}}},"responses":{"204":{"description":"d"}}}}}}
# (b) anonymous array response
CASES["anon-array-response"]={"openapi":"3.0.0","info":{"title":"t","version":"1"},"paths":{"/a":{"get":{"operationId":"listA","responses":{"200":{"description":"d","content":{"application/json":{"schema":{"type":"array","items":{"type":"object","properties":{"x":{"type":"string"}}}}}}}}}},"/b":{"get":{"operationId":"listB","responses":{"200":{"description":"d","content":{"application/json":{"schema":{"type":"array","items":{"type":"object","properties":{"y":{"type":"integer"}}}}}}}}}}}}
# (c) snake_case schema names referenced
CASES["snake-case-schemas"]={"openapi":"3.0.0","info":{"title":"t","version":"1"},"paths":{"/a":{"get":{"operationId":"getA","responses":{"200":{"description":"d","content":{"application/json":{"schema":{"$ref":"#/components/schemas/account"}}}}}}}},"components":{"schemas":{"account":{"type":"object","properties":{"profile":{"$ref":"#/components/schemas/user_profile"}}},"user_profile":{"type":"object","properties":{"n":{"type":"string"}}}}}}
rc=0
for name,spec in CASES.items():
    base=gen(spec)
    v=copy.deepcopy(spec)
    v["paths"]=rev(v["paths"])
    for p in v["paths"].values():
        for op in p.values():
            if "requestBody" in op: op["requestBody"]["content"]=rev(op["requestBody"]["content"])
    if "components" in v: v["components"]["schemas"]=rev(v["components"]["schemas"])
    other=gen(v)
    if diff(base,other,name): rc=1
sys.exit(rc)
