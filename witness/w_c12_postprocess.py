"""C12 witness: are the runtime modules in the generated core byte-for-byte the shipped ones when post-processing is on (the default)?"""
import json, sys, tempfile, filecmp, importlib.resources, os
from pathlib import Path
from pyopenapi_gen.generator.client_generator import ClientGenerator
from pyopenapi_gen.emitters.core_emitter import RUNTIME_FILES

spec = {"openapi": "3.1.0", "info": {"title": "T", "version": "1"}, "paths": {"/x": {"get": {"operationId": "getX", "responses": {"200": {"description": "ok"}}}}}}
bad = []
with tempfile.TemporaryDirectory() as tmp:
    sp = Path(tmp) / "s.json"; sp.write_text(json.dumps(spec))
    root = Path(tmp) / "proj"; root.mkdir()
    ClientGenerator(verbose=False).generate(spec_path=str(sp), project_root=root, output_package="client", force=True, no_postprocess=False)
    for module, filename, rel_dst in RUNTIME_FILES:
        src = importlib.resources.files(module).joinpath(filename).read_bytes()
        dst = (root / "client" / rel_dst).read_bytes()
        if src != dst:
            bad.append((rel_dst, len(src), len(dst)))
for b in bad: print("DIFFERS", b)
print("differing runtime files:", len(bad))
sys.exit(1 if bad else 0)
