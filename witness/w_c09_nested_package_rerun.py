import json, sys, tempfile
from pathlib import Path
from pyopenapi_gen.generator.client_generator import ClientGenerator, GenerationError
spec = {"openapi": "3.1.0", "info": {"title": "T", "version": "1"}, "paths": {"/x": {"get": {"operationId": "getX", "tags": ["t"], "responses": {"200": {"description": "ok", "content": {"application/json": {"schema": {"$ref": "#/components/schemas/Pet"}}}}, "404": {"description": "nf"}}}}},
        "components": {"schemas": {"Pet": {"type": "object", "properties": {"name": {"type": "string"}}}}}}
rc = 0
for pkg in sys.argv[1:]:
    with tempfile.TemporaryDirectory() as tmp:
        sp = Path(tmp) / "s.json"; sp.write_text(json.dumps(spec))
        root = Path(tmp) / "proj"; root.mkdir()
        ClientGenerator(verbose=False).generate(spec_path=str(sp), project_root=root, output_package=pkg, force=True, no_postprocess=False)
        try:
            ClientGenerator(verbose=False).generate(spec_path=str(sp), project_root=root, output_package=pkg, force=False, no_postprocess=False)
            print(pkg, "re-run: no differences (ok)")
        except GenerationError as e:
            print(pkg, "re-run FAILED:", str(e)[:200]); rc = 1
sys.exit(rc)
