import json, sys, tempfile
from pathlib import Path
from pyopenapi_gen.generator.client_generator import ClientGenerator
spec = {"openapi": "3.1.0", "info": {"title": "T", "version": "1"}, "paths": {"/p": {"get": {"operationId": "getP", "tags": ["t"], "responses": {"200": {"description": "ok", "content": {"application/json": {"schema": {"$ref": "#/components/schemas/Person"}}}}}}}},
  "components": {"schemas": {"Address": {"type": "object", "properties": {"street": {"type": "string"}}},
                             "Person": {"type": "object", "properties": {"Address": {"type": "string"}, "name": {"type": "string"}}}}}}
with tempfile.TemporaryDirectory() as tmp:
    sp = Path(tmp) / "s.json"; sp.write_text(json.dumps(spec))
    root = Path(tmp) / "proj"; root.mkdir()
    ClientGenerator(verbose=False).generate(spec_path=str(sp), project_root=root, output_package="client", force=True, no_postprocess=True)
    src = (root / "client" / "models" / "person.py").read_text()
    print([l.strip() for l in src.splitlines() if "address" in l.lower()][:6])
