import json, sys, tempfile, subprocess, os
from pathlib import Path
from pyopenapi_gen.generator.client_generator import ClientGenerator
spec = {"openapi": "3.1.0", "info": {"title": "T", "version": "1"}, "paths": {"/x": {"get": {"operationId": "getX", "tags": ["t"], "responses": {"200": {"description": "ok", "content": {"application/json": {"schema": {"type": "object", "properties": {"a": {"type": "string"}}}}}}, "404": {"description": "nf"}}}}}}
CHECK = r"""
import importlib, pkgutil, sys
pkg = importlib.import_module(sys.argv[1])
for m in pkgutil.walk_packages(pkg.__path__, sys.argv[1] + "."):
    importlib.import_module(m.name)
"""
rc = 0
for out_pkg, core_pkg in (("acme.shared", "shared.core"), ("acme.api", "acme.api"), ("acme.api", "acme.core"), ("api", "api.core"), ("acme.shared", "acme.shared.core")):
    with tempfile.TemporaryDirectory() as tmp:
        sp = Path(tmp) / "s.json"; sp.write_text(json.dumps(spec))
        root = Path(tmp) / "proj"; root.mkdir()
        try:
            ClientGenerator(verbose=False).generate(spec_path=str(sp), project_root=root, output_package=out_pkg, core_package=core_pkg, force=True, no_postprocess=True)
        except Exception as e:
            print(out_pkg, core_pkg, "GENERATION FAILED:", type(e).__name__, str(e)[:150]); rc = 1; continue
        env = dict(os.environ, PYTHONPATH=str(root), PYTHONDONTWRITEBYTECODE="1")
        p = subprocess.run([sys.executable, "-c", CHECK, out_pkg], env=env, capture_output=True, text=True, cwd=str(root))
        tail = (p.stdout + p.stderr).strip().splitlines()[-3:]
        print(out_pkg, core_pkg, "OK" if p.returncode == 0 else "BROKEN: " + " | ".join(tail))
        rc |= p.returncode
sys.exit(1 if rc else 0)
