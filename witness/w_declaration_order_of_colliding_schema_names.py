import json, tempfile, os, sys, subprocess, importlib
from pathlib import Path
from pyopenapi_gen.generator.client_generator import ClientGenerator
def spec(order):
    schemas = {}
    for n in order:
        schemas[n] = {"type":"object","properties":{("a" if n=="user_profile" else "b"):{"type":"string"}}}
    paths={}
    for i,n in enumerate(order):
        paths[f"/x{i}"]={"get":{"operationId":f"get{i}","responses":{"200":{"description":"d","content":{"application/json":{"schema":{"$ref":"#/components/schemas/"+n}}}}}}}
    return {"openapi":"3.0.0","info":{"title":"t","version":"1"},"paths":paths,"components":{"schemas":schemas}}
rc=0
for order in (["UserProfile","user_profile"],["user_profile","UserProfile"]):
    with tempfile.TemporaryDirectory() as td:
        sp=Path(td)/"spec.json"; sp.write_text(json.dumps(spec(order)))
        ClientGenerator(verbose=False).generate(spec_path=str(sp), project_root=Path(td), output_package="cli", force=True, no_postprocess=True)
        code = "import dataclasses,importlib,pkgutil,cli.models as m\nout={}\n" \
               "for mi in pkgutil.iter_modules(m.__path__):\n    mod=importlib.import_module('cli.models.'+mi.name)\n    for k,v in vars(mod).items():\n        if dataclasses.is_dataclass(v) and v.__module__==mod.__name__: out[k]=[f.name for f in dataclasses.fields(v)]\nprint(sorted(out.items()))\nimport cli.client"
        r=subprocess.run([sys.executable,"-c",code],cwd=td,capture_output=True,text=True,env={**os.environ,"PYTHONPATH":td+os.pathsep+os.environ.get("PYTHONPATH","")})
        print(order, r.stdout.strip(), r.stderr.strip()[-300:])
        fields=sorted(sum([v for _,v in eval(r.stdout.strip() or "[]")],[]))
        if fields!=["a","b"]: rc=1
sys.exit(rc)
