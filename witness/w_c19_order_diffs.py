import json, tempfile, os, sys, copy, difflib
from pathlib import Path
sys.argv.append("x")
exec(open("w_order_c19.py").read().split("rc=0")[0])
def show(name, reorder):
    spec=CASES[name]; base=gen(spec); v=copy.deepcopy(spec); reorder(v); other=gen(v)
    for k in sorted(set(base)|set(other)):
        if base.get(k)!=other.get(k):
            print("=====",name,k)
            print("".join(list(difflib.unified_diff((base.get(k) or "").splitlines(1),(other.get(k) or "").splitlines(1),n=0))[:24]))
def r_schemas(v): v["components"]["schemas"]=rev(v["components"]["schemas"])
def r_paths(v): v["paths"]=rev(v["paths"])
show("snake-case-schemas", r_schemas)
show("multi-content-body", r_paths)
show("anon-array-response", r_paths)
