"""C05 / R5.14: two responses of one operation (200, 201) whose inline bodies are maps without `type: object` both got the synthesized name
<operationId>Response; the registry kept the last body and both statuses were decoded into it.  Exit 1 when the defect is present.
Run: PYTHONPATH=/repo/src /venv/bin/python witness/w_c05_two_inline_map_responses.py"""
import json, sys, tempfile, os, pathlib
from pyopenapi_gen.generator.client_generator import ClientGenerator
def body(s): return {"description": "d", "content": {"application/json": {"schema": s}}}
spec = {"openapi": "3.0.0", "info": {"title": "t", "version": "1"}, "paths": {"/o": {"post": {"operationId": "createOrder", "responses": {
    "200": body({"additionalProperties": {"type": "string"}}),
    "201": body({"additionalProperties": {"type": "integer"}})}}}}}
d = tempfile.mkdtemp()
p = pathlib.Path(d) / "spec.json"; p.write_text(json.dumps(spec))
ClientGenerator(verbose=False).generate(spec_path=str(p), project_root=pathlib.Path(d), output_package="cl", force=True, no_postprocess=True)
for f in sorted((pathlib.Path(d) / "cl" / "models").glob("*.py")):
    print("---", f.name); print(f.read_text()[:1200])
t = (pathlib.Path(d) / "cl" / "endpoints" / "default.py").read_text()
print(t[t.index("async def create_order"):][:3000])

import re
arms = re.findall(r"case (\d+):\s+return structure_from_dict\(response.json\(\), (\w+)\)", t)
print("arms:", arms)
ok = len({c for _, c in arms}) == 2
print("OK: one model per status" if ok else "DEFECT: both statuses are decoded into one model")
sys.exit(0 if ok else 1)
