"""C08 / R8.4: anonymous schemas (inline anyOf / oneOf / allOf members, additionalProperties values) were not cut at the depth limit: a composition nested
300 deep exhausted the interpreter stack.  Exit 1 when some nesting raises RecursionError.  Run: PYTHONPATH=/repo/src /venv/bin/python witness/w_c08_deep_anonymous_nesting.py"""
import logging; logging.disable(logging.CRITICAL)
BAD = []
import sys, os
from pyopenapi_gen.core.loader.loader import load_ir_from_spec
def nest(kind, n):
    node = {"type": "string"}
    for _ in range(n):
        if kind in ("anyOf", "oneOf", "allOf"):
            node = {kind: [node, {"type": "integer"}]}
        elif kind == "items":
            node = {"type": "array", "items": node}
        elif kind == "props":
            node = {"type": "object", "properties": {"x": node}}
        elif kind == "addl":
            node = {"type": "object", "additionalProperties": node}
    return node
for kind in ("anyOf", "oneOf", "allOf", "items", "props", "addl"):
    for n in (50, 150, 300, 600):
        spec = {"openapi": "3.0.0", "info": {"title": "t", "version": "1"}, "paths": {}, "components": {"schemas": {"Deep": nest(kind, n)}}}
        try:
            ir = load_ir_from_spec(spec)
            r = "ok %d schemas" % len(ir.schemas)
        except RecursionError:
            r = "RecursionError"
        except Exception as e:
            r = type(e).__name__ + ": " + str(e)[:60]
        print(kind, n, r)
        if r != "ok %d schemas" % len(ir.schemas) if r.startswith("ok") else True:
            BAD.append((kind, n, r))

sys.exit(1 if BAD else 0)
