"""C02 / R2.17: a name made up for an inline schema (`User.address` -> UserAddress, `User.user_status` -> UserStatus, items of `Pets` -> PetsItem)
was used as registry key even when a declared schema has that name: the two were merged, which of them survived depended on the
declaration order.  Exit 1 when a declared schema loses its own fields or the result depends on the order.
Run: PYTHONPATH=/repo/src /venv/bin/python witness/w_c02_invented_vs_declared_names.py"""
import sys
from pyopenapi_gen.core.loader.loader import load_ir_from_spec

obj = lambda req=(), **p: {"type": "object", "properties": {k: ({"type": v} if isinstance(v, str) else v) for k, v in p.items()}, **({"required": list(req)} if req else {})}
CASES = {
    "inline object property": ({"User": obj(address=obj(street="string"), name="string"), "UserAddress": obj(("code",), code="integer")}, "UserAddress", {"code"}),
    "inline enum property": ({"User": obj(user_status={"type": "string", "enum": ["a", "b"]}, name="string"), "UserStatus": obj(("code",), code="integer")}, "UserStatus", {"code"}),
    "inline array items": ({"Pets": {"type": "array", "items": obj(name="string")}, "PetsItem": obj(("code",), code="integer")}, "PetsItem", {"code"}),
}
bad = 0
for title, (schemas, declared, fields) in CASES.items():
    seen = []
    for order in (list(schemas), list(reversed(list(schemas)))):
        ir = load_ir_from_spec({"openapi": "3.0.0", "info": {"title": "t", "version": "1"}, "paths": {}, "components": {"schemas": {k: schemas[k] for k in order}}})
        d = ir.schemas.get(declared)
        got = set((d.properties or {}).keys()) if d is not None else None
        seen.append({n: (s.type, sorted((s.properties or {}).keys()), s.enum) for n, s in ir.schemas.items()})
        if got != fields:
            bad += 1
            print(f"DEFECT [{title}] order {order}: declared `{declared}` has fields {got}, the document says {fields}")
    if seen[0] != seen[1]:
        bad += 1
        print(f"DEFECT [{title}]: the set of models depends on the declaration order")
print("OK: declared schemas keep their fields in either order" if not bad else f"{bad} problem(s)")
sys.exit(1 if bad else 0)
