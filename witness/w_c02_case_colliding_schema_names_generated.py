import json, tempfile
from pathlib import Path
from pyopenapi_gen.generator.client_generator import ClientGenerator
spec = {"openapi": "3.1.0", "info": {"title": "T", "version": "1"}, "paths": {"/p": {"get": {"operationId": "getP", "tags": ["t"], "responses": {"200": {"description": "ok", "content": {"application/json": {"schema": {"$ref": "#/components/schemas/foo"}}}}}}}},
  "components": {"schemas": {"Foo": {"type": "object", "properties": {"a": {"type": "string"}}}, "foo": {"type": "object", "properties": {"b": {"type": "integer"}}}}}}
with tempfile.TemporaryDirectory() as tmp:
    sp = Path(tmp) / "s.json"; sp.write_text(json.dumps(spec))
    root = Path(tmp) / "proj"; root.mkdir()
    ClientGenerator(verbose=False).generate(spec_path=str(sp), project_root=root, output_package="client", force=True, no_postprocess=True)
    print(sorted(p.name for p in (root/"client"/"models").iterdir()))
    print([l.strip() for l in (root/"client"/"endpoints"/"t.py").read_text().splitlines() if "Foo" in l][:6])
    for p in sorted((root/"client"/"models").glob("foo*.py")): print(p.name, [l.strip() for l in p.read_text().splitlines() if l.strip().startswith(("class ","a:","b:"))])
