"""C19 / R19.10 (= C02 / R2.16): `Entry.status` and `Entry.entry_status`, both inline enums, were both named EntryStatus; the enum that survived was the one
of the property parsed first, so reordering the properties changed the members of the enum (and typed the other property wrongly).
Exit 1 when the defect is present.  Run: PYTHONPATH=/repo/src /venv/bin/python witness/w_c19_sibling_inline_enum_names.py"""
import json, sys, tempfile, os, pathlib
from pyopenapi_gen.generator.client_generator import ClientGenerator
def spec(order):
    props = {"status": {"type": "string", "enum": ["a", "b"]}, "entry_status": {"type": "string", "enum": ["x", "y"]}}
    return {"openapi": "3.0.0", "info": {"title": "t", "version": "1"}, "paths": {"/e": {"get": {"operationId": "getE", "responses": {"200": {"description": "ok", "content": {"application/json": {"schema": {"$ref": "#/components/schemas/Entry"}}}}}}}},
            "components": {"schemas": {"Entry": {"type": "object", "properties": {k: props[k] for k in order}}}}}
res = {}
for order in (["status", "entry_status"], ["entry_status", "status"]):
    d = tempfile.mkdtemp()
    p = pathlib.Path(d) / "spec.json"; p.write_text(json.dumps(spec(order)))
    ClientGenerator(verbose=False).generate(spec_path=str(p), project_root=pathlib.Path(d), output_package="cl", force=True, no_postprocess=True)
    files = {f.name: f.read_text() for f in sorted((pathlib.Path(d) / "cl" / "models").glob("*.py"))}
    res[tuple(order)] = files
    print("ORDER", order, sorted(files))
    for n, t in files.items():
        if n != "__init__.py":
            print("---", n); print("\n".join(l for l in t.splitlines() if l.strip() and not l.strip().startswith(("#", '"""'))) [:1500])
a, b = res.values()
same = {n: [l for l in t.splitlines() if "=" in l or ":" in l] for n, t in a.items()} == {n: [l for l in t.splitlines() if "=" in l or ":" in l] for n, t in b.items()}
ok = sorted(a) == sorted(b) and all(sorted(a[n].splitlines()) == sorted(b[n].splitlines()) for n in a)
print("SAME MODELS UP TO ORDER:", ok)
sys.exit(0 if ok else 1)
