"""C04 / R4.16: enum-typed path and query arguments went on the wire as `Status.ON` (the serialiser returned `(str, Enum)` members unchanged).
Exit 1 when the defect is present.  Run: PYTHONPATH=/repo/src /venv/bin/python witness/w_c04_enum_arguments.py"""
import asyncio, json, sys, tempfile, pathlib, importlib, os
import logging; logging.disable(logging.CRITICAL)
from pyopenapi_gen.generator.client_generator import ClientGenerator
spec = {"openapi": "3.0.0", "info": {"title": "t", "version": "1"}, "paths": {"/lamps/{state}": {"get": {"operationId": "listLamps",
  "parameters": [{"name": "state", "in": "path", "required": True, "schema": {"$ref": "#/components/schemas/Status"}},
                 {"name": "filter", "in": "query", "schema": {"$ref": "#/components/schemas/Status"}},
                 {"name": "X-Mode", "in": "header", "schema": {"$ref": "#/components/schemas/Status"}}],
  "responses": {"204": {"description": "d"}}}}},
  "components": {"schemas": {"Status": {"type": "string", "enum": ["on", "off"]}}}}
d = tempfile.mkdtemp(); p = pathlib.Path(d) / "spec.json"; p.write_text(json.dumps(spec))
ClientGenerator(verbose=False).generate(spec_path=str(p), project_root=pathlib.Path(d), output_package="cl", force=True, no_postprocess=True)
sys.path.insert(0, d)
import httpx
from cl.client import APIClient
from cl.core.config import ClientConfig
from cl.models.status import Status
seen = {}
def handler(request):
    seen["url"] = str(request.url); seen["hdr"] = request.headers.get("x-mode")
    return httpx.Response(204)
async def main():
    from cl.core.http_transport import HttpxTransport
    t = HttpxTransport(base_url="http://api.test")
    t._client = httpx.AsyncClient(base_url="http://api.test", transport=httpx.MockTransport(handler))
    api = APIClient(ClientConfig(base_url="http://api.test"), transport=t)
    await api.default.list_lamps(state=Status.ON, filter_=Status.OFF, x_mode=Status.ON)
try:
    asyncio.run(main())
except TypeError as e:
    print("signature?", e)
print(seen)
ok = seen.get("url", "").endswith("/lamps/on?filter=off") and seen.get("hdr") == "on"
print("OK" if ok else "DEFECT: enum arguments are not sent by value")
sys.exit(0 if ok else 1)
