import json, sys
from pyopenapi_gen.core.loader.loader import load_ir_from_spec
def spec(schemas):
    return {"openapi": "3.1.0", "info": {"title": "T", "version": "1"}, "paths": {}, "components": {"schemas": schemas}}
# (b) two schemas whose names differ only by case
ir = load_ir_from_spec(spec({"Foo": {"type": "object", "properties": {"a": {"type": "string"}}}, "foo": {"type": "object", "properties": {"b": {"type": "integer"}}}}))
print("(b) schemas:", {k: sorted(v.properties) for k, v in ir.schemas.items()})
# (f) inline primitive property whose key equals another schema's name
ir = load_ir_from_spec(spec({"Address": {"type": "object", "properties": {"street": {"type": "string"}}},
                             "Person": {"type": "object", "properties": {"Address": {"type": "string"}, "name": {"type": "string"}}}}))
p = ir.schemas["Person"].properties
print("(f) Person.Address ->", p["Address"].type, getattr(p["Address"], "name", None))
