"""C04 / R4.17 (known finding): a query parameter called `url` becomes the argument `url`, which the generated method overwrites with the request
URL (`url = f"{self.base_url}/find"`) before it builds the query dict - the caller's value is never sent.  Exit 1 when the defect is present.
Run: PYTHONPATH=/repo/src /venv/bin/python witness/w_c04_parameter_named_like_a_local.py"""
import asyncio, json, logging, pathlib, sys, tempfile
logging.disable(logging.CRITICAL)
from pyopenapi_gen.generator.client_generator import ClientGenerator

spec = {"openapi": "3.0.0", "info": {"title": "t", "version": "1"}, "paths": {"/find": {"get": {"operationId": "find", "parameters": [
    {"name": "url", "in": "query", "required": True, "schema": {"type": "string"}}], "responses": {"204": {"description": "d"}}}}}}
d = tempfile.mkdtemp(); p = pathlib.Path(d) / "spec.json"; p.write_text(json.dumps(spec))
ClientGenerator(verbose=False).generate(spec_path=str(p), project_root=pathlib.Path(d), output_package="cl", force=True, no_postprocess=True)
sys.path.insert(0, d)
import httpx
from cl.client import APIClient
from cl.core.config import ClientConfig
from cl.core.http_transport import HttpxTransport
seen = {}
def handler(request):
    seen["query"] = dict(request.url.params)
    return httpx.Response(204)
async def main():
    t = HttpxTransport(base_url="http://api.test")
    t._client = httpx.AsyncClient(base_url="http://api.test", transport=httpx.MockTransport(handler))
    api = APIClient(ClientConfig(base_url="http://api.test"), transport=t)
    import inspect
    arg = [a for a in inspect.signature(api.default.find).parameters][0]
    await api.default.find(**{arg: "https://example.org/hook"})
asyncio.run(main())
print("query sent:", seen.get("query"))
ok = seen.get("query", {}).get("url") == "https://example.org/hook"
print("OK" if ok else "DEFECT: the caller's `url` argument was replaced by the request URL")
sys.exit(0 if ok else 1)
