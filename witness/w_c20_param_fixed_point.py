import json, sys, tempfile, ast
from pathlib import Path
from pyopenapi_gen.generator.client_generator import ClientGenerator
params=[{"name":n,"in":"query","schema":{"type":"string"}} for n in sys.argv[1].split(",")]
spec = {"openapi": "3.1.0", "info": {"title": "T", "version": "1"}, "paths": {"/x": {"get": {"operationId": "getX", "tags":["t"], "parameters": params, "responses": {"200": {"description": "ok"}}}}}}
with tempfile.TemporaryDirectory() as tmp:
    sp = Path(tmp) / "s.json"; sp.write_text(json.dumps(spec))
    root = Path(tmp) / "proj"; root.mkdir()
    ClientGenerator(verbose=False).generate(spec_path=str(sp), project_root=root, output_package="client", force=True, no_postprocess=True)
    src=(root/"client"/"endpoints"/"t.py").read_text()
    try:
        t=ast.parse(src)
        for n in ast.walk(t):
            if isinstance(n,(ast.AsyncFunctionDef,ast.FunctionDef)) and n.name=="get_x":
                print("args:",[a.arg for a in n.args.args]); break
    except SyntaxError as e:
        print("SYNTAX ERROR", e)
        print([l for l in src.splitlines() if "id" in l.lower()][:12])
