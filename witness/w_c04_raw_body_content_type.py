"""C04 / R4.18: a request body declared as application/octet-stream was sent with `data=<bytes>, headers=None` - no Content-Type on the wire.
Exit 1 when the defect is present.  Run: PYTHONPATH=/repo/src /venv/bin/python witness/w_c04_raw_body_content_type.py"""
import asyncio, json, logging, pathlib, sys, tempfile
logging.disable(logging.CRITICAL)
from pyopenapi_gen.generator.client_generator import ClientGenerator

spec = {"openapi": "3.0.0", "info": {"title": "t", "version": "1"}, "paths": {"/blob": {"post": {"operationId": "putBlob", "requestBody": {"required": True,
    "content": {"application/octet-stream": {"schema": {"type": "string", "format": "binary"}}}}, "responses": {"204": {"description": "d"}}}}}}
d = tempfile.mkdtemp(); p = pathlib.Path(d) / "spec.json"; p.write_text(json.dumps(spec))
ClientGenerator(verbose=False).generate(spec_path=str(p), project_root=pathlib.Path(d), output_package="cl", force=True, no_postprocess=True)
sys.path.insert(0, d)
import httpx
from cl.client import APIClient
from cl.core.config import ClientConfig
from cl.core.http_transport import HttpxTransport
seen = {}
def handler(request):
    seen["ct"] = request.headers.get("content-type"); seen["body"] = request.content
    return httpx.Response(204)
async def main():
    t = HttpxTransport(base_url="http://api.test")
    t._client = httpx.AsyncClient(base_url="http://api.test", transport=httpx.MockTransport(handler))
    api = APIClient(ClientConfig(base_url="http://api.test"), transport=t)
    await api.default.put_blob(b"\x00\x01payload")
asyncio.run(main())
print(seen)
ok = seen.get("ct") == "application/octet-stream" and seen.get("body") == b"\x00\x01payload"
print("OK" if ok else "DEFECT: the body went out without its declared content type")
sys.exit(0 if ok else 1)
