"""Emit templates: string expressions that become generated code, with their holes and the lexical
context (CODE / STRING / DOCSTRING / COMMENT) of every hole."""
from __future__ import annotations

import ast
from dataclasses import dataclass, field
from typing import Dict, Iterator, List, Optional, Tuple

from .model import Function, own_nodes, parent

HOLE = "\x00"

EMIT_METHODS = {"write_line", "write_block", "write_lines", "write", "write_wrapped_line", "write_function_signature",
                "write_docstring", "add_line", "append_line"}


@dataclass
class Template:
    node: ast.AST  # the string expression
    parts: List[object] = field(default_factory=list)  # str | ast.AST (hole expression)
    convs: Dict[int, int] = field(default_factory=dict)  # index in parts -> conversion (ord('r') etc.)

    @property
    def text(self) -> str:
        return "".join(p if isinstance(p, str) else HOLE for p in self.parts)

    @property
    def holes(self) -> List[ast.AST]:
        return [p for p in self.parts if not isinstance(p, str)]  # type: ignore[misc]

    def const_prefix(self) -> str:
        out = ""
        for p in self.parts:
            if isinstance(p, str):
                out += p
            else:
                break
        return out


def template_of(e: ast.AST, fn_node: Optional[ast.AST] = None, depth: int = 0, const_names: Optional[ast.AST] = None) -> Optional[Template]:
    """Abstract a string-valued expression into constant segments and holes. None if not string-like.
    `fn_node`: locals bound once are written out (sub-templates); `const_names`: a function node in which locals bound once to a
    *constant* string (`q = '"' * 3`) are read as that text, everything else stays a hole."""
    t = Template(e)
    if isinstance(e, ast.Constant) and isinstance(e.value, str):
        t.parts.append(e.value)
        return t
    if isinstance(e, ast.BinOp) and isinstance(e.op, ast.Mult):
        a_, b_ = e.left, e.right
        if isinstance(b_, ast.Constant) and isinstance(b_.value, str):
            a_, b_ = b_, a_
        if isinstance(a_, ast.Constant) and isinstance(a_.value, str) and isinstance(b_, ast.Constant) and isinstance(b_.value, int) and 0 <= b_.value <= 16:
            t.parts.append(a_.value * b_.value)
            return t
    if isinstance(e, ast.Name) and const_names is not None and fn_node is None and depth < 2:
        defs_ = [n for n in own_nodes(const_names) if isinstance(n, ast.Assign) and any(isinstance(x, ast.Name) and x.id == e.id for x in n.targets)]
        others_ = [n for n in own_nodes(const_names) if isinstance(n, (ast.AugAssign, ast.AnnAssign, ast.For, ast.NamedExpr)) and any(
            isinstance(x, ast.Name) and x.id == e.id and isinstance(x.ctx, ast.Store) for x in ast.walk(getattr(n, "target", n)))]
        if len(defs_) == 1 and not others_:
            sub_ = template_of(defs_[0].value, None, depth + 1, None)
            if sub_ is not None and all(isinstance(p_, str) for p_ in sub_.parts):
                sub_.node = e
                return sub_
        return None
    if isinstance(e, ast.JoinedStr):
        for v in e.values:
            if isinstance(v, ast.Constant):
                t.parts.append(str(v.value))
            elif isinstance(v, ast.FormattedValue):
                t.convs[len(t.parts)] = v.conversion
                t.parts.append(v.value)
        return t
    if isinstance(e, ast.BinOp) and isinstance(e.op, ast.Add):
        a, b = template_of(e.left, fn_node, depth, const_names), template_of(e.right, fn_node, depth, const_names)
        if a is None and b is None:
            return None
        for side, sub in ((e.left, a), (e.right, b)):
            if sub is None:
                t.parts.append(side)
            else:
                base = len(t.parts)
                for i, c in sub.convs.items():
                    t.convs[base + i] = c
                t.parts.extend(sub.parts)
        return t
    if isinstance(e, ast.BinOp) and isinstance(e.op, ast.Mod):
        a = template_of(e.left, fn_node, depth)
        if a is None or len(a.parts) != 1 or not isinstance(a.parts[0], str):
            return None
        args = list(e.right.elts) if isinstance(e.right, ast.Tuple) else [e.right]
        segs = a.parts[0].split("%s")
        if len(segs) - 1 != len(args):
            return None
        for i, s in enumerate(segs):
            t.parts.append(s)
            if i < len(args):
                t.parts.append(args[i])
        return t
    if isinstance(e, ast.Call) and isinstance(e.func, ast.Attribute) and e.func.attr == "format":
        a = template_of(e.func.value, fn_node, depth)
        if a is None or len(a.parts) != 1 or not isinstance(a.parts[0], str):
            return None
        # positional {} / {0} and keyword {name}
        import string

        try:
            fields = list(string.Formatter().parse(a.parts[0]))
        except ValueError:
            return None
        auto = 0
        for lit, fname, spec, conv in fields:
            if lit:
                t.parts.append(lit)
            if fname is None:
                continue
            expr: Optional[ast.AST] = None
            if fname == "" or fname.isdigit():
                idx = auto if fname == "" else int(fname)
                auto += 1
                if idx < len(e.args):
                    expr = e.args[idx]
            else:
                for kw in e.keywords:
                    if kw.arg == fname.split(".")[0].split("[")[0]:
                        expr = kw.value
            if expr is None:
                return None
            if conv:
                t.convs[len(t.parts)] = ord(conv)
            t.parts.append(expr)
        return t
    if isinstance(e, ast.Call) and isinstance(e.func, ast.Attribute) and e.func.attr == "join" and len(e.args) == 1:
        sep = e.func.value
        if isinstance(sep, ast.Constant) and isinstance(sep.value, str) and isinstance(e.args[0], (ast.List, ast.Tuple)):
            first = True
            for el in e.args[0].elts:
                sub = template_of(el, fn_node, depth)
                if not first:
                    t.parts.append(sep.value)
                first = False
                if sub is None:
                    t.parts.append(el)
                else:
                    base = len(t.parts)
                    for i, c in sub.convs.items():
                        t.convs[base + i] = c
                    t.parts.extend(sub.parts)
            return t
        return None
    if isinstance(e, ast.Name) and fn_node is not None and depth < 2:
        defs = [n for n in own_nodes(fn_node) if isinstance(n, ast.Assign) and any(isinstance(x, ast.Name) and x.id == e.id for x in n.targets)]
        if len(defs) == 1:
            sub = template_of(defs[0].value, fn_node, depth + 1)
            if sub is not None:
                sub.node = e
                return sub
    return None


def emit_calls(fn_node: ast.AST) -> Iterator[Tuple[ast.Call, ast.AST]]:
    """(call, argument) for every writer-style emit call in the function."""
    for n in own_nodes(fn_node):
        if isinstance(n, ast.Call) and isinstance(n.func, ast.Attribute) and n.func.attr in EMIT_METHODS and n.args:
            yield n, n.args[0]


# ---------------------------------------------------------------------- lexical context
CODE, STRING, DOCSTRING, COMMENT = "CODE", "STRING", "DOCSTRING", "COMMENT"


@dataclass
class LexState:
    kind: str = CODE
    quote: str = ""  # for STRING/DOCSTRING: the delimiter
    prefix_raw: bool = False
    fstring: bool = False

    def copy(self) -> "LexState":
        return LexState(self.kind, self.quote, self.prefix_raw, self.fstring)


def lex_advance(st: LexState, text: str) -> LexState:
    """Advance a (simplified) Python lexer over constant text."""
    st = st.copy()
    i = 0
    n = len(text)
    while i < n:
        ch = text[i]
        if st.kind == CODE:
            if ch == "#":
                st.kind = COMMENT
                i += 1
                continue
            if ch in "\"'":
                # prefix letters
                j = i - 1
                pref = ""
                while j >= 0 and text[j].isalpha() and len(pref) < 3:
                    pref = text[j] + pref
                    j -= 1
                if text[i:i + 3] in ('"""', "'''"):
                    st.kind, st.quote = DOCSTRING, text[i:i + 3]
                    i += 3
                else:
                    st.kind, st.quote = STRING, ch
                    i += 1
                st.prefix_raw = "r" in pref.lower()
                st.fstring = "f" in pref.lower()
                continue
            i += 1
            continue
        if st.kind == COMMENT:
            if ch == "\n":
                st.kind = CODE
            i += 1
            continue
        # inside a string
        if ch == "\\" and not st.prefix_raw:
            i += 2
            continue
        if st.kind == STRING:
            if ch == st.quote:
                st.kind, st.quote = CODE, ""
            elif ch == "\n":
                st.kind, st.quote = CODE, ""  # unterminated: lexer error in real life
            i += 1
            continue
        if st.kind == DOCSTRING:
            if text[i:i + 3] == st.quote:
                st.kind, st.quote = CODE, ""
                i += 3
            else:
                i += 1
            continue
    return st


def hole_contexts(t: Template, start: Optional[LexState] = None) -> Tuple[List[Tuple[ast.AST, LexState, int]], LexState]:
    """[(hole expr, lexical state at the hole, part index)], final state. A hole itself is assumed not to
    change the lexical state (that is exactly what the sanitizer obligations guarantee)."""
    st = start.copy() if start is not None else LexState()
    out = []
    for i, p in enumerate(t.parts):
        if isinstance(p, str):
            st = lex_advance(st, p)
        else:
            out.append((p, st.copy(), i))
    return out, st
