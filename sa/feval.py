"""Evaluation of a side-effect-free Python expression over a *finite* environment (abstract truth-table evaluation).

`evaluate(expr, env)` computes the value of `expr` where `env` maps dotted names (`schema.type`, `is_enum`) or single names to Python
values; an `Unknown` is raised for any construct outside the modelled fragment (boolean operators, comparisons, membership, attribute /
name lookups through `env`, literals, tuples/lists/sets, `bool()`, `len()`, `not`, conditional expressions, `getattr(x, "a", d)`).
Rules use it to decide implications such as "whenever the schema has properties, `is_type_alias` is false" by enumerating the (small)
space of relevant inputs - no code of the analysed project is executed."""
from __future__ import annotations

import ast
import itertools
from typing import Any, Dict, Iterable, Iterator, List, Tuple


class Unknown(Exception):
    pass


def _dotted(e: ast.AST):
    parts = []
    while isinstance(e, ast.Attribute):
        parts.append(e.attr)
        e = e.value
    if isinstance(e, ast.Name):
        parts.append(e.id)
        return ".".join(reversed(parts))
    return None


def evaluate(e: ast.AST, env: Dict[str, Any]) -> Any:
    if isinstance(e, ast.Constant):
        return e.value
    d = _dotted(e)
    if d is not None:
        if d in env:
            return env[d]
        if isinstance(e, ast.Attribute):
            base = evaluate(e.value, env)
            if isinstance(base, dict) and e.attr in base:
                return base[e.attr]
        raise Unknown(f"unbound `{d}`")
    if isinstance(e, (ast.Tuple, ast.List)):
        return [evaluate(x, env) for x in e.elts]
    if isinstance(e, ast.Set):
        return [evaluate(x, env) for x in e.elts]
    if isinstance(e, ast.Dict) and all(k is not None for k in e.keys):
        return {evaluate(k, env): evaluate(v, env) for k, v in zip(e.keys, e.values)}
    if isinstance(e, ast.Subscript):
        base, key = evaluate(e.value, env), evaluate(e.slice, env)
        if isinstance(base, dict) and key in base:
            return base[key]
        raise Unknown(f"subscript `{ast.unparse(e)[:40]}`")
    if isinstance(e, ast.UnaryOp) and isinstance(e.op, ast.Not):
        return not evaluate(e.operand, env)
    if isinstance(e, ast.BoolOp):
        last: Any = None
        for v in e.values:
            last = evaluate(v, env)
            if isinstance(e.op, ast.And) and not last:
                return last
            if isinstance(e.op, ast.Or) and last:
                return last
        return last
    if isinstance(e, ast.BinOp) and isinstance(e.op, ast.Add):
        a, b = evaluate(e.left, env), evaluate(e.right, env)
        if isinstance(a, (str, int)) and type(a) is type(b):
            return a + b
        raise Unknown(f"`+` on {type(a).__name__} / {type(b).__name__}")
    if isinstance(e, ast.JoinedStr):
        out = ""
        for v in e.values:
            if isinstance(v, ast.Constant):
                out += str(v.value)
            elif isinstance(v, ast.FormattedValue) and v.conversion == -1 and v.format_spec is None:
                out += str(evaluate(v.value, env))
            else:
                raise Unknown("formatted value with conversion")
        return out
    if isinstance(e, ast.IfExp):
        return evaluate(e.body, env) if evaluate(e.test, env) else evaluate(e.orelse, env)
    if isinstance(e, ast.Compare):
        left = evaluate(e.left, env)
        for op, c in zip(e.ops, e.comparators):
            right = evaluate(c, env)
            if isinstance(op, ast.Eq):
                r = left == right
            elif isinstance(op, ast.NotEq):
                r = left != right
            elif isinstance(op, ast.In):
                r = left in right
            elif isinstance(op, ast.NotIn):
                r = left not in right
            elif isinstance(op, ast.Is):
                r = left is right or (left is None and right is None)
            elif isinstance(op, ast.IsNot):
                r = not (left is right or (left is None and right is None))
            elif isinstance(op, (ast.Lt, ast.LtE, ast.Gt, ast.GtE)) and isinstance(left, (int, float)) and isinstance(right, (int, float)):
                r = {ast.Lt: left < right, ast.LtE: left <= right, ast.Gt: left > right, ast.GtE: left >= right}[type(op)]
            else:
                raise Unknown(f"comparison {type(op).__name__}")
            if not r:
                return False
            left = right
        return True
    if isinstance(e, ast.Call) and isinstance(e.func, ast.Name) and not e.keywords:
        if e.func.id == "isinstance" and len(e.args) == 2:
            kinds = {"str": str, "int": int, "float": float, "bool": bool, "dict": dict, "list": list, "tuple": tuple, "Mapping": dict, "bytes": bytes}
            ts = e.args[1].elts if isinstance(e.args[1], ast.Tuple) else [e.args[1]]
            names = [_dotted(t) for t in ts]
            if all(n is not None and n.split(".")[-1] in kinds for n in names):
                return isinstance(evaluate(e.args[0], env), tuple(kinds[n.split(".")[-1]] for n in names))
        if e.func.id == "bool" and len(e.args) == 1:
            return bool(evaluate(e.args[0], env))
        if e.func.id == "len" and len(e.args) == 1:
            return len(evaluate(e.args[0], env))
        if e.func.id == "getattr" and len(e.args) in (2, 3) and isinstance(e.args[1], ast.Constant):
            d0 = _dotted(e.args[0])
            key = f"{d0}.{e.args[1].value}"
            if key in env:
                return env[key]
            if len(e.args) == 3:
                return evaluate(e.args[2], env)
    if isinstance(e, ast.Call) and isinstance(e.func, ast.Attribute) and e.func.attr == "get" and len(e.args) in (1, 2) and not e.keywords and _dotted(e.func.value) not in env:
        try:
            base = evaluate(e.func.value, env)
        except Unknown:
            base = None
        if isinstance(base, dict):
            k = evaluate(e.args[0], env)
            return base[k] if k in base else (evaluate(e.args[1], env) if len(e.args) == 2 else None)
    if isinstance(e, ast.Call) and isinstance(e.func, ast.Attribute) and e.func.attr in ("lower", "upper", "strip") and not e.args and not e.keywords:
        base = evaluate(e.func.value, env)
        if isinstance(base, str):
            return getattr(base, e.func.attr)()
    if isinstance(e, ast.Call) and isinstance(e.func, ast.Attribute) and e.func.attr in ("startswith", "endswith") and len(e.args) == 1 and not e.keywords:
        base = evaluate(e.func.value, env)
        arg = evaluate(e.args[0], env)
        if isinstance(base, str) and isinstance(arg, (str, list)):
            a = tuple(arg) if isinstance(arg, list) else arg
            return base.startswith(a) if e.func.attr == "startswith" else base.endswith(a)
    raise Unknown(f"`{ast.unparse(e)[:60]}`")


def environments(domains: Dict[str, Iterable[Any]]) -> Iterator[Dict[str, Any]]:
    keys = list(domains)
    for combo in itertools.product(*[list(domains[k]) for k in keys]):
        yield dict(zip(keys, combo))
