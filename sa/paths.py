"""Provenance of path-valued expressions: which roots (parameters, self attributes, constants, ambient
calls) a value is derived from, tracing local assignments backwards (flow-insensitive, within one function)."""
from __future__ import annotations

import ast
from typing import Dict, List, Optional, Set, Tuple

from .model import Function, dotted, own_nodes

Root = Tuple[str, str]  # (kind, text): kind in param | self | const | call | global | unknown

PATH_PURE_CALLS = {
    "str", "Path", "os.path.join", "os.path.dirname", "os.path.abspath", "os.path.basename", "os.path.relpath",
    "os.path.normpath", "os.path.realpath", "pathlib.Path", "os.fspath", "PurePath", "sorted", "list", "set", "tuple",
}
PATH_PURE_METHODS = {"joinpath", "with_suffix", "with_name", "resolve", "absolute", "relative_to", "parent", "as_posix",
                     "replace", "rstrip", "lstrip", "strip", "split", "format", "lower", "rglob", "glob", "iterdir", "items",
                     "values", "keys", "copy", "get", "expanduser"}


class Provenance:
    def __init__(self, fn: Function, exclude: Optional[List[ast.AST]] = None):
        """exclude: statements (sub-trees) whose definitions are ignored - used to analyse one branch of a function
        whose branches reuse the same variable names."""
        self.fn = fn
        self.params = set(fn.params)
        self.defs: Dict[str, List[ast.AST]] = {}
        self.tuple_bound: Set[str] = set()  # names bound by unpacking a component of a composite value
        skip: Set[int] = set()
        for ex in exclude or []:
            for x in ast.walk(ex):
                skip.add(id(x))
        for n in own_nodes(fn.node):
            if id(n) in skip:
                continue
            if isinstance(n, ast.Assign):
                for t in n.targets:
                    self._bind(t, n.value)
            elif isinstance(n, ast.AnnAssign) and n.value is not None:
                self._bind(n.target, n.value)
            elif isinstance(n, ast.AugAssign):
                self._bind(n.target, n.value)
            elif isinstance(n, (ast.For, ast.AsyncFor)):
                self._bind(n.target, n.iter)
            elif isinstance(n, (ast.With, ast.AsyncWith)):
                for it in n.items:
                    if it.optional_vars is not None:
                        self._bind(it.optional_vars, it.context_expr)
            elif isinstance(n, ast.comprehension):
                self._bind(n.target, n.iter)
            elif isinstance(n, ast.NamedExpr):
                self._bind(n.target, n.value)
            elif isinstance(n, ast.Call) and isinstance(n.func, ast.Attribute) and isinstance(n.func.value, ast.Name) \
                    and n.func.attr in ("append", "extend", "add", "insert", "update") and n.args:
                # container mutation: the container is (also) derived from what is put into it
                self.defs.setdefault(n.func.value.id, []).append(n.args[-1])
        # nested function definitions: calls to them are inlined (roots of their return expressions)
        self.nested_params: Set[str] = set()
        self.nested_defs: Dict[str, ast.AST] = {}
        for n in ast.walk(fn.node):
            if n is not fn.node and isinstance(n, (ast.FunctionDef, ast.AsyncFunctionDef, ast.Lambda)):
                a = n.args
                for arg in a.posonlyargs + a.args + a.kwonlyargs:
                    self.nested_params.add(arg.arg)
                if not isinstance(n, ast.Lambda):
                    self.nested_defs[n.name] = n

    def _bind(self, target: ast.AST, value: ast.AST) -> None:
        if isinstance(target, ast.Name):
            self.defs.setdefault(target.id, []).append(value)
        elif isinstance(target, ast.Subscript) and isinstance(target.value, ast.Name):
            self.defs.setdefault(target.value.id, []).append(value)  # x[i] = v / x[a:b] = v: x is (also) derived from v
        elif isinstance(target, (ast.Tuple, ast.List)):
            for i, el in enumerate(target.elts):
                if isinstance(value, (ast.Tuple, ast.List)) and len(value.elts) == len(target.elts):
                    self._bind(el, value.elts[i])
                else:
                    for x in ast.walk(el):
                        if isinstance(x, ast.Name):
                            self.tuple_bound.add(x.id)
                    self._bind(el, value)
        elif isinstance(target, ast.Starred):
            self._bind(target.value, value)

    def roots(self, e: ast.AST, _seen: Optional[Set[str]] = None) -> Set[Root]:
        seen = _seen if _seen is not None else set()
        out: Set[Root] = set()
        if isinstance(e, ast.Constant):
            if isinstance(e.value, str):
                out.add(("const", e.value))
            return out
        if isinstance(e, ast.JoinedStr):
            for v in e.values:
                if isinstance(v, ast.FormattedValue):
                    out |= self.roots(v.value, seen)
                elif isinstance(v, ast.Constant) and isinstance(v.value, str) and v.value:
                    out.add(("const", v.value))
            return out
        if isinstance(e, ast.Name):
            if e.id in seen:
                return out
            if e.id in self.defs:
                seen = seen | {e.id}
                for d in self.defs[e.id]:
                    out |= self.roots(d, seen)
                if e.id in self.params:
                    out.add(("param", e.id))
                return out
            if e.id in self.params:
                return {("param", e.id)}
            if e.id in self.nested_params:
                return {("param", e.id)}
            return {("global", e.id)}
        if isinstance(e, ast.Attribute):
            d = dotted(e)
            if d is not None and d.startswith("self."):
                return {("self", d[5:])}
            if e.attr in PATH_PURE_METHODS or True:
                return self.roots(e.value, seen)
        if isinstance(e, ast.BinOp):
            return self.roots(e.left, seen) | self.roots(e.right, seen)
        if isinstance(e, ast.BoolOp):
            for v in e.values:
                out |= self.roots(v, seen)
            return out
        if isinstance(e, ast.IfExp):
            return self.roots(e.body, seen) | self.roots(e.orelse, seen)
        if isinstance(e, ast.Subscript):
            return self.roots(e.value, seen)
        if isinstance(e, ast.Starred):
            return self.roots(e.value, seen)
        if isinstance(e, (ast.Tuple, ast.List, ast.Set)):
            for el in e.elts:
                out |= self.roots(el, seen)
            return out
        if isinstance(e, (ast.ListComp, ast.SetComp, ast.GeneratorExp)):
            return self.roots(e.elt, seen)
        if isinstance(e, ast.Call):
            name = dotted(e.func)
            if name in PATH_PURE_CALLS:
                for a in e.args:
                    out |= self.roots(a, seen)
                return out
            if isinstance(e.func, ast.Attribute):
                recv = self.roots(e.func.value, seen)
                if name and (name.split(".")[0] in ("os", "tempfile", "shutil", "sys", "pathlib") or name in ("Path.home", "Path.cwd")):
                    if name.startswith("os.path."):
                        for a in e.args:
                            out |= self.roots(a, seen)
                        return out
                    return {("call", name)}
                # method on a path-like value: derived from the receiver and the arguments
                out |= recv
                for a in e.args:
                    out |= self.roots(a, seen)
                return out
            if name is not None and name in self.nested_defs and name not in seen:
                nd = self.nested_defs[name]
                for r in ast.walk(nd):
                    if isinstance(r, ast.Return) and r.value is not None:
                        out |= {x for x in self.roots(r.value, seen | {name}) if not (x[0] == "param" and x[1] in self.nested_params and x[1] not in self.params)}
                for a in e.args:
                    out |= self.roots(a, seen)
                return out
            if name is not None:
                # unknown function: derived from its arguments + the callee name
                out.add(("call", name))
                for a in e.args:
                    out |= self.roots(a, seen)
                return out
        return {("unknown", type(e).__name__)}
