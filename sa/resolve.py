"""Callee resolution without a type checker, and the package call graph.

Resolution order for a call `f(...)` / `recv.m(...)` inside function F of module M:
  local nested def, module-level def/class, imported symbol, `self.m`, `Cls.m`, `alias_module.f`,
  `self.attr.m` (attr typed by `self.attr = Cls(...)` or by an annotated __init__ parameter),
  `var.m` (var = annotated parameter, or local bound to `Cls(...)`),
  and finally *by-name* over the whole package when exactly the method name is known.
By-name edges are marked `how='by-name'`; rules that need a sound over-approximation use them,
rules that need precision ignore them. References to functions that are not called (passed as
arguments, stored) are recorded as `how='ref'` edges.
"""
from __future__ import annotations

import ast
from dataclasses import dataclass
from typing import Dict, Iterable, List, Optional, Set, Tuple

from .model import Class, Function, Module, Repo, dotted, own_nodes


@dataclass(frozen=True)
class Edge:
    caller: str  # Function.fq
    callee: str  # Function.fq
    how: str  # 'direct' | 'self' | 'class' | 'module' | 'attr-type' | 'var-type' | 'by-name' | 'ref'
    lineno: int


def _ann_names(ann: Optional[ast.AST]) -> List[str]:
    """Class names mentioned in an annotation (handles Optional[X], X | None, "X")."""
    if ann is None:
        return []
    if isinstance(ann, ast.Constant) and isinstance(ann.value, str):
        try:
            ann = ast.parse(ann.value, mode="eval").body
        except SyntaxError:
            return []
    out = []
    for n in ast.walk(ann):
        if isinstance(n, ast.Name):
            out.append(n.id)
        elif isinstance(n, ast.Attribute):
            out.append(n.attr)
    return out


class Resolver:
    def __init__(self, repo: Repo):
        self.repo = repo
        self.methods_by_name: Dict[str, List[Function]] = {}
        self.funcs_by_name: Dict[str, List[Function]] = {}
        for fn in repo.all_functions():
            if fn.cls is not None and fn.qualname == f"{fn.cls.name}.{fn.name}":
                self.methods_by_name.setdefault(fn.name, []).append(fn)
            elif "." not in fn.qualname:
                self.funcs_by_name.setdefault(fn.name, []).append(fn)
        self._attr_types: Dict[Tuple[str, str], Dict[str, Class]] = {}
        self._local_cache: Dict[str, Dict[str, Class]] = {}

    # ------------------------------------------------------------------ symbols
    def lookup_symbol(self, mod: Module, name: str, _depth: int = 0):
        """Resolve a bare name in module scope to Function | Class | Module | None."""
        if name in mod.functions and "." not in name:
            return mod.functions[name]
        if name in mod.classes:
            return mod.classes[name]
        if name in mod.imports and _depth < 6:
            tmod, sym = mod.imports[name]
            if sym is None:
                return self.repo.modules.get(tmod)
            full = f"{tmod}.{sym}"
            if full in self.repo.modules:
                return self.repo.modules[full]
            target = self.repo.modules.get(tmod)
            if target is not None:
                return self.lookup_symbol(target, sym, _depth + 1)
        return None

    def class_of_name(self, mod: Module, name: str) -> Optional[Class]:
        s = self.lookup_symbol(mod, name)
        return s if isinstance(s, Class) else None

    def find_method(self, cls: Class, name: str, _seen: Optional[Set[str]] = None) -> Optional[Function]:
        if name in cls.methods:
            return cls.methods[name]
        _seen = _seen or set()
        for b in cls.base_names:
            if b in _seen:
                continue
            _seen.add(b)
            bc = self.class_of_name(cls.module, b)
            if bc is not None:
                m = self.find_method(bc, name, _seen)
                if m is not None:
                    return m
        return None

    def attr_types(self, cls: Class) -> Dict[str, Class]:
        """self.<attr> -> Class, from assignments `self.attr = Cls(...)`, `self.attr = param`
        (annotated parameter), `self.attr: Cls = ...` anywhere in the class's methods."""
        key = (cls.module.name, cls.name)
        if key in self._attr_types:
            return self._attr_types[key]
        out: Dict[str, Class] = {}
        self._attr_types[key] = out  # in-progress marker: breaks `self.a = self.b.c` recursion
        for m in cls.methods.values():
            ptypes = self.param_types(m)
            for n in own_nodes(m.node):
                tgt = None
                val = None
                ann = None
                if isinstance(n, ast.Assign) and len(n.targets) == 1:
                    tgt, val = n.targets[0], n.value
                elif isinstance(n, ast.AnnAssign):
                    tgt, val, ann = n.target, n.value, n.annotation
                if not (isinstance(tgt, ast.Attribute) and isinstance(tgt.value, ast.Name) and tgt.value.id == "self"):
                    continue
                c = None
                for nm in _ann_names(ann):
                    c = c or self.class_of_name(cls.module, nm)
                if c is None and val is not None:
                    c = self.expr_class(m, val, ptypes, {})
                if c is not None:
                    out.setdefault(tgt.attr, c)
        # class-level annotations (dataclass fields)
        for st in cls.node.body:
            if isinstance(st, ast.AnnAssign) and isinstance(st.target, ast.Name):
                for nm in _ann_names(st.annotation):
                    c = self.class_of_name(cls.module, nm)
                    if c is not None:
                        out.setdefault(st.target.id, c)
                        break
        self._attr_types[key] = out
        return out

    def param_types(self, fn: Function) -> Dict[str, Class]:
        out: Dict[str, Class] = {}
        a = fn.node.args  # type: ignore[attr-defined]
        for arg in a.posonlyargs + a.args + a.kwonlyargs:
            for nm in _ann_names(arg.annotation):
                c = self.class_of_name(fn.module, nm)
                if c is not None:
                    out[arg.arg] = c
                    break
        return out

    def local_types(self, fn: Function) -> Dict[str, Class]:
        if fn.fq in self._local_cache:
            return self._local_cache[fn.fq]
        ptypes = self.param_types(fn)
        out: Dict[str, Class] = {}
        self._local_cache[fn.fq] = out
        for n in own_nodes(fn.node):
            if isinstance(n, ast.Assign) and len(n.targets) == 1 and isinstance(n.targets[0], ast.Name):
                c = self.expr_class(fn, n.value, ptypes, out)
                if c is not None:
                    out.setdefault(n.targets[0].id, c)
            elif isinstance(n, ast.AnnAssign) and isinstance(n.target, ast.Name):
                for nm in _ann_names(n.annotation):
                    c = self.class_of_name(fn.module, nm)
                    if c is not None:
                        out.setdefault(n.target.id, c)
                        break
        return out

    def expr_class(self, fn: Function, e: ast.AST, ptypes: Dict[str, Class], ltypes: Dict[str, Class]) -> Optional[Class]:
        """Class of the value of expression e, when evident."""
        if isinstance(e, ast.Call):
            nm = dotted(e.func)
            if nm and "." not in nm:
                s = self.lookup_symbol(fn.module, nm)
                if isinstance(s, Class):
                    return s
            elif nm:
                head, _, last = nm.rpartition(".")
                s = self.lookup_symbol(fn.module, head.split(".")[0])
                if isinstance(s, Module) and last in s.classes:
                    return s.classes[last]
            return None
        if isinstance(e, ast.Name):
            if e.id in ltypes:
                return ltypes[e.id]
            if e.id in ptypes:
                return ptypes[e.id]
            if e.id == "self" and fn.cls is not None:
                return fn.cls
            return None
        if isinstance(e, ast.Attribute):
            base = self.expr_class(fn, e.value, ptypes, ltypes)
            if base is not None:
                return self.attr_types(base).get(e.attr)
            return None
        if isinstance(e, ast.BoolOp):  # `x or Cls()`
            for v in e.values:
                c = self.expr_class(fn, v, ptypes, ltypes)
                if c is not None:
                    return c
        return None

    # ------------------------------------------------------------------ calls
    def resolve_call(self, fn: Function, call: ast.Call, by_name: bool = True) -> List[Tuple[Function, str]]:
        f = call.func
        mod = fn.module
        if isinstance(f, ast.Name):
            # nested local def
            for q, cand in mod.functions.items():
                if q == f"{fn.qualname}.<locals>.{f.id}":
                    return [(cand, "direct")]
            # enclosing function's nested defs (sibling closures)
            if ".<locals>." in fn.qualname:
                outer = fn.qualname.rsplit(".<locals>.", 1)[0]
                q = f"{outer}.<locals>.{f.id}"
                if q in mod.functions:
                    return [(mod.functions[q], "direct")]
            s = self.lookup_symbol(mod, f.id)
            if isinstance(s, Function):
                return [(s, "direct")]
            if isinstance(s, Class):
                out = []
                for nm in ("__init__", "__post_init__"):
                    m = self.find_method(s, nm)
                    if m is not None:
                        out.append((m, "class"))
                return out
            return []
        if isinstance(f, ast.Attribute):
            name = f.attr
            ptypes = self.param_types(fn)
            ltypes = self.local_types(fn)
            recv = f.value
            # module alias
            d = dotted(recv)
            if d is not None:
                s = self.lookup_symbol(mod, d.split(".")[0]) if "." not in d else None
                if isinstance(s, Module):
                    if name in s.functions:
                        return [(s.functions[name], "module")]
                    if name in s.classes:
                        m = self.find_method(s.classes[name], "__init__")
                        return [(m, "class")] if m else []
                    return []
                if isinstance(s, Class):
                    m = self.find_method(s, name)
                    return [(m, "class")] if m else []
            c = self.expr_class(fn, recv, ptypes, ltypes)
            if c is not None:
                m = self.find_method(c, name)
                if m is not None:
                    how = "self" if isinstance(recv, ast.Name) and recv.id == "self" else "attr-type"
                    return [(m, how)]
                return []
            if isinstance(recv, ast.Call) and isinstance(recv.func, ast.Name) and recv.func.id == "super" and fn.cls:
                for b in fn.cls.base_names:
                    bc = self.class_of_name(mod, b)
                    if bc is not None:
                        m = self.find_method(bc, name)
                        if m is not None:
                            return [(m, "class")]
                return []
            if by_name and name in self.methods_by_name and not name.startswith("__"):
                return [(m, "by-name") for m in self.methods_by_name[name]]
        return []

    # ------------------------------------------------------------------ graph
    def edges_of(self, fn: Function, by_name: bool = True) -> List[Edge]:
        out: List[Edge] = []
        called_funcs: Set[int] = set()
        for n in own_nodes(fn.node):
            if isinstance(n, ast.Call):
                called_funcs.add(id(n.func))
                for tgt, how in self.resolve_call(fn, n, by_name):
                    out.append(Edge(fn.fq, tgt.fq, how, n.lineno))
        # plain references to functions (callbacks)
        for n in own_nodes(fn.node):
            if isinstance(n, ast.Name) and isinstance(n.ctx, ast.Load) and id(n) not in called_funcs:
                s = self.lookup_symbol(fn.module, n.id)
                if isinstance(s, Function):
                    out.append(Edge(fn.fq, s.fq, "ref", n.lineno))
            elif isinstance(n, ast.Attribute) and isinstance(n.ctx, ast.Load) and id(n) not in called_funcs:
                if isinstance(n.value, ast.Name) and n.value.id == "self" and fn.cls is not None:
                    m = self.find_method(fn.cls, n.attr)
                    if m is not None:
                        out.append(Edge(fn.fq, m.fq, "ref", n.lineno))
        # nested defs belong to their parent for reachability purposes
        prefix = f"{fn.qualname}.<locals>."
        for q, cand in fn.module.functions.items():
            if q.startswith(prefix) and "." not in q[len(prefix):]:
                out.append(Edge(fn.fq, cand.fq, "nested", getattr(cand.node, "lineno", 0)))
        return out


class CallGraph:
    def __init__(self, repo: Repo, modules: Optional[Iterable[str]] = None, by_name: bool = True):
        self.repo = repo
        self.res = Resolver(repo)
        self.funcs: Dict[str, Function] = {}
        mods = set(modules) if modules is not None else None
        for fn in repo.all_functions():
            if mods is None or fn.module.name in mods:
                self.funcs[fn.fq] = fn
        self.edges: List[Edge] = []
        self.succ: Dict[str, Set[str]] = {k: set() for k in self.funcs}
        self.pred: Dict[str, Set[str]] = {k: set() for k in self.funcs}
        for fn in self.funcs.values():
            for e in self.res.edges_of(fn, by_name):
                if e.callee in self.funcs:
                    self.edges.append(e)
                    self.succ[e.caller].add(e.callee)
                    self.pred[e.callee].add(e.caller)

    def reachable(self, roots: Iterable[str]) -> Set[str]:
        seen: Set[str] = set()
        todo = [r for r in roots]
        while todo:
            n = todo.pop()
            if n in seen or n not in self.succ:
                continue
            seen.add(n)
            todo.extend(self.succ[n])
        return seen

    def callers_of(self, fq: str) -> Set[str]:
        return self.pred.get(fq, set())

    def sccs(self) -> List[List[str]]:
        """Tarjan, iterative."""
        index: Dict[str, int] = {}
        low: Dict[str, int] = {}
        on: Set[str] = set()
        stack: List[str] = []
        out: List[List[str]] = []
        counter = [0]
        for root in sorted(self.succ):
            if root in index:
                continue
            work = [(root, iter(sorted(self.succ[root])))]
            index[root] = low[root] = counter[0]
            counter[0] += 1
            stack.append(root)
            on.add(root)
            while work:
                v, it = work[-1]
                advanced = False
                for w in it:
                    if w not in index:
                        index[w] = low[w] = counter[0]
                        counter[0] += 1
                        stack.append(w)
                        on.add(w)
                        work.append((w, iter(sorted(self.succ[w]))))
                        advanced = True
                        break
                    elif w in on:
                        low[v] = min(low[v], index[w])
                if advanced:
                    continue
                work.pop()
                if work:
                    u = work[-1][0]
                    low[u] = min(low[u], low[v])
                if low[v] == index[v]:
                    comp = []
                    while True:
                        w = stack.pop()
                        on.discard(w)
                        comp.append(w)
                        if w == v:
                            break
                    out.append(comp)
        return out


def follow_delegation(repo: Repo, fn, max_hops: int = 2):
    """When `fn` only hands its work on - its body (docstring aside) is `return <recv>.<m>(...)`, possibly after plain local bindings -
    and `<m>` names exactly one method / function of the package, return that Function (transitively, a few hops); else `fn` itself.
    Lets a rule that reads the body of `A.f` keep reading it after the body moved to `B.g` and `A.f` became `return self.b.g(...)`."""
    import ast as _ast

    cur = fn
    for _ in range(max_hops):
        body = [s for s in cur.node.body if not (isinstance(s, _ast.Expr) and isinstance(s.value, _ast.Constant))]
        if not body or not isinstance(body[-1], _ast.Return) or body[-1].value is None or len(body) > 3:
            return cur
        if not all(isinstance(s, (_ast.Assign, _ast.AnnAssign)) for s in body[:-1]):
            return cur
        call = body[-1].value
        if not isinstance(call, _ast.Call):
            return cur
        name = call.func.attr if isinstance(call.func, _ast.Attribute) else call.func.id if isinstance(call.func, _ast.Name) else None
        if name is None:
            return cur
        cands = [f for f in repo.all_functions() if f.name == name and f is not cur and "<locals>" not in f.qualname]
        if len(cands) != 1:
            return cur
        cur = cands[0]
    return cur
