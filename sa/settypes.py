"""A small type inference answering one question: is this expression an *unordered* collection
(set / frozenset, or a list/tuple built directly from one)?  Used by the determinism rules (C09).

Sources of set-ness: literals/comprehensions, set()/frozenset() calls, set operators and methods, annotations
(`Set[...]`, `set[...]`, `FrozenSet`, `AbstractSet`), functions whose return annotation is a set type, attributes
whose class-level annotation / first assignment is a set, `dict[..., Set[...]]` / `defaultdict(set)` containers
(their values, `.values()`, `.items()` second components and subscripts are sets)."""
from __future__ import annotations

import ast
from typing import Dict, List, Optional, Set, Tuple

from .model import Class, Function, Module, Repo, dotted, norm, own_nodes
from .resolve import Resolver

SET, DICT_OF_SET, SEQ_FROM_SET, OTHER = "set", "dict_of_set", "seq_from_set", "other"

SET_RETURNING_METHODS = {"union", "intersection", "difference", "symmetric_difference", "copy"}


def ann_kind(ann: Optional[ast.AST]) -> str:
    if ann is None:
        return OTHER
    if isinstance(ann, ast.Constant) and isinstance(ann.value, str):
        try:
            ann = ast.parse(ann.value, mode="eval").body
        except SyntaxError:
            return OTHER
    t = norm(ann).replace("typing.", "")
    for opt in ("Optional[",):
        if t.startswith(opt) and t.endswith("]"):
            t = t[len(opt):-1]
    t = t.replace(" | None", "").strip()
    low = t
    if low.startswith(("Set[", "set[", "FrozenSet[", "frozenset[", "AbstractSet[", "MutableSet[")) or low in ("set", "frozenset", "Set", "FrozenSet"):
        return SET
    if low.startswith(("Dict[", "dict[", "DefaultDict[", "defaultdict[", "Mapping[", "MutableMapping[", "OrderedDict[")):
        inner = low[low.index("[") + 1:-1]
        # value type = text after the first top-level comma
        depth = 0
        for i, ch in enumerate(inner):
            if ch == "[":
                depth += 1
            elif ch == "]":
                depth -= 1
            elif ch == "," and depth == 0:
                val = inner[i + 1:].strip()
                if val.startswith(("Set[", "set[", "FrozenSet[", "frozenset[")) or val in ("set", "Set"):
                    return DICT_OF_SET
                break
    return OTHER


class SetTypes:
    def __init__(self, repo: Repo, resolver: Optional[Resolver] = None):
        self.repo = repo
        self.res = resolver or Resolver(repo)
        self._attr: Dict[Tuple[str, str], Dict[str, str]] = {}
        self._fn_env: Dict[str, Dict[str, str]] = {}
        self._ret: Dict[str, str] = {}

    # ------------------------------------------------------------------ class attributes
    def attr_kinds(self, cls: Class) -> Dict[str, str]:
        key = (cls.module.name, cls.name)
        if key in self._attr:
            return self._attr[key]
        out: Dict[str, str] = {}
        self._attr[key] = out
        for st in cls.node.body:
            if isinstance(st, ast.AnnAssign) and isinstance(st.target, ast.Name):
                k = ann_kind(st.annotation)
                if k != OTHER:
                    out[st.target.id] = k
        for m in cls.methods.values():
            for n in own_nodes(m.node):
                tgt = val = ann = None
                if isinstance(n, ast.Assign) and len(n.targets) == 1:
                    tgt, val = n.targets[0], n.value
                elif isinstance(n, ast.AnnAssign):
                    tgt, val, ann = n.target, n.value, n.annotation
                if not (isinstance(tgt, ast.Attribute) and isinstance(tgt.value, ast.Name) and tgt.value.id == "self"):
                    continue
                k = ann_kind(ann)
                if k == OTHER and val is not None:
                    k = self.kind(m, val)
                if k != OTHER:
                    out.setdefault(tgt.attr, k)
        return out

    # ------------------------------------------------------------------ function returns
    def returns(self, fn: Function) -> str:
        if fn.fq in self._ret:
            return self._ret[fn.fq]
        self._ret[fn.fq] = OTHER
        k = ann_kind(getattr(fn.node, "returns", None))
        self._ret[fn.fq] = k
        return k

    # ------------------------------------------------------------------ local environment
    def env(self, fn: Function) -> Dict[str, str]:
        if fn.fq in self._fn_env:
            return self._fn_env[fn.fq]
        env: Dict[str, str] = {}
        self._fn_env[fn.fq] = env
        a = fn.node.args  # type: ignore[attr-defined]
        for arg in a.posonlyargs + a.args + a.kwonlyargs:
            k = ann_kind(arg.annotation)
            if k != OTHER:
                env[arg.arg] = k
        # two passes to propagate through chains
        for _ in range(2):
            for n in own_nodes(fn.node):
                if isinstance(n, ast.Assign) and len(n.targets) == 1 and isinstance(n.targets[0], ast.Name):
                    k = self.kind(fn, n.value, env)
                    if k != OTHER:
                        env.setdefault(n.targets[0].id, k)
                elif isinstance(n, ast.AnnAssign) and isinstance(n.target, ast.Name):
                    k = ann_kind(n.annotation)
                    if k == OTHER and n.value is not None:
                        k = self.kind(fn, n.value, env)
                    if k != OTHER:
                        env.setdefault(n.target.id, k)
                elif isinstance(n, (ast.For, ast.AsyncFor, ast.comprehension)):
                    self._bind_loop(fn, n.target, n.iter, env)
        return env

    def _bind_loop(self, fn: Function, target: ast.AST, it: ast.AST, env: Dict[str, str]) -> None:
        # for k, v in <dict_of_set>.items(): v is a set;  for v in <dict_of_set>.values(): v is a set
        if isinstance(it, ast.Call) and isinstance(it.func, ast.Attribute) and not it.args:
            base = self.kind(fn, it.func.value, env)
            if base == DICT_OF_SET:
                if it.func.attr == "items" and isinstance(target, ast.Tuple) and len(target.elts) == 2 and isinstance(target.elts[1], ast.Name):
                    env.setdefault(target.elts[1].id, SET)
                if it.func.attr == "values" and isinstance(target, ast.Name):
                    env.setdefault(target.id, SET)
        # sorted(<dict_of_set>.items()) keeps values as sets
        if isinstance(it, ast.Call) and dotted(it.func) in ("sorted", "list", "reversed") and it.args:
            inner = it.args[0]
            if isinstance(inner, ast.Call) and isinstance(inner.func, ast.Attribute) and inner.func.attr == "items" \
                    and self.kind(fn, inner.func.value, env) == DICT_OF_SET and isinstance(target, ast.Tuple) and len(target.elts) == 2 \
                    and isinstance(target.elts[1], ast.Name):
                env.setdefault(target.elts[1].id, SET)

    # ------------------------------------------------------------------ expressions
    def kind(self, fn: Function, e: ast.AST, env: Optional[Dict[str, str]] = None) -> str:
        env = env if env is not None else self.env(fn)
        if isinstance(e, (ast.Set, ast.SetComp)):
            return SET
        if isinstance(e, ast.Name):
            return env.get(e.id, OTHER)
        if isinstance(e, ast.Attribute):
            if isinstance(e.value, ast.Name) and e.value.id == "self" and fn.cls is not None:
                return self.attr_kinds(fn.cls).get(e.attr, OTHER)
            # attribute of a typed object
            c = self.res.expr_class(fn, e.value, self.res.param_types(fn), self.res.local_types(fn))
            if c is not None:
                return self.attr_kinds(c).get(e.attr, OTHER)
            return OTHER
        if isinstance(e, ast.Subscript):
            return SET if self.kind(fn, e.value, env) == DICT_OF_SET else OTHER
        if isinstance(e, ast.BinOp) and isinstance(e.op, (ast.BitOr, ast.BitAnd, ast.Sub, ast.BitXor)):
            if SET in (self.kind(fn, e.left, env), self.kind(fn, e.right, env)):
                return SET
            return OTHER
        if isinstance(e, ast.IfExp):
            a, b = self.kind(fn, e.body, env), self.kind(fn, e.orelse, env)
            return a if a != OTHER else b
        if isinstance(e, ast.BoolOp):
            for v in e.values:
                k = self.kind(fn, v, env)
                if k != OTHER:
                    return k
            return OTHER
        if isinstance(e, ast.Call):
            name = dotted(e.func)
            if name in ("set", "frozenset"):
                return SET
            if name in ("defaultdict", "collections.defaultdict") and e.args and dotted(e.args[0]) in ("set", "frozenset"):
                return DICT_OF_SET
            if name in ("list", "tuple") and e.args and self.kind(fn, e.args[0], env) in (SET, SEQ_FROM_SET):
                return SEQ_FROM_SET
            if name in ("sorted",):
                return OTHER
            if isinstance(e.func, ast.Attribute):
                recv = self.kind(fn, e.func.value, env)
                if recv == SET and e.func.attr in SET_RETURNING_METHODS:
                    return SET
                if recv == DICT_OF_SET and e.func.attr in ("get", "pop", "setdefault"):
                    return SET
                if recv == DICT_OF_SET and e.func.attr == "copy":
                    return DICT_OF_SET
            # repository function with a set return annotation
            try:
                for tgt, how in self.res.resolve_call(fn, e, by_name=False):
                    k = self.returns(tgt)
                    if k != OTHER:
                        return k
            except Exception:
                pass
            return OTHER
        return OTHER
