"""CLI: ./check C08 --tier quick|thorough [--replay path] [--repo /repo]

Exit codes: 0 all armed rule instances hold (or are listed known findings);
            1 an unlisted violation (a `VIOLATION property=<id> replay=<path>` line is printed);
            2 ANALYSIS-ERROR (vanished anchor, count below floor, internal error).
"""
from __future__ import annotations

import argparse
import importlib
import json
import os
import sys
import traceback

HERE = os.path.dirname(os.path.abspath(__file__))
sys.path.insert(0, os.path.dirname(HERE))

from sa.model import AnalysisError, Repo  # noqa: E402
from sa.report import Report  # noqa: E402


def main() -> int:
    ap = argparse.ArgumentParser()
    ap.add_argument("prop")
    ap.add_argument("--tier", default=os.environ.get("VERIF_TIER", "quick"), choices=["quick", "thorough"])
    ap.add_argument("--replay", default=None)
    ap.add_argument("--repo", default=os.environ.get("VERIF_REPO", "/repo"))
    ap.add_argument("--no-selftest", action="store_true")
    args = ap.parse_args()
    prop = args.prop.upper()
    seed = int(os.environ.get("VERIF_SEED", "0") or 0)
    rep = Report(prop, args.tier)
    try:
        mod = importlib.import_module(f"rules.{prop.lower()}")
    except ModuleNotFoundError:
        print(f"ANALYSIS-ERROR property={prop} no rule module rules/{prop.lower()}.py")
        return 2
    except Exception as e:  # a broken rule module is an analysis error (exit 2), never an exit-1 "violation"
        print(f"ANALYSIS-ERROR property={prop} the rule module rules/{prop.lower()}.py cannot be loaded: {type(e).__name__}: {e}")
        return 2
    try:
        repo = Repo(args.repo)
        rep.count("repo_digest", repo.digest[:16])
        rep.count("modules_parsed", len(repo.modules))
        mod.run(repo, rep, args.tier)
        if args.tier == "thorough" and not args.no_selftest and args.repo == "/repo":
            from selftest import runner

            runner.run_for_property(prop, rep)
    except AnalysisError as e:
        rep.error(str(e))
    except Exception as e:  # internal error: never a silent pass, never a fake violation
        rep.error(f"internal error {type(e).__name__}: {e}")
        traceback.print_exc()
    if args.replay:
        try:
            want = json.load(open(args.replay))
            hit = [i for i in rep.instances if not i.ok and i.full_key() == want.get("key")]
            print(f"replay: finding {want.get('key')!r} is " + ("STILL REPORTED" if hit else "no longer reported"))
            for i in hit:
                print(f"  {i.rule} {i.loc} {i.message}")
        except Exception as e:
            print(f"replay: cannot read {args.replay}: {e}")
    return rep.finish(seed)


if __name__ == "__main__":
    sys.exit(main())
