"""Evaluation of status-code predicates over the finite domain of HTTP status codes.

The predicate's AST is interpreted by this module (nothing from the repository is executed):
comparisons and boolean connectives over one integer variable, string views of it
(`.isdigit()`, `.startswith("2")`, `int(x)`), httpx.Response convenience flags (frozen table
from httpx's documented contract) and repository helper functions whose body is a single
`return <predicate>` (inlined). Unknown sub-expressions evaluate to None (= unknown)."""
from __future__ import annotations

import ast
from typing import Callable, Dict, Optional, Set

DOMAIN = range(100, 1000)  # every 3-digit status a document can declare (OpenAPI allows only 1xx-5xx, the generator accepts any digits)

HTTPX_FLAGS: Dict[str, Callable[[int], bool]] = {
    "is_informational": lambda c: 100 <= c <= 199,
    "is_success": lambda c: 200 <= c <= 299,
    "is_redirect": lambda c: 300 <= c <= 399,
    "is_client_error": lambda c: 400 <= c <= 499,
    "is_server_error": lambda c: 500 <= c <= 599,
    "is_error": lambda c: 400 <= c <= 599,
}


class Evaluator:
    def __init__(self, var_pred: Callable[[ast.AST], Optional[str]], helpers: Optional[Dict[str, ast.AST]] = None,
                 consts: Optional[Dict[str, tuple]] = None):
        """var_pred(expr) -> 'int' if expr denotes the status code as an int, 'str' if it denotes it as a
        decimal string, else None. helpers: name -> FunctionDef of single-return predicates."""
        self.var_pred = var_pred
        self.helpers = helpers or {}
        self.consts = consts or {}

    def value(self, e: ast.AST, code: int, env: Optional[Dict[str, object]] = None):
        env = env or {}
        kind = self.var_pred(e)
        if kind == "int":
            return code
        if kind == "str":
            return str(code)
        if isinstance(e, ast.Constant):
            return e.value
        if isinstance(e, ast.Name) and e.id in env:
            return env[e.id]
        if isinstance(e, ast.Name) and e.id in self.consts:
            return self.consts[e.id]
        if isinstance(e, ast.Call) and isinstance(e.func, ast.Name) and e.func.id == "int" and len(e.args) == 1:
            v = self.value(e.args[0], code, env)
            try:
                return int(v) if v is not None else None
            except (TypeError, ValueError):
                return None
        if isinstance(e, ast.Call) and isinstance(e.func, ast.Name) and e.func.id == "str" and len(e.args) == 1:
            v = self.value(e.args[0], code, env)
            return str(v) if v is not None else None
        if isinstance(e, ast.Call) and isinstance(e.func, ast.Name) and e.func.id == "range":
            args = [self.value(a, code, env) for a in e.args]
            if all(isinstance(a, int) for a in args):
                return range(*args)  # type: ignore[arg-type]
            return None
        if isinstance(e, (ast.Tuple, ast.List, ast.Set)):
            vals = [self.value(x, code, env) for x in e.elts]
            return None if any(v is None for v in vals) else tuple(vals)
        if isinstance(e, ast.Subscript):
            base = self.value(e.value, code, env)
            if isinstance(base, (str, tuple)):
                sl = e.slice
                try:
                    if isinstance(sl, ast.Slice):
                        lo = self.value(sl.lower, code, env) if sl.lower is not None else None
                        hi = self.value(sl.upper, code, env) if sl.upper is not None else None
                        st = self.value(sl.step, code, env) if sl.step is not None else None
                        return base[lo:hi:st]
                    idx = self.value(sl, code, env)
                    if isinstance(idx, int):
                        return base[idx]
                except (TypeError, IndexError, ValueError):
                    return None
            return None
        if isinstance(e, ast.UnaryOp) and isinstance(e.op, ast.USub):
            v = self.value(e.operand, code, env)
            return -v if isinstance(v, int) else None
        if isinstance(e, ast.BinOp) and isinstance(e.op, ast.FloorDiv):
            a, b = self.value(e.left, code, env), self.value(e.right, code, env)
            if isinstance(a, int) and isinstance(b, int) and b:
                return a // b
        return self.truth(e, code, env)

    def truth(self, e: ast.AST, code: int, env: Optional[Dict[str, object]] = None) -> Optional[bool]:
        env = env or {}
        if isinstance(e, ast.BoolOp):
            vals = [self.truth(v, code, env) for v in e.values]
            if isinstance(e.op, ast.And):
                if any(v is False for v in vals):
                    return False
                return None if any(v is None for v in vals) else True
            if any(v is True for v in vals):
                return True
            return None if any(v is None for v in vals) else False
        if isinstance(e, ast.UnaryOp) and isinstance(e.op, ast.Not):
            v = self.truth(e.operand, code, env)
            return None if v is None else (not v)
        if isinstance(e, ast.Compare):
            left = self.value(e.left, code, env)
            result = True
            for op, comp in zip(e.ops, e.comparators):
                right = self.value(comp, code, env)
                if left is None or right is None:
                    return None
                try:
                    if isinstance(op, ast.Lt):
                        r = left < right
                    elif isinstance(op, ast.LtE):
                        r = left <= right
                    elif isinstance(op, ast.Gt):
                        r = left > right
                    elif isinstance(op, ast.GtE):
                        r = left >= right
                    elif isinstance(op, ast.Eq):
                        r = left == right
                    elif isinstance(op, ast.NotEq):
                        r = left != right
                    elif isinstance(op, ast.In):
                        r = left in right
                    elif isinstance(op, ast.NotIn):
                        r = left not in right
                    else:
                        return None
                except TypeError:
                    return None
                result = result and r
                left = right
            return result
        if isinstance(e, ast.Constant):
            return bool(e.value)
        if isinstance(e, ast.Attribute) and e.attr in HTTPX_FLAGS and self.var_pred(e.value) == "response":
            return HTTPX_FLAGS[e.attr](code)
        if isinstance(e, ast.Call) and isinstance(e.func, ast.Attribute):
            recv = self.value(e.func.value, code, env)
            if isinstance(recv, str):
                if e.func.attr == "isdigit" and not e.args:
                    return recv.isdigit()
                if e.func.attr in ("startswith", "endswith") and len(e.args) == 1:
                    a = self.value(e.args[0], code, env)
                    if isinstance(a, (str, tuple)):
                        return recv.startswith(a) if e.func.attr == "startswith" else recv.endswith(a)
        if isinstance(e, ast.Call):
            name = e.func.id if isinstance(e.func, ast.Name) else (e.func.attr if isinstance(e.func, ast.Attribute) else None)
            if name in self.helpers and len(e.args) == 1:
                fn = self.helpers[name]
                arg = self.value(e.args[0], code, env)
                if arg is None:
                    return None
                body = [s for s in fn.body if not (isinstance(s, ast.Expr) and isinstance(s.value, ast.Constant))]  # type: ignore[attr-defined]
                if len(body) == 1 and isinstance(body[0], ast.Return) and body[0].value is not None:
                    pname = fn.args.args[0].arg  # type: ignore[attr-defined]
                    sub = Evaluator(lambda x: None, self.helpers, self.consts)
                    return sub.truth(body[0].value, code, {pname: arg})
        if isinstance(e, ast.Name) and e.id in env:
            return bool(env[e.id])
        return None

    def codes_where(self, e: ast.AST, want: bool = True) -> Optional[Set[int]]:
        out = set()
        for c in DOMAIN:
            t = self.truth(e, c)
            if t is None:
                return None
            if t is want:
                out.add(c)
        return out


def fmt(codes: Set[int]) -> str:
    """{100..199, 300..599} style rendering."""
    if not codes:
        return "{}"
    xs = sorted(codes)
    runs = []
    a = b = xs[0]
    for x in xs[1:]:
        if x == b + 1:
            b = x
        else:
            runs.append((a, b))
            a = b = x
    runs.append((a, b))
    return "{" + ", ".join(f"{a}" if a == b else f"{a}..{b}" for a, b in runs) + "}"
