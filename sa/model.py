"""Source model of /repo/src/pyopenapi_gen: modules, classes, functions, import aliases.

Nothing here imports or runs pyopenapi_gen; everything is read with `ast` from the
working tree on every run.
"""
from __future__ import annotations

import ast
import hashlib
import os
from dataclasses import dataclass, field
from typing import Dict, Iterator, List, Optional, Tuple

PKG = "pyopenapi_gen"


class AnalysisError(Exception):
    """The analysis itself could not be carried out (vanished anchor, unparsable file...)."""


@dataclass
class Function:
    module: "Module"
    qualname: str  # "Class.method" or "func" or "outer.<locals>.inner"
    node: ast.AST  # FunctionDef / AsyncFunctionDef
    cls: Optional["Class"] = None

    @property
    def name(self) -> str:
        return self.node.name  # type: ignore[attr-defined]

    @property
    def fq(self) -> str:
        return f"{self.module.name}:{self.qualname}"

    @property
    def params(self) -> List[str]:
        a = self.node.args  # type: ignore[attr-defined]
        return [x.arg for x in a.posonlyargs + a.args + a.kwonlyargs]

    def loc(self, node: Optional[ast.AST] = None) -> str:
        n = node if node is not None else self.node
        return f"{self.module.relpath}:{getattr(n, 'lineno', 0)}"


@dataclass
class Class:
    module: "Module"
    name: str
    node: ast.ClassDef
    methods: Dict[str, Function] = field(default_factory=dict)

    @property
    def base_names(self) -> List[str]:
        out = []
        for b in self.node.bases:
            if isinstance(b, ast.Name):
                out.append(b.id)
            elif isinstance(b, ast.Attribute):
                out.append(b.attr)
        return out


@dataclass
class Module:
    name: str  # dotted
    path: str  # absolute
    relpath: str  # relative to repo root
    source: str
    tree: ast.Module
    functions: Dict[str, Function] = field(default_factory=dict)  # qualname -> Function
    classes: Dict[str, Class] = field(default_factory=dict)
    # alias -> (module dotted, symbol or None)
    imports: Dict[str, Tuple[str, Optional[str]]] = field(default_factory=dict)
    is_package: bool = False

    def func(self, qualname: str) -> Function:
        try:
            return self.functions[qualname]
        except KeyError:
            raise AnalysisError(f"anchor vanished: function {self.name}:{qualname}")

    def segment(self, node: ast.AST) -> str:
        return ast.get_source_segment(self.source, node) or ast.unparse(node)


CURRENT_REPO = None


class Repo:
    def __init__(self, root: str = "/repo"):
        self.root = os.path.abspath(root)
        self.src = os.path.join(self.root, "src")
        self.pkg_dir = os.path.join(self.src, PKG)
        if not os.path.isdir(self.pkg_dir):
            raise AnalysisError(f"package directory missing: {self.pkg_dir}")
        self.modules: Dict[str, Module] = {}
        self._digest = hashlib.sha256()
        self._load()
        global CURRENT_REPO
        CURRENT_REPO = self  # the most recently loaded tree (used by sa/flatten.py to follow imported helper functions)
        if os.environ.get("VERIF_FLATTEN", "0") == "1":  # experiment switch: flatten every function (not used by the checks)
            self._flatten_all()

    # ------------------------------------------------------------------ loading
    def _flatten_all(self) -> None:
        """Replace every function by its flattened version (sa/flatten.py): local helper calls inlined, computed from the original nodes."""
        from sa.flatten import flatten

        new: Dict[Tuple[str, str], Function] = {}
        for mn, mod in self.modules.items():
            for q, fn in mod.functions.items():
                try:
                    f2 = flatten(fn)
                except RecursionError:
                    f2 = fn
                if f2 is not fn:
                    new[(mn, q)] = f2
        for (mn, q), f2 in new.items():
            mod = self.modules[mn]
            mod.functions[q] = f2
            if f2.cls is not None and f2.cls.methods.get(f2.name) is not None and f2.cls.methods[f2.name].qualname == q:
                f2.cls.methods[f2.name] = f2
        self.flattened = len(new)

    def _load(self) -> None:
        for dirpath, dirnames, filenames in os.walk(self.pkg_dir):
            dirnames[:] = sorted(d for d in dirnames if d != "__pycache__")
            for fn in sorted(filenames):
                if not fn.endswith(".py"):
                    continue
                path = os.path.join(dirpath, fn)
                rel = os.path.relpath(path, self.src)
                parts = rel[:-3].split(os.sep)
                is_pkg = parts[-1] == "__init__"
                if is_pkg:
                    parts = parts[:-1]
                name = ".".join(parts)
                with open(path, "rb") as f:
                    raw = f.read()
                self._digest.update(rel.encode())
                self._digest.update(raw)
                try:
                    source = raw.decode("utf-8")
                    tree = ast.parse(source, filename=path)
                except (SyntaxError, UnicodeDecodeError) as e:
                    raise AnalysisError(f"cannot parse {path}: {e}")
                mod = Module(
                    name=name,
                    path=path,
                    relpath=os.path.relpath(path, self.root),
                    source=source,
                    tree=tree,
                    is_package=is_pkg,
                )
                self._index(mod)
                self.modules[name] = mod

    def _index(self, mod: Module) -> None:
        for n in ast.walk(mod.tree):
            for ch in ast.iter_child_nodes(n):
                ch._parent = n  # type: ignore[attr-defined]

        def resolve_rel(level: int, module: Optional[str]) -> str:
            if level == 0:
                return module or ""
            base = mod.name.split(".")
            if not mod.is_package:
                base = base[:-1]
            if level > 1:
                base = base[: len(base) - (level - 1)]
            if module:
                base = base + module.split(".")
            return ".".join(base)

        for n in ast.walk(mod.tree):
            if isinstance(n, ast.Import):
                for a in n.names:
                    alias = a.asname or a.name.split(".")[0]
                    target = a.name if a.asname else a.name.split(".")[0]
                    mod.imports.setdefault(alias, (target, None))
            elif isinstance(n, ast.ImportFrom):
                m = resolve_rel(n.level, n.module)
                for a in n.names:
                    mod.imports.setdefault(a.asname or a.name, (m, a.name))

        def visit(body: List[ast.stmt], prefix: str, cls: Optional[Class]) -> None:
            for st in body:
                if isinstance(st, (ast.FunctionDef, ast.AsyncFunctionDef)):
                    qn = f"{prefix}{st.name}"
                    fn = Function(mod, qn, st, cls)
                    # first definition wins unless overloads: keep the last non-overload
                    mod.functions[qn] = fn
                    if cls is not None and prefix == f"{cls.name}.":
                        cls.methods[st.name] = fn
                    visit_nested(st, f"{qn}.<locals>.", cls)
                elif isinstance(st, ast.ClassDef):
                    c = Class(mod, st.name, st)
                    if not prefix:
                        mod.classes[st.name] = c
                    visit(st.body, f"{prefix}{st.name}.", c)
                elif isinstance(st, (ast.If, ast.Try, ast.With, ast.For, ast.While)):
                    for fld in ("body", "orelse", "finalbody"):
                        visit(getattr(st, fld, []) or [], prefix, cls)
                    for h in getattr(st, "handlers", []) or []:
                        visit(h.body, prefix, cls)

        def visit_nested(fn_node: ast.AST, prefix: str, cls: Optional[Class]) -> None:
            for st in ast.walk(fn_node):
                if st is fn_node:
                    continue
                if isinstance(st, (ast.FunctionDef, ast.AsyncFunctionDef)):
                    # only direct nesting level is named precisely; deeper ones get same prefix
                    qn = f"{prefix}{st.name}"
                    mod.functions.setdefault(qn, Function(mod, qn, st, cls))

        visit(mod.tree.body, "", None)

    # ------------------------------------------------------------------ access
    @property
    def digest(self) -> str:
        return self._digest.hexdigest()

    def module(self, dotted: str) -> Module:
        name = dotted if dotted.startswith(PKG) else f"{PKG}.{dotted}"
        try:
            return self.modules[name]
        except KeyError:
            raise AnalysisError(f"anchor vanished: module {name}")

    def has_module(self, dotted: str) -> bool:
        name = dotted if dotted.startswith(PKG) else f"{PKG}.{dotted}"
        return name in self.modules

    def func(self, spec: str) -> Function:
        """spec = 'core.parsing.schema_parser:_parse_schema'"""
        m, q = spec.split(":")
        return self.module(m).func(q)

    def cls(self, spec: str) -> Class:
        m, c = spec.split(":")
        mod = self.module(m)
        if c not in mod.classes:
            raise AnalysisError(f"anchor vanished: class {mod.name}:{c}")
        return mod.classes[c]

    def all_functions(self, modules: Optional[List[str]] = None) -> Iterator[Function]:
        for name, mod in self.modules.items():
            if modules is not None and name not in modules:
                continue
            yield from mod.functions.values()

    # ------------------------------------------------------------------ liveness
    def import_closure(self, roots: List[str]) -> List[str]:
        """Modules of the package reachable through import statements from roots."""
        seen: Dict[str, None] = {}
        todo = [r if r.startswith(PKG) else f"{PKG}.{r}" for r in roots]
        while todo:
            m = todo.pop()
            if m in seen or m not in self.modules:
                continue
            seen[m] = None
            # parent packages are imported implicitly
            parts = m.split(".")
            for i in range(1, len(parts)):
                todo.append(".".join(parts[:i]))
            mod = self.modules[m]
            for n in ast.walk(mod.tree):
                if isinstance(n, ast.Import):
                    for a in n.names:
                        if a.name.startswith(PKG):
                            todo.append(a.name)
                elif isinstance(n, ast.ImportFrom):
                    base = self._resolve_from(mod, n)
                    if base.startswith(PKG):
                        todo.append(base)
                        for a in n.names:
                            todo.append(f"{base}.{a.name}")
        return sorted(seen)

    @staticmethod
    def _resolve_from(mod: Module, n: ast.ImportFrom) -> str:
        if n.level == 0:
            return n.module or ""
        base = mod.name.split(".")
        if not mod.is_package:
            base = base[:-1]
        if n.level > 1:
            base = base[: len(base) - (n.level - 1)]
        if n.module:
            base = base + n.module.split(".")
        return ".".join(base)


# ---------------------------------------------------------------------- small AST helpers
def set_parents(root: ast.AST) -> None:
    for n in ast.walk(root):
        for ch in ast.iter_child_nodes(n):
            ch._parent = n  # type: ignore[attr-defined]


def parent(node: ast.AST) -> Optional[ast.AST]:
    return getattr(node, "_parent", None)


def enclosing_function(node: ast.AST) -> Optional[ast.AST]:
    p = parent(node)
    while p is not None and not isinstance(p, (ast.FunctionDef, ast.AsyncFunctionDef, ast.Lambda)):
        p = parent(p)
    return p


def enclosing_stmt(node: ast.AST) -> ast.stmt:
    n = node
    while not isinstance(n, ast.stmt):
        n = parent(n)  # type: ignore[assignment]
        if n is None:
            raise AnalysisError("expression without an enclosing statement")
    return n


def dotted(node: ast.AST) -> Optional[str]:
    """`a.b.c` -> 'a.b.c' for Name/Attribute chains, else None."""
    parts: List[str] = []
    while isinstance(node, ast.Attribute):
        parts.append(node.attr)
        node = node.value
    if isinstance(node, ast.Name):
        parts.append(node.id)
        return ".".join(reversed(parts))
    return None


def call_name(call: ast.Call) -> Optional[str]:
    return dotted(call.func)


def norm(node: ast.AST) -> str:
    """Normalised construct text used in finding keys (position independent)."""
    try:
        s = ast.unparse(node)
    except Exception:  # pragma: no cover
        s = ast.dump(node)
    s = " ".join(s.split())
    return s if len(s) <= 160 else s[:157] + "..."


def own_nodes(fn_node: ast.AST) -> Iterator[ast.AST]:
    """Walk a function body without descending into nested function/class definitions
    (lambdas and comprehensions are included)."""
    todo = list(ast.iter_child_nodes(fn_node))
    while todo:
        n = todo.pop()
        yield n
        if isinstance(n, (ast.FunctionDef, ast.AsyncFunctionDef, ast.ClassDef)):
            continue
        todo.extend(ast.iter_child_nodes(n))


def calls_in(node: ast.AST, include_nested_defs: bool = False) -> List[ast.Call]:
    it = ast.walk(node) if include_nested_defs else own_nodes(node)
    out = [n for n in it if isinstance(n, ast.Call)]
    out.sort(key=lambda c: (c.lineno, c.col_offset))
    return out


def const_str(node: ast.AST) -> Optional[str]:
    if isinstance(node, ast.Constant) and isinstance(node.value, str):
        return node.value
    return None


def full(node: ast.AST) -> str:
    """Un-truncated normalised text of a node (for containment checks on whole functions)."""
    try:
        return " ".join(ast.unparse(node).split())
    except Exception:  # pragma: no cover
        return ast.dump(node)
