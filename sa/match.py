"""Name-independent matching of repository code.

Rules must not depend on how a maintainer spells a local variable or on which of two equivalent idioms was used.  This module gives
them three tools:

* ``match(pattern, node)`` / ``find_all(root, pattern)`` - AST patterns with metavariables.  In a pattern (ordinary Python source)
    ``VAR_x``   binds any Name (consistently: every ``VAR_x`` must be the same identifier)
    ``ANY_x``   binds any expression (consistently: structurally equal);  ``ANY_`` alone is a wildcard that binds nothing
    ``STR_x``   binds a string constant,  ``NUM_x`` a numeric constant
    ``*ANY_rest`` in an argument list matches the remaining positional arguments
  everything else (attribute names, called names, keywords, constants) is literal.  Comparisons are matched modulo operand order
  (``a == b`` / ``b == a``, ``a < b`` / ``b > a``), ``x = x + 1`` matches the pattern ``x += 1``, and a pattern for ``not E`` also
  matches through the polarity helper of the CFG (see rules).
* ``Locals(fn)`` - single-definition chasing: which expression a local was bound to, inlining of temporaries, alias roots, the
  variables bound from a call matching a pattern, loop targets of a loop over a matching iterable.
* ``canon_compare`` - puts a constant on the right-hand side of a comparison.
"""
from __future__ import annotations

import ast
import copy
from typing import Any, Dict, Iterator, List, Optional, Tuple

Env = Dict[str, Any]
_MIRROR = {ast.Lt: ast.Gt, ast.Gt: ast.Lt, ast.LtE: ast.GtE, ast.GtE: ast.LtE, ast.Eq: ast.Eq, ast.NotEq: ast.NotEq, ast.Is: ast.Is, ast.IsNot: ast.IsNot}
_PAT_CACHE: Dict[str, ast.AST] = {}


def pat(src: str) -> ast.AST:
    if src not in _PAT_CACHE:
        try:
            _PAT_CACHE[src] = ast.parse(src, mode="eval").body
        except SyntaxError:
            body = ast.parse(src).body
            _PAT_CACHE[src] = body[0] if len(body) == 1 else ast.Module(body=body, type_ignores=[])
    return _PAT_CACHE[src]


def _eq(a: Any, b: Any) -> bool:
    if isinstance(a, ast.AST) and isinstance(b, ast.AST):
        return ast.dump(a) == ast.dump(b)
    return a == b


def _bind(env: Env, key: str, val: Any) -> bool:
    if key in env:
        return _eq(env[key], val)
    env[key] = val
    return True


def _meta(n: ast.AST) -> Optional[Tuple[str, str]]:
    if isinstance(n, ast.Name):
        for k in ("VAR_", "ANY_", "STR_", "NUM_"):
            if n.id.startswith(k):
                return k[:-1], n.id
    return None


def match(p: Any, n: Any, env: Optional[Env] = None) -> Optional[Env]:
    """Match pattern p (source string or AST) against node n; returns the bindings or None."""
    if isinstance(p, str):
        p = pat(p)
    e: Env = dict(env or {})
    return e if _m(p, n, e) else None


def _m(p: Any, n: Any, env: Env) -> bool:
    if isinstance(p, ast.AST):
        mv = _meta(p)
        if mv:
            kind, key = mv
            if not isinstance(n, ast.AST):
                return False
            if kind == "VAR":
                return isinstance(n, ast.Name) and _bind(env, key, n.id)
            if kind == "STR":
                return isinstance(n, ast.Constant) and isinstance(n.value, str) and _bind(env, key, n.value)
            if kind == "NUM":
                return isinstance(n, ast.Constant) and isinstance(n.value, (int, float)) and not isinstance(n.value, bool) and _bind(env, key, n.value)
            if key == "ANY_":
                return isinstance(n, ast.expr)
            return isinstance(n, ast.expr) and _bind(env, key, n)
        if isinstance(p, ast.Expr) and isinstance(n, ast.Expr):
            return _m(p.value, n.value, env)
        # x += 1  ~  x = x + 1
        if isinstance(p, ast.AugAssign) and isinstance(n, ast.Assign) and len(n.targets) == 1 and isinstance(n.value, ast.BinOp) \
                and type(n.value.op) is type(p.op):
            snap = dict(env)
            if _m(p.target, n.targets[0], env) and _eq_load(n.targets[0], n.value.left) and _m(p.value, n.value.right, env):
                return True
            env.clear(); env.update(snap)
            return False
        if isinstance(p, ast.Compare) and isinstance(n, ast.Compare) and len(p.ops) == 1 and len(n.ops) == 1:
            snap = dict(env)
            if type(p.ops[0]) is type(n.ops[0]) and _m(p.left, n.left, env) and _m(p.comparators[0], n.comparators[0], env):
                return True
            env.clear(); env.update(snap)
            mir = _MIRROR.get(type(n.ops[0]))
            if mir is not None and mir is type(p.ops[0]) and _m(p.left, n.comparators[0], env) and _m(p.comparators[0], n.left, env):
                return True
            env.clear(); env.update(snap)
            return False
        if type(p) is not type(n):
            return False
        if isinstance(p, ast.Call):
            if not _m(p.func, n.func, env):
                return False
            pargs, nargs = list(p.args), list(n.args)
            if pargs and isinstance(pargs[-1], ast.Starred) and _meta(pargs[-1].value):
                key = _meta(pargs[-1].value)[1]  # type: ignore[index]
                head = pargs[:-1]
                if len(nargs) < len(head):
                    return False
                if not all(_m(a, b, env) for a, b in zip(head, nargs)):
                    return False
                if key != "ANY_":
                    env[key] = nargs[len(head):]
            else:
                if len(pargs) != len(nargs) or not all(_m(a, b, env) for a, b in zip(pargs, nargs)):
                    return False
            nk = {k.arg: k.value for k in n.keywords}
            for k in p.keywords:
                if k.arg is None:
                    continue  # **ANY_ in the pattern: any further keywords
                if k.arg not in nk or not _m(k.value, nk[k.arg], env):
                    return False
            if not any(k.arg is None for k in p.keywords) and len([k for k in p.keywords]) != len(n.keywords):
                return False
            return True
        for f in p._fields:
            if f in ("ctx", "type_comment", "kind"):
                continue
            if not _m(getattr(p, f, None), getattr(n, f, None), env):
                return False
        return True
    if isinstance(p, list):
        return isinstance(n, list) and len(p) == len(n) and all(_m(a, b, env) for a, b in zip(p, n))
    return p == n


def _eq_load(a: ast.AST, b: ast.AST) -> bool:
    return ast.dump(_as_load(a)) == ast.dump(_as_load(b))


def clone(n: Any) -> Any:
    """Structural copy of an AST (fields and positions only - the model's parent back-links are not followed)."""
    if isinstance(n, ast.AST):
        c = type(n)()
        for f in n._fields:
            if hasattr(n, f):
                setattr(c, f, clone(getattr(n, f)))
        for a in ("lineno", "col_offset", "end_lineno", "end_col_offset"):
            if hasattr(n, a):
                setattr(c, a, getattr(n, a))
        return c
    if isinstance(n, list):
        return [clone(x) for x in n]
    return n


def _as_load(a: ast.AST) -> ast.AST:
    c = clone(a)
    for x in ast.walk(c):
        if hasattr(x, "ctx"):
            x.ctx = ast.Load()  # type: ignore[attr-defined]
    return c


def walk_own(root: ast.AST, nested: bool = False) -> Iterator[ast.AST]:
    """ast.walk that does not descend into nested function/class definitions (unless nested=True)."""
    todo = list(ast.iter_child_nodes(root))
    while todo:
        n = todo.pop()
        yield n
        if not nested and isinstance(n, (ast.FunctionDef, ast.AsyncFunctionDef, ast.ClassDef, ast.Lambda)):
            continue
        todo.extend(ast.iter_child_nodes(n))


def find_all(root: ast.AST, pattern: Any, nested: bool = False, env: Optional[Env] = None) -> List[Tuple[ast.AST, Env]]:
    p = pat(pattern) if isinstance(pattern, str) else pattern
    out = []
    for n in walk_own(root, nested):
        e = match(p, n, env)
        if e is not None:
            out.append((n, e))
    out.sort(key=lambda t: (getattr(t[0], "lineno", 0), getattr(t[0], "col_offset", 0)))
    return out


def contains(root: ast.AST, pattern: Any, nested: bool = False, env: Optional[Env] = None) -> bool:
    return bool(find_all(root, pattern, nested, env))


def canon_compare(n: ast.AST) -> ast.AST:
    """`"data" == field` -> `field == "data"`, `5 < x` -> `x > 5` (single-operator comparisons only)."""
    if isinstance(n, ast.Compare) and len(n.ops) == 1 and isinstance(n.left, ast.Constant) and not isinstance(n.comparators[0], ast.Constant):
        mir = _MIRROR.get(type(n.ops[0]))
        if mir is not None:
            return ast.Compare(left=n.comparators[0], ops=[mir()], comparators=[n.left])
    return n


class Locals:
    """Definitions of the local names of one function (nested defs excluded)."""

    def __init__(self, fn_node: ast.AST):
        self.fn = fn_node
        a = fn_node.args  # type: ignore[attr-defined]
        self.params: List[str] = [x.arg for x in a.posonlyargs + a.args] + ([a.vararg.arg] if a.vararg else []) + [x.arg for x in a.kwonlyargs] + (
            [a.kwarg.arg] if a.kwarg else [])
        self.defs: Dict[str, List[Tuple[str, Optional[ast.AST], ast.AST]]] = {}
        for p in self.params:
            self.defs.setdefault(p, []).append(("param", None, fn_node))
        for n in walk_own(fn_node):
            if isinstance(n, ast.Assign):
                for t in n.targets:
                    self._bind_target(t, n.value, n, "assign")
            elif isinstance(n, ast.AnnAssign) and n.value is not None:
                self._bind_target(n.target, n.value, n, "assign")
            elif isinstance(n, ast.AugAssign):
                self._bind_target(n.target, None, n, "aug")
            elif isinstance(n, (ast.For, ast.AsyncFor)):
                self._bind_target(n.target, n.iter, n, "for")
            elif isinstance(n, ast.comprehension):
                self._bind_target(n.target, n.iter, n, "for")
            elif isinstance(n, (ast.With, ast.AsyncWith)):
                for it in n.items:
                    if it.optional_vars is not None:
                        self._bind_target(it.optional_vars, it.context_expr, n, "with")
            elif isinstance(n, ast.NamedExpr):
                self._bind_target(n.target, n.value, n, "assign")
            elif isinstance(n, ast.ExceptHandler) and n.name:
                self.defs.setdefault(n.name, []).append(("except", n.type, n))

    def _bind_target(self, t: ast.AST, value: Optional[ast.AST], stmt: ast.AST, kind: str) -> None:
        if isinstance(t, ast.Name):
            self.defs.setdefault(t.id, []).append((kind, value, stmt))
        elif isinstance(t, (ast.Tuple, ast.List)):
            for i, e in enumerate(t.elts):
                self._bind_target(e, None if value is None else ast.Subscript(value=value, slice=ast.Constant(value=i), ctx=ast.Load()), stmt, kind + "-unpack")
        elif isinstance(t, ast.Starred):
            self._bind_target(t.value, None, stmt, kind + "-unpack")

    _MUTATORS = ("append", "extend", "add", "update", "insert", "pop", "clear", "remove", "discard", "setdefault", "sort", "reverse", "popitem")

    def mutated(self) -> set:
        """Names whose object is changed in place (method mutators, item assignment/deletion): never inlined."""
        if not hasattr(self, "_mutated"):
            m = set()
            for n in walk_own(self.fn):
                if isinstance(n, ast.Call) and isinstance(n.func, ast.Attribute) and n.func.attr in self._MUTATORS and isinstance(n.func.value, ast.Name):
                    m.add(n.func.value.id)
                elif isinstance(n, (ast.Assign, ast.AugAssign, ast.AnnAssign, ast.Delete)):
                    tgs = n.targets if isinstance(n, (ast.Assign, ast.Delete)) else [n.target]
                    for t in tgs:
                        if isinstance(t, ast.Subscript) and isinstance(t.value, ast.Name):
                            m.add(t.value.id)
            self._mutated = m
        return self._mutated

    def single(self, name: str) -> Optional[ast.AST]:
        """The bound expression of a name that is assigned exactly once (plain assignment) and never mutated in place, else None."""
        if name in self.mutated():
            return None
        d = self.defs.get(name, [])
        if len(d) == 1 and d[0][0] == "assign" and d[0][1] is not None:
            return d[0][1]
        if len(d) > 1 and all(k == "assign" and v is not None for k, v, *_ in d) and len({ast.dump(v) for _, v, *_ in d}) == 1:
            return d[0][1]  # the same expression bound in several branches (`flag = x == "None"` written once per arm)
        return None

    def inline(self, e: ast.AST, depth: int = 4, stop: Tuple[str, ...] = ()) -> ast.AST:
        """Copy of e with single-definition temporaries replaced by their definition (for shape matching only)."""
        loc = self

        class T(ast.NodeTransformer):
            def __init__(self, d: int):
                self.d = d

            def visit_Name(self, n: ast.Name) -> ast.AST:  # noqa: N802
                if isinstance(n.ctx, ast.Load) and self.d > 0 and n.id not in stop:
                    v = loc.single(n.id)
                    if v is not None and not any(isinstance(x, (ast.Await, ast.Yield, ast.YieldFrom)) for x in ast.walk(v)):
                        return T(self.d - 1).visit(clone(v))
                return n

        return T(depth).visit(clone(e))

    def root(self, name: str, depth: int = 6) -> str:
        """Follow `a = b` alias chains (single definitions) to the first non-alias name."""
        while depth > 0:
            v = self.single(name)
            if isinstance(v, ast.Name):
                name = v.id
                depth -= 1
            else:
                break
        return name

    def bound_from(self, pattern: Any, env: Optional[Env] = None) -> List[Tuple[str, ast.AST, Env]]:
        """Names assigned (plain assignment) from a value matching the pattern -> (name, statement, bindings)."""
        out = []
        for name, ds in self.defs.items():
            for kind, value, stmt in ds:
                if kind == "assign" and value is not None:
                    e = match(pattern, value, env)
                    if e is not None:
                        out.append((name, stmt, e))
        return out

    def loops_over(self, pattern: Any, env: Optional[Env] = None, inline: bool = True) -> List[Tuple[ast.AST, Env]]:
        """for-loops / comprehensions whose iterable (after inlining temporaries) matches the pattern."""
        out = []
        for n in walk_own(self.fn):
            it = n.iter if isinstance(n, (ast.For, ast.AsyncFor, ast.comprehension)) else None
            if it is None:
                continue
            e = match(pattern, it, env)
            if e is None and inline:
                e = match(pattern, self.inline(it), env)
            if e is not None:
                out.append((n, e))
        return out

    def is_param(self, name: str) -> bool:
        return name in self.params

    def names_equal(self, a: str, b: str) -> bool:
        return self.root(a) == self.root(b)


def names_in(e: ast.AST) -> List[str]:
    return [n.id for n in ast.walk(e) if isinstance(n, ast.Name)]


def unparse(e: Any) -> str:
    if isinstance(e, list):
        return ", ".join(unparse(x) for x in e)
    try:
        return ast.unparse(e)
    except Exception:
        return repr(e)


def conjuncts(e: ast.AST, L: Optional["Locals"] = None, stop: Tuple[str, ...] = ()) -> List[ast.AST]:
    """Flattened conjuncts of a condition: temporaries inlined, `bool(x)` unwrapped, nested `and` flattened."""
    if L is not None:
        e = L.inline(e, stop=stop)
    out: List[ast.AST] = []

    def go(x: ast.AST) -> None:
        while isinstance(x, ast.Call) and isinstance(x.func, ast.Name) and x.func.id == "bool" and len(x.args) == 1 and not x.keywords:
            x = x.args[0]
        if isinstance(x, ast.BoolOp) and isinstance(x.op, ast.And):
            for v in x.values:
                go(v)
        else:
            out.append(x)

    go(e)
    return out


def truthiness(e: ast.AST) -> Optional[Tuple[ast.AST, bool]]:
    """Normal form of emptiness tests: returns (X, sense) when the expression is true exactly when `bool(X) == sense`.
    `X`, `not X`, `X == ""`, `X != []`, `len(X) == 0`, `len(X) > 0`, `len(X) >= 1`, `not len(X)`, `bool(X)` ..."""
    sense = True
    while True:
        if isinstance(e, ast.UnaryOp) and isinstance(e.op, ast.Not):
            e, sense = e.operand, not sense
            continue
        if isinstance(e, ast.Call) and isinstance(e.func, ast.Name) and e.func.id == "bool" and len(e.args) == 1:
            e = e.args[0]
            continue
        break
    e = canon_compare(e)
    if isinstance(e, ast.Compare) and len(e.ops) == 1:
        left, op, right = e.left, e.ops[0], e.comparators[0]
        empty_lit = (isinstance(right, ast.Constant) and right.value in ("", b"")) or (isinstance(right, (ast.List, ast.Tuple, ast.Dict, ast.Set)) and not getattr(right, "elts", getattr(right, "keys", [])))
        is_len = isinstance(left, ast.Call) and isinstance(left.func, ast.Name) and left.func.id == "len" and len(left.args) == 1
        if empty_lit and not is_len and isinstance(op, (ast.Eq, ast.NotEq)):
            return left, (sense if isinstance(op, ast.NotEq) else not sense)
        if is_len and isinstance(right, ast.Constant) and isinstance(right.value, int):
            x = left.args[0]  # type: ignore[union-attr]
            k = right.value
            nonempty = None
            if isinstance(op, ast.Eq) and k == 0:
                nonempty = False
            elif isinstance(op, ast.NotEq) and k == 0:
                nonempty = True
            elif isinstance(op, ast.Gt) and k == 0:
                nonempty = True
            elif isinstance(op, ast.GtE) and k == 1:
                nonempty = True
            elif isinstance(op, ast.Lt) and k == 1:
                nonempty = False
            elif isinstance(op, ast.LtE) and k == 0:
                nonempty = False
            if nonempty is not None:
                return x, (sense if nonempty else not sense)
        return None
    if isinstance(e, ast.Call) and isinstance(e.func, ast.Name) and e.func.id == "len" and len(e.args) == 1:
        return e.args[0], sense
    if isinstance(e, (ast.Name, ast.Attribute, ast.Subscript)):
        return e, sense
    return None
