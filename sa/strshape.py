"""String-shape abstract interpretation for name-deriving functions (C20).

Abstract string  = (may_empty, first: set of char classes, chars: set of char classes, suffix: guaranteed constant suffix)
Abstract list    = (may_be_empty_list, elem: abstract string, elems_may_be_empty_string)

Character classes partition all of Unicode:
  U  ASCII upper      L  ASCII lower      D  ASCII digit     _  underscore     O  other ASCII (punctuation, space, ...)
  XS non-ASCII XID_Start (letters: é, 日)          XC non-ASCII XID_Continue-only (combining marks, non-ASCII digits ٣)
  W  non-ASCII matched by \\w but not XID_Continue (², ½, ①)        N  other non-ASCII (symbols, punctuation, spaces)

Transfer functions exist for exactly the operations the repository's sanitizers use (`re.sub/findall/split` with the
pattern parsed by `re._parser`, `lower/upper/capitalize/strip`, `join` over filtered generators, `[0].isdigit()` prefixing,
emptiness tests, constant fallbacks, keyword suffixing). Anything else raises Unsupported -> ANALYSIS-ERROR, never a pass.
The interpreter works on the AST of the function; the function is never called."""
from __future__ import annotations

import ast
import keyword
import re
import re._parser as sre_parse  # type: ignore[import]
import re._constants as sre_c  # type: ignore[import]
from dataclasses import dataclass, field, replace
from typing import Dict, FrozenSet, List, Optional, Set, Tuple, Union

from .model import dotted, norm

ALL = frozenset({"U", "L", "D", "_", "O", "XS", "XC", "W", "N"})
ASCII = frozenset({"U", "L", "D", "_", "O"})
NONASCII = frozenset({"XS", "XC", "W", "N"})
ID_START = frozenset({"U", "L", "_", "XS"})
ID_CONT = frozenset({"U", "L", "D", "_", "XS", "XC"})
ISDIGIT_MAY = frozenset({"D", "XC", "W"})  # str.isdigit() can be true for chars of these classes
ISDIGIT_MUST = frozenset({"D"})

SAMPLES = {"U": "A", "L": "a", "D": "1", "_": "_", "O": "$", "XS": "é", "XC": "٣", "W": "²", "N": "→"}


class Unsupported(Exception):
    pass


@dataclass(frozen=True)
class AStr:
    may_empty: bool
    first: FrozenSet[str]
    chars: FrozenSet[str]
    suffix: str = ""
    kw_guard: Optional[str] = None  # None: no keyword guard seen; "exact": guard tested this very value; "lower": guard tested .lower()
    note: str = ""

    @staticmethod
    def any() -> "AStr":
        return AStr(True, ALL, ALL)

    @staticmethod
    def const(s: str) -> "AStr":
        cl = frozenset(classify(c) for c in s)
        return AStr(not s, frozenset({classify(s[0])}) if s else frozenset(), cl, suffix=s)

    def join(self, o: "AStr") -> "AStr":
        suf = _common_suffix(self.suffix, o.suffix)
        kg = self.kw_guard if self.kw_guard == o.kw_guard else None
        if self.kw_guard and o.kw_guard and self.kw_guard != o.kw_guard:
            kg = "lower"
        return AStr(self.may_empty or o.may_empty, self.first | o.first, self.chars | o.chars, suf, kg)


@dataclass(frozen=True)
class AList:
    may_be_empty: bool
    elem: AStr

    def join(self, o: "AList") -> "AList":
        return AList(self.may_be_empty or o.may_be_empty, self.elem.join(o.elem))


AVal = Union[AStr, AList]


def _common_suffix(a: str, b: str) -> str:
    i = 0
    while i < min(len(a), len(b)) and a[-1 - i] == b[-1 - i]:
        i += 1
    return a[len(a) - i:] if i else ""


def classify(c: str) -> str:
    if ord(c) < 128:
        if c.isupper():
            return "U"
        if c.islower():
            return "L"
        if c.isdigit():
            return "D"
        if c == "_":
            return "_"
        return "O"
    if c.isidentifier():
        return "XS"
    if ("a" + c).isidentifier():
        return "XC"
    if re_w(c):
        return "W"
    return "N"


def re_w(c: str) -> bool:
    return c.isalnum() or c == "_"


# ---------------------------------------------------------------------- regex char sets over classes
def _set_match(items, negate: bool) -> Tuple[FrozenSet[str], FrozenSet[str]]:
    """(may, must): classes some / all of whose characters are matched by the set."""
    may: Set[str] = set()
    must: Set[str] = set()
    full = {"U": False, "L": False, "D": False}
    o_lits: Set[str] = set()
    for op, av in items:
        if op is sre_c.LITERAL:
            c = chr(av)
            k = classify(c)
            may.add(k)
            if k == "_":
                must.add("_")
            if k == "O":
                o_lits.add(c)
        elif op is sre_c.RANGE:
            lo, hi = av
            for k, a, b in (("U", 65, 90), ("L", 97, 122), ("D", 48, 57)):
                if lo <= a and hi >= b:
                    may.add(k)
                    must.add(k)
                elif not (hi < a or lo > b):
                    may.add(k)
            if lo <= 95 <= hi:
                may.add("_")
                must.add("_")
            if hi > 127:
                may |= NONASCII
            for c in range(max(lo, 0), min(hi, 127) + 1):
                if classify(chr(c)) == "O":
                    may.add("O")
        elif op is sre_c.CATEGORY:
            if av is sre_c.CATEGORY_WORD:
                for k in ("U", "L", "D", "_", "XS", "XC", "W"):
                    may.add(k)
                    must.add(k)
            elif av is sre_c.CATEGORY_NOT_WORD:
                for k in ("O", "N"):
                    may.add(k)
                    must.add(k)
            elif av is sre_c.CATEGORY_DIGIT:
                may |= {"D", "XC"}
                must.add("D")
            elif av is sre_c.CATEGORY_NOT_DIGIT:
                may |= ALL - {"D"}
                must |= ALL - {"D", "XC"}
            elif av is sre_c.CATEGORY_SPACE:
                may |= {"O", "N"}
            elif av is sre_c.CATEGORY_NOT_SPACE:
                may |= ALL
                must |= ALL - {"O", "N"}
            else:
                raise Unsupported(f"regex category {av}")
        else:
            raise Unsupported(f"regex set item {op}")
    if negate:
        nmay = frozenset(k for k in ALL if k not in must)
        nmust = frozenset(k for k in ALL if k not in may)
        return nmay, nmust
    return frozenset(may), frozenset(must)


def _single_charset(parsed) -> Optional[Tuple[FrozenSet[str], FrozenSet[str], bool]]:
    """If the whole pattern is one character set (optionally repeated with + or *), return (may, must, repeated)."""
    items = list(parsed)
    if len(items) != 1:
        return None
    op, av = items[0]
    rep = False
    if op in (sre_c.MAX_REPEAT, sre_c.MIN_REPEAT):
        lo, hi, sub = av
        if lo < 1 or len(list(sub)) != 1:
            return None
        op, av = list(sub)[0]
        rep = True
    if op is sre_c.IN:
        neg = bool(av) and av[0][0] is sre_c.NEGATE
        its = av[1:] if neg else av
        may, must = _set_match(its, neg)
        return may, must, rep
    if op is sre_c.LITERAL:
        k = classify(chr(av))
        return frozenset({k}), (frozenset({k}) if k == "_" else frozenset()), rep
    if op is sre_c.CATEGORY:
        may, must = _set_match([(op, av)], False)
        return may, must, rep
    return None


def _pattern_classes(parsed) -> Tuple[FrozenSet[str], FrozenSet[str], bool]:
    """For a general pattern: (classes that can appear inside a match, classes that can start a match,
    can the pattern match the empty string)."""
    inside: Set[str] = set()

    def walk(seq) -> Tuple[Set[str], bool]:
        """returns (possible first classes, nullable)"""
        firsts: Set[str] = set()
        nullable = True
        for op, av in seq:
            f: Set[str] = set()
            n = False
            if op is sre_c.LITERAL:
                f = {classify(chr(av))}
                inside.update(f)
            elif op is sre_c.IN:
                neg = bool(av) and av[0][0] is sre_c.NEGATE
                may, _ = _set_match(av[1:] if neg else av, neg)
                f = set(may)
                inside.update(f)
            elif op is sre_c.CATEGORY:
                may, _ = _set_match([(op, av)], False)
                f = set(may)
                inside.update(f)
            elif op is sre_c.ANY:
                f = set(ALL)
                inside.update(f)
            elif op in (sre_c.MAX_REPEAT, sre_c.MIN_REPEAT):
                lo, hi, sub = av
                f, n2 = walk(sub)
                n = lo == 0 or n2
            elif op is sre_c.SUBPATTERN:
                f, n = walk(av[3])
            elif op is sre_c.BRANCH:
                n = False
                for alt in av[1]:
                    f2, n2 = walk(alt)
                    f |= f2
                    n = n or n2
            elif op in (sre_c.ASSERT, sre_c.ASSERT_NOT, sre_c.AT):
                n = True  # zero-width
                if op is sre_c.ASSERT:
                    pass
            else:
                raise Unsupported(f"regex op {op}")
            if nullable:
                firsts |= f
            nullable = nullable and n
        return firsts, nullable

    firsts, nullable = walk(parsed)
    return frozenset(inside), frozenset(firsts), nullable


def _repl_literals(repl: str) -> Tuple[str, bool]:
    """(literal characters of a replacement template, starts_with_backref)"""
    lit = re.sub(r"\\(\d+|g<[^>]+>)", "", repl)
    return lit, bool(re.match(r"\\(\d|g<)", repl))


# ---------------------------------------------------------------------- transfer functions
def t_sub(pattern: str, repl: str, s: AStr) -> AStr:
    parsed = sre_parse.parse(pattern)
    lit, starts_ref = _repl_literals(repl)
    litcl = frozenset(classify(c) for c in lit)
    single = _single_charset(parsed)
    if single is not None and "\\" not in repl:
        may, must, _rep = single
        hit = bool(s.chars & may)
        chars = (s.chars - must) | (litcl if hit else frozenset())
        if repl:
            first = (s.first - must) | (frozenset({classify(repl[0])}) if (s.first & may) else frozenset())
            may_empty = s.may_empty
        else:
            first = (s.first - must) | ((s.chars - must) if (s.first & may) else frozenset())
            may_empty = s.may_empty or hit
        return AStr(may_empty, first, chars)
    inside, firsts, nullable = _pattern_classes(parsed)
    hit = bool(s.chars & inside)
    chars = s.chars | (litcl if hit else frozenset())
    first = s.first if starts_ref or not hit else (s.first | (frozenset({classify(lit[0])}) if lit else s.chars))
    may_empty = s.may_empty or (not repl and hit)
    return AStr(may_empty, first, chars)


def t_findall(pattern: str, s: AStr) -> AList:
    parsed = sre_parse.parse(pattern)
    inside, firsts, nullable = _pattern_classes(parsed)
    if nullable:
        raise Unsupported("findall with a nullable pattern")
    elem = AStr(False, firsts & s.chars, inside & s.chars)
    # the list is empty when the input has no matching character at all
    return AList(True, elem)


def t_split(pattern: str, s: AStr) -> AList:
    parsed = sre_parse.parse(pattern)
    single = _single_charset(parsed)
    if single is None:
        raise Unsupported(f"split on a non-charset pattern {pattern!r}")
    may, must, _ = single
    keep = s.chars - must
    elem = AStr(True, keep, keep)  # pieces can be empty strings
    return AList(False, elem)


def t_case(s: AStr, how: str) -> AStr:
    def m(cl: FrozenSet[str], first: bool) -> FrozenSet[str]:
        out = set()
        for k in cl:
            if how == "lower":
                out.add("L" if k == "U" else k)
            elif how == "upper":
                out.add("U" if k == "L" else k)
                if k == "XS":
                    out |= {"XS", "U"}  # ß -> SS, ŉ -> ʼN
            elif how == "capitalize":
                if first:
                    out.add("U" if k == "L" else k)
                else:
                    out.add("L" if k == "U" else k)
            else:
                out.add(k)
        return frozenset(out)

    if how == "capitalize":
        chars = m(s.first, True) | m(s.chars, False)
        return AStr(s.may_empty, m(s.first, True), chars)
    return AStr(s.may_empty, m(s.first, True), m(s.chars, False), suffix="")


def t_strip(s: AStr, chars: str) -> AStr:
    strip_cl = frozenset(classify(c) for c in chars)
    removable = frozenset(k for k in strip_cl if k == "_")  # only '_' is a class of its own
    if not all(classify(c) == "_" for c in chars):
        # stripping particular characters of a shared class ("/", "-", " "): conservative result - anything that could occur can now be first
        return AStr(s.may_empty or bool(s.chars & strip_cl), s.first | s.chars, s.chars)
    may_empty = s.may_empty or bool(s.chars & removable)
    first = (s.first - removable) | ((s.chars - removable) if (s.first & removable) else frozenset())
    return AStr(may_empty, first, s.chars)


def t_concat(a: AStr, b: AStr) -> AStr:
    first = a.first | (b.first if a.may_empty else frozenset())
    suffix = b.suffix if b.suffix else ""
    if b.suffix and not b.may_empty and len(b.chars) and b.suffix and b == AStr.const(b.suffix):
        suffix = (a.suffix + b.suffix) if a.suffix and a == AStr.const(a.suffix) else b.suffix
    return AStr(a.may_empty and b.may_empty, first, a.chars | b.chars, suffix, a.kw_guard if b == AStr.const("_") else None)


def t_join(sep: str, lst: AList, elem_nonempty: bool) -> AStr:
    e = lst.elem
    sepcl = frozenset(classify(c) for c in sep)
    may_empty = lst.may_be_empty or (e.may_empty and not elem_nonempty) or (not elem_nonempty and False)
    if not elem_nonempty and e.may_empty:
        may_empty = True
    # after filtering `if w`, the list itself may still become empty
    if elem_nonempty and e.may_empty:
        may_empty = True
    chars = e.chars | (sepcl if sep else frozenset())
    first = e.first | (sepcl if (sep and e.may_empty and not elem_nonempty) else frozenset())
    return AStr(may_empty, first, chars)


# ---------------------------------------------------------------------- interpreter
class Interp:
    def __init__(self, fn_node: ast.AST, param: str, consts: Optional[Dict[str, AVal]] = None, module: Optional[ast.AST] = None):
        self.fn = fn_node
        self.param = param
        self.returns: List[Tuple[AStr, ast.Return, Dict[str, AVal]]] = []
        self.consts = consts or {}
        self.kw_guards: List[Tuple[str, str]] = []  # (variable, 'exact'|'lower')
        self.post_guard_transform: List[str] = []
        self.aliases: Dict[str, str] = {}
        # module-level `NAME = re.compile(<literal>)` constants (pre-compiled patterns used as `NAME.sub(repl, s)`)
        root = fn_node
        while getattr(root, "_parent", None) is not None:
            root = root._parent  # type: ignore[attr-defined]
        if module is not None and not isinstance(root, ast.Module):
            root = module  # a detached copy (sa/flatten.py): the module it came from
        self.compiled: Dict[str, str] = {}
        # module- / class-level string constants (`_WORDS_PATTERN = r"..."`) used as regex patterns
        self.str_consts: Dict[str, str] = {}
        top = list(getattr(root, "body", [])) if isinstance(root, ast.Module) else []
        for st in list(top):
            if isinstance(st, ast.ClassDef):
                top += list(st.body)
        for st in top:
            if isinstance(st, (ast.Assign, ast.AnnAssign)) and st.value is not None and _const(st.value) is not None:
                tg = st.targets[0] if isinstance(st, ast.Assign) else st.target
                if isinstance(tg, ast.Name):
                    self.str_consts[tg.id] = _const(st.value) or ""
        for st in getattr(root, "body", []) if isinstance(root, ast.Module) else []:
            if isinstance(st, (ast.Assign, ast.AnnAssign)) and st.value is not None and isinstance(st.value, ast.Call) and dotted(st.value.func) == "re.compile" \
                    and len(st.value.args) == 1 and _const(st.value.args[0]) is not None:
                tg = st.targets[0] if isinstance(st, ast.Assign) else st.target
                if isinstance(tg, ast.Name):
                    self.compiled[tg.id] = _const(st.value.args[0]) or ""

    def _pat(self, e: ast.AST) -> Optional[str]:
        """a regex pattern argument: a string literal, or a module- / class-level string constant (`NAME`, `Cls.NAME`, `self.NAME`)"""
        c = _const(e)
        if c is not None:
            return c
        if isinstance(e, ast.Name):
            return self.str_consts.get(e.id)
        if isinstance(e, ast.Attribute) and isinstance(e.value, ast.Name):
            return self.str_consts.get(e.attr)
        return None

    def run(self) -> None:
        env: Dict[str, AVal] = {self.param: AStr.any()}
        self.block(self.fn.body, env)  # type: ignore[attr-defined]

    # -- statements ------------------------------------------------------
    def block(self, stmts: List[ast.stmt], env: Dict[str, AVal]) -> Optional[Dict[str, AVal]]:
        cur: Optional[Dict[str, AVal]] = env
        for st in stmts:
            if cur is None:
                return None
            cur = self.stmt(st, cur)
        return cur

    def stmt(self, st: ast.stmt, env: Dict[str, AVal]) -> Optional[Dict[str, AVal]]:
        if isinstance(st, ast.Expr):
            return env
        if isinstance(st, ast.Assign) and len(st.targets) == 1 and isinstance(st.targets[0], ast.Name) and isinstance(st.value, ast.Attribute) \
                and dotted(st.value) in ("keyword.iskeyword", "keyword.issoftkeyword"):
            self.aliases[st.targets[0].id] = dotted(st.value) or ""  # `is_kw = keyword.iskeyword`
            return env
        if isinstance(st, ast.Assign) and len(st.targets) == 1 and isinstance(st.targets[0], ast.Name):
            v = self.ev(st.value, env)
            env = dict(env)
            env[st.targets[0].id] = v
            return env
        if isinstance(st, ast.AugAssign) and isinstance(st.target, ast.Name) and isinstance(st.op, ast.Add):
            a = env.get(st.target.id)
            b = self.ev(st.value, env)
            if not isinstance(a, AStr) or not isinstance(b, AStr):
                raise Unsupported(f"+= on non-strings: {norm(st)}")
            env = dict(env)
            env[st.target.id] = t_concat(a, b)
            return env
        if isinstance(st, ast.Return):
            v = self.ev(st.value, env) if st.value is not None else AStr.const("")
            if not isinstance(v, AStr):
                raise Unsupported("returns a list")
            self.returns.append((v, st, env))
            return None
        if isinstance(st, ast.If):
            t_env, f_env = self.refine(st.test, env)
            a = self.block(st.body, t_env) if t_env is not None else None
            b = self.block(st.orelse, f_env) if f_env is not None else None
            if a is None:
                return b
            if b is None:
                return a
            out: Dict[str, AVal] = {}
            for k in set(a) | set(b):
                if k in a and k in b:
                    x, y = a[k], b[k]
                    if isinstance(x, AStr) and isinstance(y, AStr):
                        out[k] = x.join(y)
                    elif isinstance(x, AList) and isinstance(y, AList):
                        out[k] = x.join(y)
                    else:
                        raise Unsupported(f"type confusion at join for {k}")
                else:
                    out[k] = a.get(k, b.get(k))  # type: ignore[assignment]
            return out
        if isinstance(st, ast.Raise):
            return None
        if isinstance(st, ast.Break):
            if not getattr(self, "_breaks", None):
                raise Unsupported("break outside a one-shot loop")
            self._breaks[-1].append(env)
            return None
        if isinstance(st, ast.While) and isinstance(st.test, ast.Constant) and st.test.value is True and not st.orelse \
                and not any(isinstance(x, ast.Continue) for x in ast.walk(st)):
            # `while True: ...; break` - the shape sa/flatten.py gives a written-out helper with several exits: one pass, exits at `break`
            if not hasattr(self, "_breaks"):
                self._breaks = []
            self._breaks.append([])
            fall = self.block(st.body, env)
            outs = self._breaks.pop()
            if fall is not None:
                raise Unsupported("a `while True` loop whose body can complete without `break`")
            if not outs:
                return None
            cur_ = outs[0]
            for o in outs[1:]:
                cur_ = self._join_env(cur_, o)
            return cur_
        if isinstance(st, ast.For) and isinstance(st.target, ast.Name) and not st.orelse:
            it = self.ev(st.iter, env)
            if not isinstance(it, AList):
                raise Unsupported(f"for over a non-list: {norm(st.iter)[:40]}")
            # zero or more iterations: least fixpoint of  env := env JOIN body(env[target := element])
            cur = dict(env)
            for _ in range(6):
                inner = dict(cur)
                inner[st.target.id] = it.elem
                after = self.block(st.body, inner)
                if after is None:
                    break
                after = {k: v for k, v in after.items() if k != st.target.id or k in cur}
                nxt = self._join_env(cur, after)
                if nxt == cur:
                    break
                cur = nxt
            return cur
        raise Unsupported(f"statement {type(st).__name__}: {norm(st)[:60]}")

    @staticmethod
    def _join_env(a: Dict[str, AVal], b: Dict[str, AVal]) -> Dict[str, AVal]:
        out: Dict[str, AVal] = {}
        for k in set(a) | set(b):
            if k in a and k in b:
                x, y = a[k], b[k]
                if isinstance(x, AStr) and isinstance(y, AStr):
                    out[k] = x.join(y)
                elif isinstance(x, AList) and isinstance(y, AList):
                    out[k] = x.join(y)
                else:
                    raise Unsupported(f"type confusion at join for {k}")
            else:
                out[k] = a.get(k, b.get(k))  # type: ignore[assignment]
        return out

    # -- tests -------------------------------------------------------------
    def refine(self, test: ast.AST, env: Dict[str, AVal]) -> Tuple[Optional[Dict[str, AVal]], Optional[Dict[str, AVal]]]:
        # `not X`
        if isinstance(test, ast.UnaryOp) and isinstance(test.op, ast.Not):
            t, f = self.refine(test.operand, env)
            return f, t
        # emptiness tests in any spelling: `X == ""`, `len(X) == 0`, `len(X) > 0`, `X != ""` ... (normal form: truthiness of X)
        from sa.match import truthiness as _truthiness

        if not isinstance(test, ast.Name):
            tv = _truthiness(test)
            if tv is not None and isinstance(tv[0], ast.Name) and tv[0].id in env and not isinstance(test, ast.UnaryOp):
                t, f = self.refine(tv[0], env)
                return (t, f) if tv[1] else (f, t)
        # `X` (truthiness of a string / list variable)
        if isinstance(test, ast.Name) and test.id in env:
            v = env[test.id]
            t_env, f_env = dict(env), dict(env)
            if isinstance(v, AStr):
                t_env[test.id] = replace(v, may_empty=False)
                f_env[test.id] = AStr.const("")
                return (t_env if v.first or not v.may_empty else None), (f_env if v.may_empty else None)
            if isinstance(v, AList):
                t_env[test.id] = AList(False, v.elem)
                f_env[test.id] = AList(True, v.elem)
                return t_env, (f_env if v.may_be_empty else None)
        # `X and X[0].isdigit()` / `X[0].isdigit()`
        var = self._isdigit_var(test)
        if var is not None and isinstance(env.get(var), AStr):
            v = env[var]
            assert isinstance(v, AStr)
            t_env, f_env = dict(env), dict(env)
            t_first = v.first & ISDIGIT_MAY
            t_env[var] = AStr(False, t_first, v.chars, v.suffix, v.kw_guard)
            f_env[var] = AStr(v.may_empty, v.first - ISDIGIT_MUST, v.chars, v.suffix, v.kw_guard)
            return (t_env if t_first else None), f_env
        # keyword guard
        kg = self._kw_guard(test)
        if kg is not None:
            var, how = kg
            v = env.get(var)
            if isinstance(v, AStr):
                self.kw_guards.append((var, how))
                t_env, f_env = dict(env), dict(env)
                t_env[var] = replace(v, kw_guard=how)
                f_env[var] = replace(v, kw_guard=how)
                return t_env, f_env
        # unknown test: both branches possible, no refinement
        return dict(env), dict(env)

    @staticmethod
    def _isdigit_var(test: ast.AST) -> Optional[str]:
        parts = test.values if isinstance(test, ast.BoolOp) and isinstance(test.op, ast.And) else [test]
        for p in parts:
            if isinstance(p, ast.Call) and isinstance(p.func, ast.Attribute) and p.func.attr == "isdigit":
                r = p.func.value
                if isinstance(r, ast.Subscript) and isinstance(r.value, ast.Name) and isinstance(r.slice, ast.Constant) and r.slice.value == 0:
                    return r.value.id
                if isinstance(r, ast.Subscript) and isinstance(r.value, ast.Name) and isinstance(r.slice, ast.Slice) and r.slice.lower is None and r.slice.step is None \
                        and isinstance(r.slice.upper, ast.Constant) and r.slice.upper.value == 1:
                    return r.value.id  # X[:1].isdigit(): false for the empty string, otherwise the first character
        return None

    def _kw_guard(self, test: ast.AST) -> Optional[Tuple[str, str]]:
        found: List[Tuple[str, str]] = []
        for n in ast.walk(test):
            if isinstance(n, ast.Call) and (dotted(n.func) == "keyword.iskeyword" or (isinstance(n.func, ast.Name) and self.aliases.get(n.func.id) == "keyword.iskeyword")) and n.args:
                a = n.args[0]
                if isinstance(a, ast.Name):
                    found.append((a.id, "exact"))
                elif isinstance(a, ast.Call) and isinstance(a.func, ast.Attribute) and a.func.attr == "lower" and isinstance(a.func.value, ast.Name):
                    found.append((a.func.value.id, "lower"))
        for f in found:
            if f[1] == "exact":
                return f
        return found[0] if found else None

    @staticmethod
    def _kw_guard_old(test: ast.AST) -> Optional[Tuple[str, str]]:
        for n in ast.walk(test):
            if isinstance(n, ast.Call) and dotted(n.func) == "keyword.iskeyword" and n.args:
                a = n.args[0]
                if isinstance(a, ast.Name):
                    return a.id, "exact"
                if isinstance(a, ast.Call) and isinstance(a.func, ast.Attribute) and a.func.attr == "lower" and isinstance(a.func.value, ast.Name):
                    return a.func.value.id, "lower"
        return None

    # -- expressions -------------------------------------------------------
    def ev(self, e: ast.AST, env: Dict[str, AVal]) -> AVal:
        if isinstance(e, ast.Constant) and isinstance(e.value, str):
            return AStr.const(e.value)
        if isinstance(e, ast.Name):
            if e.id in env:
                return env[e.id]
            if e.id in self.consts:
                return self.consts[e.id]
            raise Unsupported(f"unknown name {e.id}")
        if isinstance(e, ast.BinOp) and isinstance(e.op, ast.Add):
            a, b = self.ev(e.left, env), self.ev(e.right, env)
            if isinstance(a, AStr) and isinstance(b, AStr):
                return t_concat(a, b)
            raise Unsupported(f"+ on {type(a).__name__}/{type(b).__name__}")
        if isinstance(e, ast.JoinedStr):
            out: Optional[AStr] = None
            for v in e.values:
                part = AStr.const(str(v.value)) if isinstance(v, ast.Constant) else self.ev(v.value, env)  # type: ignore[attr-defined]
                if not isinstance(part, AStr):
                    raise Unsupported("list inside f-string")
                out = part if out is None else t_concat(out, part)  # f"{x}_" is exactly x + "_"
            return out if out is not None else AStr.const("")
        if isinstance(e, ast.ListComp) or isinstance(e, ast.GeneratorExp):
            lst, nonempty = self._comp(e, env)
            return lst
        if isinstance(e, ast.Call):
            name = dotted(e.func)
            if name in ("re.sub",) and len(e.args) >= 3:
                pat, repl = self._pat(e.args[0]), _const(e.args[1])
                s = self.ev(e.args[2], env)
                if pat is None or repl is None or not isinstance(s, AStr):
                    raise Unsupported(f"re.sub with non-constant pattern/replacement: {norm(e)[:60]}")
                return t_sub(pat, repl, s)
            if name == "re.findall" and len(e.args) == 2:
                pat = self._pat(e.args[0])
                s = self.ev(e.args[1], env)
                if pat is None or not isinstance(s, AStr):
                    raise Unsupported("re.findall with non-constant pattern")
                return t_findall(pat, s)
            if name == "re.split" and len(e.args) == 2:
                pat = self._pat(e.args[0])
                s = self.ev(e.args[1], env)
                if pat is None or not isinstance(s, AStr):
                    raise Unsupported("re.split with non-constant pattern")
                return t_split(pat, s)
            if name == "str" and len(e.args) == 1:
                return self.ev(e.args[0], env)
            if isinstance(e.func, ast.Attribute) and isinstance(e.func.value, ast.Name) and e.func.value.id in self.compiled and e.func.value.id not in env:
                cpat = self.compiled[e.func.value.id]
                if e.func.attr == "sub" and len(e.args) == 2 and _const(e.args[0]) is not None:
                    sv = self.ev(e.args[1], env)
                    if isinstance(sv, AStr):
                        return t_sub(cpat, _const(e.args[0]) or "", sv)
                if e.func.attr in ("findall", "split") and len(e.args) == 1:
                    sv = self.ev(e.args[0], env)
                    if isinstance(sv, AStr):
                        return t_findall(cpat, sv) if e.func.attr == "findall" else t_split(cpat, sv)
                raise Unsupported(f"compiled pattern use {norm(e)[:60]}")
            if isinstance(e.func, ast.Attribute):
                m = e.func.attr
                if m == "join" and len(e.args) == 1:
                    sep = _const(e.func.value)
                    if sep is None:
                        raise Unsupported("join with non-constant separator")
                    arg = e.args[0]
                    if isinstance(arg, (ast.GeneratorExp, ast.ListComp)):
                        lst, nonempty = self._comp(arg, env)
                    else:
                        v = self.ev(arg, env)
                        if not isinstance(v, AList):
                            raise Unsupported("join over a non-list")
                        lst, nonempty = v, False
                    return t_join(sep, lst, nonempty)
                recv = self.ev(e.func.value, env)
                if isinstance(recv, AStr):
                    if m in ("lower", "upper", "capitalize") and not e.args:
                        return t_case(recv, m)
                    if m == "strip" and len(e.args) == 1 and _const(e.args[0]) is not None:
                        return t_strip(recv, _const(e.args[0]) or "")
                    if m == "replace" and len(e.args) == 2 and _const(e.args[0]) is not None and _const(e.args[1]) is not None:
                        return t_sub(re.escape(_const(e.args[0]) or ""), (_const(e.args[1]) or "").replace("\\", "\\\\"), recv)
                # static helper of the same class: NameSanitizer.sanitize_module_name(x) -> summarised by caller
                if name in self.consts and callable(self.consts[name]):  # type: ignore[arg-type]
                    return self.consts[name](self.ev(e.args[0], env))  # type: ignore[operator]
            if name in self.consts and callable(self.consts[name]) and len(e.args) == 1:  # a summarised module-level helper
                return self.consts[name](self.ev(e.args[0], env))  # type: ignore[operator]
            raise Unsupported(f"call {norm(e)[:70]}")
        raise Unsupported(f"expression {type(e).__name__}: {norm(e)[:60]}")

    def _comp(self, e: Union[ast.GeneratorExp, ast.ListComp], env: Dict[str, AVal]) -> Tuple[AList, bool]:
        if len(e.generators) != 1:
            raise Unsupported("nested comprehension")
        g = e.generators[0]
        src = self.ev(g.iter, env)
        if not isinstance(src, AList) or not isinstance(g.target, ast.Name):
            raise Unsupported("comprehension over a non-list")
        elem = src.elem
        nonempty = False
        for cond in g.ifs:
            if isinstance(cond, ast.Name) and cond.id == g.target.id:
                elem = replace(elem, may_empty=False)
                nonempty = True
            else:
                raise Unsupported(f"comprehension filter {norm(cond)}")
        env2 = dict(env)
        env2[g.target.id] = elem
        out = self.ev(e.elt, env2)
        if not isinstance(out, AStr):
            raise Unsupported("comprehension element is not a string")
        # filtering can empty the list
        may_empty_list = src.may_be_empty or (nonempty and src.elem.may_empty)
        return AList(may_empty_list, out), nonempty


def _const(e: ast.AST) -> Optional[str]:
    return e.value if isinstance(e, ast.Constant) and isinstance(e.value, str) else None


KEYWORDS = sorted(set(keyword.kwlist))


def uncaught_keywords(how: Optional[str], shape: AStr) -> List[str]:
    """Keywords the returned value can still be, given the guard that was applied and the value's shape."""
    out = []
    for k in KEYWORDS:
        # shape compatibility
        if shape.suffix and not k.endswith(shape.suffix):
            continue
        if not k:
            continue
        if classify(k[0]) not in shape.first:
            continue
        if not all(classify(c) in shape.chars for c in k):
            continue
        if how == "exact":
            continue
        if how == "lower" and keyword.iskeyword(k.lower()):
            continue
        out.append(k)
    return out


def interpret(fn, param: str):
    """Interp over Function `fn` as written; when it uses an operation outside the modelled fragment (typically a call of a helper of its
    own class, `NameSanitizer._tail(x)`), once more over the function with its local helpers written out (sa/flatten.py)."""
    it = Interp(fn.node, param)
    try:
        it.run()
        return it
    except Unsupported as first:
        from sa.flatten import flatten

        f2 = flatten(fn)
        if f2 is fn:
            raise first
        it = Interp(f2.node, param, module=fn.module.tree)
        it.run()
        return it
