"""Rule instances, findings, known-findings matching, evidence files, exit codes."""
from __future__ import annotations

import json
import os
import sys
import time
from dataclasses import dataclass, field
from typing import Any, Dict, List, Optional

VERIF = os.path.dirname(os.path.dirname(os.path.abspath(__file__)))
KNOWN_FILE = os.path.join(VERIF, "known_findings.json")


@dataclass
class Instance:
    """One obligation of one rule, with its verdict."""

    rule: str  # e.g. "R8.1"
    subject: str  # what was looked at, e.g. "core/parsing/schema_parser.py:_parse_schema exit L925"
    ok: bool
    key: str = ""  # position-independent identity of the construct (for violations)
    message: str = ""  # for violations: what is wrong; for ok: how it was discharged
    loc: str = ""  # file:line (diagnostic only, never part of the key)
    detail: Dict[str, Any] = field(default_factory=dict)

    def full_key(self) -> str:
        return f"{self.rule}|{self.key}"


class Report:
    def __init__(self, prop: str, tier: str):
        self.prop = prop
        self.tier = tier
        self.instances: List[Instance] = []
        self.analysed: Dict[str, Any] = {}
        self.notes: List[str] = []
        self.assumptions: List[str] = []
        self.t0 = time.time()
        self.errors: List[str] = []

    # -- recording --------------------------------------------------------
    def ok(self, rule: str, subject: str, message: str = "", loc: str = "", **detail: Any) -> None:
        self.instances.append(Instance(rule, subject, True, "", message, loc, detail))

    def violation(self, rule: str, subject: str, key: str, message: str, loc: str = "", **detail: Any) -> None:
        self.instances.append(Instance(rule, subject, False, key, message, loc, detail))

    def error(self, msg: str) -> None:
        self.errors.append(msg)

    def require(self, cond: bool, msg: str) -> None:
        """Fail closed: a subject count below the confirmed floor, a vanished anchor..."""
        if not cond:
            self.errors.append(msg)

    def count(self, name: str, value: Any) -> None:
        self.analysed[name] = value

    # -- finishing --------------------------------------------------------
    def finish(self, seed: int = 0) -> int:
        known = load_known()
        mine = [k for k in known.get("findings", []) if k.get("property") == self.prop]
        known_keys = {k["key"]: k for k in mine}
        viol = [i for i in self.instances if not i.ok]
        # A rule that lost one of its anchors (its recogniser reported an analysis error) cannot be trusted on its other instances in this
        # run: those are reported as part of the analysis error (exit 2), not as violations of the property.
        LOST = ("anchor vanished", "(anchor)", "floor", "does not model", "does not cover", "cannot evaluate", "cannot identify", "cannot find", "was not found", "not found in")
        broken_rules = {e.split(":", 1)[0].strip() for e in self.errors if e[:1] == "R" and ":" in e[:8] and any(k in e for k in LOST)}
        demoted = [i for i in viol if i.rule in broken_rules]
        if demoted:
            viol = [i for i in viol if i.rule not in broken_rules]
            for i in demoted:
                self.errors.append(f"{i.rule}: (not reported as a violation because the rule lost an anchor in this run) {i.subject}: {i.message[:160]}")
        listed = [i for i in viol if i.full_key() in known_keys]
        unlisted = [i for i in viol if i.full_key() not in known_keys]
        seen_keys = {i.full_key() for i in viol}
        stale = [k for k in known_keys if k not in seen_keys]

        lines: List[str] = []
        for i in listed:
            k = known_keys[i.full_key()]
            lines.append(f"KNOWN-FINDING: property={self.prop} {i.rule} {i.loc} {k.get('what', i.message)}")
        scratch = bool(os.environ.get("VERIF_NO_EVIDENCE"))  # analysing a scratch copy: leave evidence/ and out/ alone
        out_dir = os.path.join(VERIF, "out", "replay") if not scratch else os.path.join("/tmp", f"verif_scratch_replay_{os.getpid()}")
        os.makedirs(out_dir, exist_ok=True)
        for old in os.listdir(out_dir):
            if old.startswith(f"{self.prop}-") and old.endswith(".json"):
                os.remove(os.path.join(out_dir, old))
        for n, i in enumerate(unlisted):
            path = os.path.join(out_dir, f"{self.prop}-{n}.json")
            with open(path, "w") as f:
                json.dump(
                    {
                        "property": self.prop,
                        "rule": i.rule,
                        "key": i.full_key(),
                        "subject": i.subject,
                        "loc": i.loc,
                        "message": i.message,
                        "detail": i.detail,
                    },
                    f,
                    indent=1,
                    default=str,
                )
            lines.append(f"  {i.rule} {i.loc} [{i.subject}] {i.message}")
            lines.append(f"VIOLATION property={self.prop} replay={path}")
        for k in stale:
            lines.append(f"NOTE: listed known finding no longer reported (fixed or rule changed): {k}")
        for e in self.errors:
            lines.append(f"ANALYSIS-ERROR property={self.prop} {e}")

        n_ok = sum(1 for i in self.instances if i.ok)
        rules = sorted({i.rule for i in self.instances})
        wall = time.time() - self.t0
        samples = []
        per_rule: Dict[str, Dict[str, int]] = {}
        for i in self.instances:
            d = per_rule.setdefault(i.rule, {"instances": 0, "hold": 0, "known_finding": 0, "violation": 0})
            d["instances"] += 1
            if i.ok:
                d["hold"] += 1
            elif i.full_key() in known_keys:
                d["known_finding"] += 1
            else:
                d["violation"] += 1
        seen_rule = set()
        for i in self.instances:
            if i.rule not in seen_rule or not i.ok:
                seen_rule.add(i.rule)
                samples.append(
                    {
                        "rule": i.rule,
                        "subject": i.subject,
                        "loc": i.loc,
                        "verdict": "holds" if i.ok else ("known-finding" if i.full_key() in known_keys else "VIOLATION"),
                        "how": i.message,
                    }
                )
        distinct = len({(i.rule, i.subject) for i in self.instances})
        evidence = {
            "property_id": self.prop,
            "tier": self.tier,
            "seed": seed,
            "level": "other",
            "coverage": {
                "explanation": (
                    "Static analysis of /repo's working tree (ast + own CFG/dataflow/call-graph engine; nothing "
                    "from pyopenapi_gen is imported or executed). Each rule instance is one obligation on a named "
                    "construct (function, call site, CFG path set, template hole); 'discharged' counts obligations "
                    "that hold; known findings are obligations that fail on the pinned tree with a demonstrated "
                    "witness (known_findings.json). The rules decide necessary structural clauses of the property, "
                    "not the behaviour for every input (see DESIGN.md)."
                ),
                "obligations": len(self.instances),
                "discharged": n_ok,
                "known_findings": len(listed),
                "evaluations": max(1, len(self.instances)),
                "distinct_nontrivial": max(0, distinct),
                "rule": "one evaluation = one rule instance (rule x construct); distinct = distinct (rule, subject) pairs; "
                "every instance inspects code of /repo, none is vacuous (subject floors are enforced, exit 2 otherwise)",
                "rules": rules,
                "per_rule": per_rule,
                "analysed": self.analysed,
                "samples": samples[:60],
                "notes": self.notes,
                "checker_cmd": f"./check {self.prop} --tier {self.tier}",
                "trusted_base": [
                    "CPython 3.12 ast module",
                    "/verif/sa CFG + dataflow engine",
                    "calls outside try bodies are assumed not to raise (see DESIGN.md)",
                ],
                "exhaustive": False,
            },
            "assumptions": self.assumptions
            or ["rules decide structural necessary conditions only; see DESIGN.md section 3 for the undecided clauses"],
            "wall_s": round(wall, 3),
            "violations": len(unlisted),
        }
        if not scratch:
            ev_dir = os.path.join(VERIF, "evidence")
            os.makedirs(ev_dir, exist_ok=True)
            with open(os.path.join(ev_dir, f"{self.prop}.json"), "w") as f:
                json.dump(evidence, f, indent=1, default=str)
                f.write("\n")
        else:
            import shutil

            shutil.rmtree(out_dir, ignore_errors=True)

        print(
            f"[{self.prop}] tier={self.tier} rules={len(rules)} obligations={len(self.instances)} hold={n_ok} "
            f"known={len(listed)} violations={len(unlisted)} errors={len(self.errors)} wall={wall:.2f}s"
        )
        try:
            for ln in lines:
                print(ln)
            sys.stdout.flush()
        except BrokenPipeError:  # the reader closed the pipe (e.g. `| head`); the verdict is still the exit code
            try:
                os.dup2(os.open(os.devnull, os.O_WRONLY), sys.stdout.fileno())
            except OSError:
                pass
        if unlisted:
            return 1
        if self.errors:
            return 2
        return 0


def load_known() -> Dict[str, Any]:
    if not os.path.exists(KNOWN_FILE):
        return {"findings": [], "fixed": []}
    with open(KNOWN_FILE) as f:
        return json.load(f)


class Buffer:
    """Collects rule instances without emitting them (same interface as Report for rules)."""

    def __init__(self) -> None:
        self.items: List[tuple] = []
        self.n_bad = 0

    def ok(self, *a, **k) -> None:
        self.items.append(("ok", a, k))

    def violation(self, *a, **k) -> None:
        self.items.append(("violation", a, k))
        self.n_bad += 1

    def require(self, cond, msg) -> None:
        if not cond:
            self.items.append(("error", (msg,), {}))
            self.n_bad += 1

    def error(self, msg) -> None:
        self.items.append(("error", (msg,), {}))
        self.n_bad += 1

    def count(self, *a, **k) -> None:
        self.items.append(("count", a, k))

    def replay(self, rep) -> None:
        for kind, a, k in self.items:
            getattr(rep, kind)(*a, **k)


def with_flatten_fallback(rep, fn, body, select=None) -> None:
    """Run `body(fn, reporter)` on the function as written.  If that reports a violation / analysis error and the function calls local
    helpers, run it again on the flattened function (sa/flatten.py: helper calls inlined - the semantically identical program with
    "extract method" undone) and take that result when it is entirely clean.  A real defect is reported by both views."""
    from sa.flatten import flatten
    from sa.model import AnalysisError

    b1 = Buffer()
    err1 = None
    try:
        body(fn, b1)
    except AnalysisError as e:
        err1 = e
    if b1.n_bad == 0 and err1 is None:
        b1.replay(rep)
        return
    def _viol_keys(b) -> set:
        return {a[2] for kind, a, k in b.items if kind == "violation" and len(a) > 2}

    for sel in ([select, None] if select is not None else [None]):
        f2 = flatten(fn, select=sel)
        if f2 is fn:
            continue
        b2 = Buffer()
        try:
            body(f2, b2)
            # accepted when entirely clean - or when flattening only *removed* reports: every violation it still has is one the function as
            # written has too (same key; e.g. a listed known finding), and it has no analysis error
            if b2.n_bad == 0 or (not any(kind == "error" for kind, _, _ in b2.items) and _viol_keys(b2) <= _viol_keys(b1)):
                b2.replay(rep)
                return
        except AnalysisError:
            pass
    b1.replay(rep)
    if err1 is not None:
        raise err1


def guarded(rep, rule_fn, *args, **kwargs) -> None:
    """Run one rule; an AnalysisError of that rule (a lost anchor) is recorded as an analysis error of the run - exit 2 - without keeping the
    other rules of the property from being evaluated."""
    from sa.model import AnalysisError

    try:
        rule_fn(*args, **kwargs)
    except AnalysisError as e:
        rep.error(str(e))
    except RecursionError:
        raise
    except Exception as e:  # a defect of the rule itself: an analysis error of this run (exit 2), the other rules are still evaluated
        rep.error(f"internal error in {getattr(rule_fn, '__name__', 'rule')}: {type(e).__name__}: {e}")
