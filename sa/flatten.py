"""Bounded inlining of local helper calls ("extract method" is undone before the rules look at a function).

A maintainer can move a block of an analysed function into a private helper of the same class / module without changing behaviour.
Rules that reason about one function's control flow (dominance, must-pass-through, guards, typestate) would lose sight of the moved
block.  `flatten(fn)` returns a copy of the function in which calls to helpers *defined in the same module* are replaced by the
helper's body:

  helper(args)                      (statement)         -> body, `return` -> leave the block
  x = helper(args)                  (assignment)        -> body, `return v` -> `x = v` and leave the block
  return helper(args)                                   -> body (its returns stay returns)
  ... helper(args) ...              (inside an expression, helper body is a single `return <expr>`) -> <expr>

"Leave the block" is encoded as a one-shot `while True: ... break` so that the CFG builder needs nothing new.  Parameters are renamed
to the argument when the argument is a plain name, otherwise bound by an assignment in front of the body; other locals of the helper
get a suffix so that they cannot collide with the caller's.  Not inlined (the call is left as it is): recursion, helpers with
*args/**kwargs, generators, helpers whose `return` sits inside a loop of the helper, helpers defined elsewhere.
Nothing is executed; this is a source-to-source transformation on the AST used only for analysis.
"""
from __future__ import annotations

import ast
from typing import Dict, List, Optional, Tuple

from sa.match import clone

MAX_DEPTH = 2
MAX_STMTS = 80


def _helper_of(call: ast.Call, fn, mod) -> Optional[Tuple[object, bool]]:
    """(Function, bound?) for calls `self.h(..)`, `cls.h(..)`, `Class.h(..)` (same class) or `h(..)` (module level / nested in fn)."""
    f = call.func
    if isinstance(f, ast.Attribute) and isinstance(f.value, ast.Name):
        owner = f.value.id
        cls = fn.cls
        if cls is not None and owner in ("self", "cls", cls.name) and f.attr in cls.methods:
            return cls.methods[f.attr], True
        if owner in mod.classes and f.attr in mod.classes[owner].methods:
            m = mod.classes[owner].methods[f.attr]
            if any(isinstance(d, ast.Name) and d.id == "staticmethod" for d in m.node.decorator_list):
                return m, True
        return None
    if isinstance(f, ast.Name):
        if f.id in mod.functions and "." not in mod.functions[f.id].qualname:
            return mod.functions[f.id], False
        q = f"{fn.qualname}.<locals>.{f.id}"
        if q in mod.functions:
            return mod.functions[q], False
        # a plain function imported from another module of the package (`from ..visit.x import render_y`)
        imp = getattr(mod, "imports", {}).get(f.id)
        if imp and imp[1]:
            import sa.model as _m

            repo = _m.CURRENT_REPO
            if repo is not None:
                tm = repo.modules.get(imp[0]) or repo.modules.get("pyopenapi_gen." + imp[0])
                if tm is not None and imp[1] in tm.functions and "." not in tm.functions[imp[1]].qualname:
                    return tm.functions[imp[1]], False
    return None


_UNROLLED: Dict[int, object] = {}


def _const_table(name: str, mod) -> Optional[List[ast.AST]]:
    """elements of a module-level constant tuple / list display bound once to `name` (at most 8 rows)"""
    hits = [st for st in mod.tree.body if isinstance(st, (ast.Assign, ast.AnnAssign)) and getattr(st, "value", None) is not None
            and isinstance((st.targets[0] if isinstance(st, ast.Assign) else st.target), ast.Name)
            and (st.targets[0] if isinstance(st, ast.Assign) else st.target).id == name]
    if len(hits) != 1 or not isinstance(hits[0].value, (ast.Tuple, ast.List)) or not 1 <= len(hits[0].value.elts) <= 8:
        return None
    return list(hits[0].value.elts)


def unroll_table_loops(h):
    """`for a, b in TABLE: <body>` over a module-level constant table is written out row by row (a table-driven dispatch becomes the
    if-chain it stands for).  Only loops whose body has no break / continue of their own.  Returns a Function (h itself when unchanged)."""
    from sa.model import Function, set_parents

    if id(h) in _UNROLLED:
        return _UNROLLED[id(h)]
    mod = h.module
    changed = False

    class U(ast.NodeTransformer):
        def visit_For(self, n: ast.For):  # noqa: N802
            nonlocal changed
            self.generic_visit(n)
            if not isinstance(n.iter, ast.Name) or n.orelse:
                return n
            rows = _const_table(n.iter.id, mod)
            if rows is None:
                return n
            if any(isinstance(x, (ast.Break, ast.Continue)) for st in n.body for x in ast.walk(st)):
                return n
            tnames = [e.id for e in n.target.elts] if isinstance(n.target, ast.Tuple) and all(isinstance(e, ast.Name) for e in n.target.elts) else (
                [n.target.id] if isinstance(n.target, ast.Name) else None)
            if tnames is None:
                return n
            out: List[ast.stmt] = []
            for row in rows:
                vals = list(row.elts) if isinstance(n.target, ast.Tuple) and isinstance(row, (ast.Tuple, ast.List)) and len(row.elts) == len(tnames) else (
                    [row] if isinstance(n.target, ast.Name) else None)
                if vals is None:
                    return n
                sub = dict(zip(tnames, vals))

                class S(ast.NodeTransformer):
                    def visit_Name(self, x: ast.Name):  # noqa: N802
                        return clone(sub[x.id]) if x.id in sub and isinstance(x.ctx, ast.Load) else x

                out += [S().visit(clone(st)) for st in n.body]
            changed = True
            return out

    node = U().visit(clone(h.node))
    if not changed:
        _UNROLLED[id(h)] = h
        return h
    ast.fix_missing_locations(node)
    set_parents(node)
    out_fn = Function(module=h.module, qualname=h.qualname, node=node, cls=h.cls)
    _UNROLLED[id(h)] = out_fn
    return out_fn


def _inlinable(h, stack: Tuple[str, ...]) -> bool:
    n = h.node
    if h.fq in stack:
        return False
    a = n.args
    if a.vararg or a.kwarg or a.posonlyargs:
        return False
    decs = [d.id if isinstance(d, ast.Name) else getattr(d, "attr", "") for d in n.decorator_list]
    if any(d not in ("staticmethod", "classmethod") for d in decs):
        return False
    body_nodes = [x for s in n.body for x in ast.walk(s)]
    if len([x for x in body_nodes if isinstance(x, ast.stmt)]) > MAX_STMTS:
        return False
    if any(isinstance(x, (ast.Yield, ast.YieldFrom, ast.Global, ast.Nonlocal)) for x in body_nodes):
        return False
    # a return inside one of the helper's own loops cannot be expressed by a single `break`
    def ret_in_loop(stmts, in_loop):
        for s in stmts:
            if isinstance(s, ast.Return) and in_loop:
                return True
            if isinstance(s, (ast.FunctionDef, ast.AsyncFunctionDef, ast.ClassDef)):
                continue
            for fld in ("body", "orelse", "finalbody"):
                sub = getattr(s, fld, None)
                if isinstance(sub, list) and sub and isinstance(sub[0], ast.stmt):
                    if ret_in_loop(sub, in_loop or isinstance(s, (ast.For, ast.AsyncFor, ast.While))):
                        return True
            for hd in getattr(s, "handlers", []):
                if ret_in_loop(hd.body, in_loop):
                    return True
            for cs in getattr(s, "cases", []):
                if ret_in_loop(cs.body, in_loop):
                    return True
        return False

    return not ret_in_loop(n.body, False)


def _bind(h, call: ast.Call, bound: bool, tag: str) -> Optional[Tuple[Dict[str, ast.AST], List[ast.stmt]]]:
    """parameter -> replacement expression (a Name), plus the assignments needed in front of the body"""
    a = h.node.args
    params = [x.arg for x in a.args]
    is_static = any(isinstance(d, ast.Name) and d.id == "staticmethod" for d in h.node.decorator_list)
    if bound and not is_static and params and params[0] in ("self", "cls"):
        params = params[1:]
        subst: Dict[str, ast.AST] = {a.args[0].arg: ast.Name(id=a.args[0].arg, ctx=ast.Load())}
    else:
        subst = {}
    if len(call.args) > len(params) or any(isinstance(x, ast.Starred) for x in call.args) or any(k.arg is None for k in call.keywords):
        return None
    given: Dict[str, ast.AST] = dict(zip(params, call.args))
    defaults = dict(zip(params[len(params) - len(a.defaults):], a.defaults)) if a.defaults else {}
    for ko, d in zip(a.kwonlyargs, a.kw_defaults):
        params.append(ko.arg)
        if d is not None:
            defaults[ko.arg] = d
    for k in call.keywords:
        if k.arg not in params or k.arg in given:
            return None
        given[k.arg] = k.value
    assigned = {n.id for s in h.node.body for n in ast.walk(s) if isinstance(n, ast.Name) and isinstance(n.ctx, ast.Store)}
    pre: List[ast.stmt] = []
    for p in params:
        v = given.get(p, defaults.get(p))
        if v is None:
            return None
        if isinstance(v, ast.Name) and p not in assigned:
            subst[p] = ast.Name(id=v.id, ctx=ast.Load())
        else:
            nm = f"{p}__{tag}"
            st = ast.Assign(targets=[ast.Name(id=nm, ctx=ast.Store())], value=clone(v), lineno=call.lineno, col_offset=call.col_offset)
            pre.append(st)
            subst[p] = ast.Name(id=nm, ctx=ast.Load())
    return subst, pre


class _Renamer(ast.NodeTransformer):
    def __init__(self, subst: Dict[str, ast.AST], locals_: Dict[str, str]):
        self.subst, self.locals = subst, locals_

    def visit_Name(self, n: ast.Name) -> ast.AST:  # noqa: N802
        if n.id in self.subst:
            r = self.subst[n.id]
            return ast.copy_location(ast.Name(id=r.id, ctx=n.ctx), n)  # type: ignore[attr-defined]
        if n.id in self.locals:
            return ast.copy_location(ast.Name(id=self.locals[n.id], ctx=n.ctx), n)
        return n

    def visit_FunctionDef(self, n):  # noqa: N802  (nested defs of the helper are left alone)
        return n

    visit_AsyncFunctionDef = visit_FunctionDef
    visit_Lambda = visit_FunctionDef


def _body_of(h, subst: Dict[str, ast.AST], tag: str) -> List[ast.stmt]:
    body = [clone(s) for s in h.node.body if not (isinstance(s, ast.Expr) and isinstance(s.value, ast.Constant) and isinstance(s.value.value, str))]
    stores = {n.id for s in body for n in ast.walk(s) if isinstance(n, ast.Name) and isinstance(n.ctx, ast.Store)}
    loc = {nm: f"{nm}__{tag}" for nm in stores if nm not in subst}
    r = _Renamer(subst, loc)
    return [r.visit(s) for s in body]


_tuple_consts: Dict[str, ast.AST] = {}  # names bound once to a tuple display in the helper being inlined (set by the caller of _replace_returns)


def _collect_tuple_consts(stmts: List[ast.stmt]) -> None:
    _tuple_consts.clear()
    seen: Dict[str, int] = {}
    for s in stmts:
        for n in ast.walk(s):
            if isinstance(n, (ast.Assign, ast.AnnAssign)) and getattr(n, "value", None) is not None:
                tg = n.targets[0] if isinstance(n, ast.Assign) else n.target
                if isinstance(tg, ast.Name):
                    seen[tg.id] = seen.get(tg.id, 0) + 1
                    if isinstance(n.value, ast.Tuple):
                        _tuple_consts[tg.id] = n.value
    for k in [k for k, c in seen.items() if c > 1]:
        _tuple_consts.pop(k, None)


def _replace_returns(stmts: List[ast.stmt], target: Optional[ast.AST]) -> List[ast.stmt]:
    out: List[ast.stmt] = []
    for s in stmts:
        if isinstance(s, ast.Return):
            if target is not None:
                v = s.value if s.value is not None else ast.Constant(value=None)
                if isinstance(target, ast.Tuple) and isinstance(v, ast.Name) and v.id in _tuple_consts:
                    v = clone(_tuple_consts[v.id])  # `return not_answered` with `not_answered = (False, None)`
                if isinstance(target, ast.Tuple) and isinstance(v, ast.Tuple) and len(target.elts) == len(v.elts) and all(isinstance(t, ast.Name) for t in target.elts):
                    # `a, b = helper()` with `return x, y`: element-wise, so that each name keeps a plain definition
                    for t, ve in zip(target.elts, v.elts):
                        out.append(ast.copy_location(ast.Assign(targets=[clone(t)], value=ve, lineno=s.lineno, col_offset=s.col_offset), s))
                else:
                    out.append(ast.copy_location(ast.Assign(targets=[clone(target)], value=v, lineno=s.lineno, col_offset=s.col_offset), s))
            out.append(ast.copy_location(ast.Break(), s))
            continue
        if isinstance(s, (ast.FunctionDef, ast.AsyncFunctionDef, ast.ClassDef)):
            out.append(s)
            continue
        for fld in ("body", "orelse", "finalbody"):
            sub = getattr(s, fld, None)
            if isinstance(sub, list) and sub and isinstance(sub[0], ast.stmt):
                setattr(s, fld, _replace_returns(sub, target))
        for hd in getattr(s, "handlers", []):
            hd.body = _replace_returns(hd.body, target)
        for cs in getattr(s, "cases", []):
            cs.body = _replace_returns(cs.body, target)
        out.append(s)
    return out


def _one_shot(body: List[ast.stmt], at: ast.AST) -> ast.stmt:
    loop = ast.While(test=ast.Constant(value=True), body=body + [ast.Break()], orelse=[])
    ast.copy_location(loop, at)
    for x in ast.walk(loop):
        if not hasattr(x, "lineno"):
            ast.copy_location(x, at)
    return loop


def _subst_expr(e: ast.AST, temps: Dict[str, ast.AST]) -> ast.AST:
    class S(ast.NodeTransformer):
        def visit_Name(self, n: ast.Name) -> ast.AST:  # noqa: N802
            if isinstance(n.ctx, ast.Load) and n.id in temps:
                return clone(temps[n.id])
            return n

    return S().visit(e)


def _call_in(v: Optional[ast.AST]) -> Optional[ast.Call]:
    if isinstance(v, ast.Await):
        v = v.value
    return v if isinstance(v, ast.Call) else None


class _Flattener:
    def __init__(self, fn, mod, select=None):
        self.fn, self.mod = fn, mod
        self.count = 0
        self.select = select  # optional predicate on the helper Function: inline only helpers it accepts

    def _dict_lookup(self, s: ast.stmt) -> Optional[ast.stmt]:
        """`x = TABLE.get(key[, default])` over a module-level constant dict of literals (at most 8 entries) is the if-chain
        `if key == k1: x = v1 / elif key == k2: x = v2 / else: x = default` it stands for."""
        if not (isinstance(s, ast.Assign) and len(s.targets) == 1 and isinstance(s.targets[0], ast.Name) and isinstance(s.value, ast.Call)
                and isinstance(s.value.func, ast.Attribute) and s.value.func.attr == "get" and isinstance(s.value.func.value, ast.Name)
                and len(s.value.args) in (1, 2) and not s.value.keywords):
            return None
        tname = s.value.func.value.id
        hits = [st for st in self.mod.tree.body if isinstance(st, (ast.Assign, ast.AnnAssign)) and getattr(st, "value", None) is not None
                and isinstance((st.targets[0] if isinstance(st, ast.Assign) else st.target), ast.Name)
                and (st.targets[0] if isinstance(st, ast.Assign) else st.target).id == tname]
        if len(hits) != 1 or not isinstance(hits[0].value, ast.Dict) or not 1 <= len(hits[0].value.keys) <= 8:
            return None
        d = hits[0].value
        if not all(isinstance(k, ast.Constant) for k in d.keys) or not all(isinstance(v, ast.Constant) for v in d.values):
            return None
        key = s.value.args[0]
        default = s.value.args[1] if len(s.value.args) == 2 else ast.Constant(value=None)
        orelse: List[ast.stmt] = [ast.Assign(targets=[clone(s.targets[0])], value=clone(default), lineno=s.lineno)]
        for k, v in reversed(list(zip(d.keys, d.values))):
            test = ast.Compare(left=clone(key), ops=[ast.Eq()], comparators=[clone(k)])
            orelse = [ast.If(test=test, body=[ast.Assign(targets=[clone(s.targets[0])], value=clone(v), lineno=s.lineno)], orelse=orelse)]
        return ast.fix_missing_locations(ast.copy_location(orelse[0], s))

    def _table_first_match(self, s: ast.stmt) -> Optional[ast.stmt]:
        if not (isinstance(s, ast.Assign) and len(s.targets) == 1 and isinstance(s.targets[0], ast.Name) and isinstance(s.value, ast.Call)
                and isinstance(s.value.func, ast.Name) and s.value.func.id == "next" and len(s.value.args) in (1, 2) and isinstance(s.value.args[0], ast.GeneratorExp)):
            return None
        g = s.value.args[0]
        if len(g.generators) != 1 or len(g.generators[0].ifs) != 1 or not isinstance(g.generators[0].iter, ast.Name):
            return None
        gen = g.generators[0]
        rows = _const_table(gen.iter.id, self.mod)
        if rows is None:
            # the table as a local bound once in this function
            loc = [x for x in ast.walk(self.fn.node) if isinstance(x, ast.Assign) and len(x.targets) == 1 and isinstance(x.targets[0], ast.Name) and x.targets[0].id == gen.iter.id]
            if len(loc) == 1 and isinstance(loc[0].value, (ast.Tuple, ast.List)) and 1 <= len(loc[0].value.elts) <= 8:
                rows = list(loc[0].value.elts)
        if rows is None or not isinstance(gen.target, ast.Tuple) or not all(isinstance(e, ast.Name) for e in gen.target.elts):
            return None
        names = [e.id for e in gen.target.elts]
        if not all(isinstance(r, (ast.Tuple, ast.List)) and len(r.elts) == len(names) for r in rows):
            return None
        default = s.value.args[1] if len(s.value.args) == 2 else None
        if default is None:
            return None  # without a default `next` raises StopIteration: not an if-chain

        def inst(e: ast.AST, row) -> ast.AST:
            sub = dict(zip(names, row.elts))

            class S(ast.NodeTransformer):
                def visit_Name(self, x: ast.Name):  # noqa: N802
                    return clone(sub[x.id]) if x.id in sub and isinstance(x.ctx, ast.Load) else x

            return S().visit(clone(e))

        node: Optional[ast.stmt] = ast.Assign(targets=[clone(s.targets[0])], value=clone(default), lineno=s.lineno)
        orelse: List[ast.stmt] = [node]
        for row in reversed(rows):
            iff = ast.If(test=inst(gen.ifs[0], row), body=[ast.Assign(targets=[clone(s.targets[0])], value=inst(g.elt, row), lineno=s.lineno)], orelse=orelse)
            orelse = [iff]
        out = orelse[0]
        return ast.fix_missing_locations(ast.copy_location(out, s))

    def _hof(self, call: ast.Call):
        got = _helper_of(call, self.fn, self.mod)
        if got is not None and self.select is not None and not self.select(got[0]):
            return None
        if got is not None:
            got = (unroll_table_loops(got[0]), got[1])  # table-driven dispatch helpers are inlined as the if-chain they stand for
        return got

    def block(self, stmts: List[ast.stmt], stack: Tuple[str, ...], depth: int) -> List[ast.stmt]:
        out: List[ast.stmt] = []
        i = 0
        while i < len(stmts):
            s = stmts[i]
            nxt = stmts[i + 1] if i + 1 < len(stmts) else None
            fused = self.fuse_optional_result(s, nxt, stack, depth)
            if fused is not None:
                out.extend(fused)
                i += 2
                continue
            out.extend(self.stmt(s, stack, depth))
            i += 1
        return out

    def fuse_optional_result(self, s: ast.stmt, nxt: Optional[ast.stmt], stack: Tuple[str, ...], depth: int) -> Optional[List[ast.stmt]]:
        """`t = helper(...)` directly followed by `if t is not None: return t` (or `if t: return t`): the helper's `return None` means
        "go on", any other return is the caller's return - expressed directly, so that no infeasible path (helper said stop, caller goes
        on) appears in the flattened control flow."""
        if depth <= 0 or nxt is None or not (isinstance(s, ast.Assign) and len(s.targets) == 1 and isinstance(s.targets[0], ast.Name)):
            return None
        call = _call_in(s.value)
        t = s.targets[0].id
        if call is None or not (isinstance(nxt, ast.If) and not nxt.orelse and len(nxt.body) == 1 and isinstance(nxt.body[0], ast.Return)
                                and isinstance(nxt.body[0].value, ast.Name) and nxt.body[0].value.id == t):
            return None
        tst = nxt.test
        is_test = (isinstance(tst, ast.Name) and tst.id == t) or (
            isinstance(tst, ast.Compare) and len(tst.ops) == 1 and isinstance(tst.ops[0], ast.IsNot) and isinstance(tst.left, ast.Name) and tst.left.id == t
            and isinstance(tst.comparators[0], ast.Constant) and tst.comparators[0].value is None)
        if not is_test:
            return None
        got = self._hof(call)
        if got is None or not _inlinable(got[0], stack):
            return None
        h, bound = got
        rets = [r for x in h.node.body for r in ast.walk(x) if isinstance(r, ast.Return)]
        if not all(r.value is None or (isinstance(r.value, ast.Constant) and r.value.value is None) or isinstance(r.value, (ast.Call, ast.Tuple, ast.Dict, ast.List, ast.JoinedStr))
                   for r in rets):
            return None  # a return whose None-ness is not evident
        self.count += 1
        tag = f"{h.name.strip('_')}{self.count}"
        b = _bind(h, call, bound, tag)
        if b is None:
            return None
        subst, pre = b
        body = self.block(_body_of(h, subst, tag), stack + (h.fq,), depth - 1)

        def conv(stmts: List[ast.stmt]) -> List[ast.stmt]:
            out: List[ast.stmt] = []
            for x in stmts:
                if isinstance(x, ast.Return):
                    if x.value is None or (isinstance(x.value, ast.Constant) and x.value.value is None):
                        out.append(ast.copy_location(ast.Break(), x))
                    else:
                        out.append(x)
                    continue
                if isinstance(x, (ast.FunctionDef, ast.AsyncFunctionDef, ast.ClassDef)):
                    out.append(x)
                    continue
                for fld in ("body", "orelse", "finalbody"):
                    sub = getattr(x, fld, None)
                    if isinstance(sub, list) and sub and isinstance(sub[0], ast.stmt):
                        setattr(x, fld, conv(sub))
                for hd in getattr(x, "handlers", []):
                    hd.body = conv(hd.body)
                out.append(x)
            return out

        return pre + [_one_shot(conv(body), s)]

    def stmt(self, s: ast.stmt, stack: Tuple[str, ...], depth: int) -> List[ast.stmt]:
        if isinstance(s, (ast.FunctionDef, ast.AsyncFunctionDef, ast.ClassDef)):
            return [s]
        # nested blocks first
        for fld in ("body", "orelse", "finalbody"):
            sub = getattr(s, fld, None)
            if isinstance(sub, list) and sub and isinstance(sub[0], ast.stmt):
                setattr(s, fld, self.block(sub, stack, depth))
        for hd in getattr(s, "handlers", []):
            hd.body = self.block(hd.body, stack, depth)
        for cs in getattr(s, "cases", []):
            cs.body = self.block(cs.body, stack, depth)
        if depth <= 0:
            return [s]
        # `x = next((name for pred, name in TABLE if pred(arg)), default)` over a module-level constant table of pairs is the if-chain
        # it stands for: `if P1(arg): x = N1 / elif P2(arg): x = N2 / else: x = default`   (first match wins)
        chain = self._table_first_match(s) or self._dict_lookup(s)
        if chain is not None:
            self.count += 1
            return [chain]
        # `with helper(args):` where helper is a @contextmanager generator of the shape  <pre>; try: yield; finally: <post>
        # becomes  <pre>; try: <with body>; finally: <post>   (what contextlib does, written out)
        if isinstance(s, (ast.With, ast.AsyncWith)) and len(s.items) == 1 and isinstance(s.items[0].context_expr, ast.Call) and s.items[0].optional_vars is None:
            cmc = s.items[0].context_expr
            gotc = self._hof(cmc)
            if gotc is not None and gotc[0].fq not in stack:
                hc, boundc = gotc
                decos = [(d.attr if isinstance(d, ast.Attribute) else d.id if isinstance(d, ast.Name) else "") for d in hc.node.decorator_list]
                hbody = [x for x in hc.node.body if not (isinstance(x, ast.Expr) and isinstance(x.value, ast.Constant))]
                tries = [x for x in hbody if isinstance(x, ast.Try)]
                if "contextmanager" in decos and len(tries) == 1 and hbody[-1] is tries[0] and not tries[0].handlers and tries[0].finalbody \
                        and len(tries[0].body) == 1 and isinstance(tries[0].body[0], ast.Expr) and isinstance(tries[0].body[0].value, ast.Yield) \
                        and not any(isinstance(y, (ast.Yield, ast.YieldFrom, ast.Return)) for x in hbody[:-1] for y in ast.walk(x)):
                    self.count += 1
                    tag = f"{hc.name.strip('_')}{self.count}"
                    b = _bind(hc, cmc, boundc, tag)
                    if b is not None:
                        subst, pre = b
                        cm_body = _body_of(hc, subst, tag)
                        t2 = cm_body[-1]
                        assert isinstance(t2, ast.Try)
                        new_try = ast.copy_location(ast.Try(body=list(s.body), handlers=[], orelse=[], finalbody=t2.finalbody), s)
                        out_c: List[ast.stmt] = list(pre)
                        for ps in cm_body[:-1] + [new_try]:
                            out_c += self.stmt(ast.fix_missing_locations(ps), stack + (hc.fq,), depth - 1) if ps is not new_try else [ast.fix_missing_locations(new_try)]
                        return out_c
        # `if helper(x):` / `if not helper(x):` with a multi-statement helper: `t = helper(x); if t:` (analysis-only rewrite)
        if isinstance(s, ast.If):
            te = s.test
            neg = False
            while isinstance(te, ast.UnaryOp) and isinstance(te.op, ast.Not):
                te, neg = te.operand, not neg
            if isinstance(te, ast.Call):
                got0 = self._hof(te)
                if got0 is not None and _inlinable(got0[0], stack) and not isinstance(got0[0].node, ast.AsyncFunctionDef):
                    hb = [x for x in got0[0].node.body if not (isinstance(x, ast.Expr) and isinstance(x.value, ast.Constant))]
                    if not (len(hb) == 1 and isinstance(hb[0], ast.Return)):
                        self.count += 1
                        tmp = f"__cond{self.count}"
                        pre = ast.copy_location(ast.Assign(targets=[ast.Name(id=tmp, ctx=ast.Store())], value=te, lineno=s.lineno), s)
                        nm: ast.AST = ast.Name(id=tmp, ctx=ast.Load())
                        s.test = ast.copy_location(ast.UnaryOp(op=ast.Not(), operand=nm) if neg else nm, s.test)
                        return self.stmt(ast.fix_missing_locations(pre), stack, depth) + [s]
        call = target = None
        kind = None
        if isinstance(s, ast.Expr):
            call, kind = _call_in(s.value), "stmt"
        elif isinstance(s, ast.Assign) and len(s.targets) == 1 and (isinstance(s.targets[0], (ast.Name, ast.Attribute, ast.Subscript)) or (
                isinstance(s.targets[0], ast.Tuple) and all(isinstance(t, ast.Name) for t in s.targets[0].elts))):
            call, kind, target = _call_in(s.value), "assign", s.targets[0]
        elif isinstance(s, ast.AnnAssign) and s.value is not None and isinstance(s.target, ast.Name):
            call, kind, target = _call_in(s.value), "assign", s.target
        elif isinstance(s, ast.Return):
            call, kind = _call_in(s.value), "return"
        if call is not None:
            got = self._hof(call)
            if got is not None and _inlinable(got[0], stack):
                h, bound = got
                self.count += 1
                tag = f"{h.name.strip('_')}{self.count}"
                b = _bind(h, call, bound, tag)
                if b is not None:
                    subst, pre = b
                    body = _body_of(h, subst, tag)
                    body = self.block(body, stack + (h.fq,), depth - 1)
                    if kind == "return":
                        return pre + body
                    _collect_tuple_consts(body)
                    body = _replace_returns(body, target if kind == "assign" else None)
                    return pre + [_one_shot(body, s)]
        # a helper call nested in an unconditionally evaluated position of a simple statement (`f(x, helper(y))`) whose body is more than one
        # `return <expr>`: hoist it into a temporary (`t = helper(y); f(x, t)`) and inline the assignment (analysis-only rewrite)
        if (isinstance(s, (ast.Expr, ast.Assign, ast.AnnAssign, ast.Return, ast.AugAssign)) and getattr(s, "value", None) is not None) or (
                isinstance(s, ast.Raise) and s.exc is not None):
            h = self._hoist(s, call, stack)
            if h is not None:
                out: List[ast.stmt] = []
                for ps in h:
                    out += self.stmt(ps, stack, depth)
                return out
        # expression-level: helpers that are a single `return <expr>`
        return [self.expr_inline(s, stack)]

    def _hoist(self, s: ast.stmt, top: Optional[ast.Call], stack: Tuple[str, ...]) -> Optional[List[ast.stmt]]:
        me = self
        found: List[ast.Call] = []

        def scan(e: ast.AST) -> None:
            if found:
                return
            if isinstance(e, (ast.ListComp, ast.SetComp, ast.DictComp, ast.GeneratorExp)):
                # the iterable of the first `for` of a comprehension is evaluated once, in the enclosing scope: a helper call there can be hoisted
                scan(e.generators[0].iter)
                return
            if isinstance(e, (ast.Lambda, ast.IfExp)):
                return
            if isinstance(e, ast.BoolOp):
                scan(e.values[0])
                return
            if isinstance(e, ast.Call) and e is not top:
                got = me._hof(e)
                if got is not None and _inlinable(got[0], stack) and not isinstance(got[0].node, ast.AsyncFunctionDef):
                    body = [x for x in got[0].node.body if not (isinstance(x, ast.Expr) and isinstance(x.value, ast.Constant))]
                    if not (len(body) == 1 and isinstance(body[0], ast.Return)):
                        found.append(e)
                        return
                    # a one-expression helper is normally substituted in place (expr_inline); when its arguments are not plain names
                    # that needs assignments in front of the statement - so it is hoisted like any other helper
                    probe = _bind(got[0], e, got[1], "probe")
                    if probe is not None and probe[1]:
                        found.append(e)
                        return
            for ch in ast.iter_child_nodes(e):
                scan(ch)

        fld = "exc" if isinstance(s, ast.Raise) else "value"
        scan(getattr(s, fld))
        if not found:
            return None
        self.count += 1
        tmp = f"__hoisted{self.count}"
        target_call = found[0]

        class R(ast.NodeTransformer):
            def visit_Call(self, c: ast.Call) -> ast.AST:  # noqa: N802
                if c is target_call:
                    return ast.copy_location(ast.Name(id=tmp, ctx=ast.Load()), c)
                return self.generic_visit(c)

        pre = ast.copy_location(ast.Assign(targets=[ast.Name(id=tmp, ctx=ast.Store())], value=target_call, lineno=s.lineno), s)
        setattr(s, fld, R().visit(getattr(s, fld)))
        return [ast.fix_missing_locations(pre), s]

    def expr_inline(self, s: ast.stmt, stack: Tuple[str, ...]) -> ast.stmt:
        me = self

        class T(ast.NodeTransformer):
            def visit_Call(self, c: ast.Call) -> ast.AST:  # noqa: N802
                self.generic_visit(c)
                got = me._hof(c)
                if got is None:
                    return c
                h, bound = got
                body = [x for x in h.node.body if not (isinstance(x, ast.Expr) and isinstance(x.value, ast.Constant))]
                # straight-line helpers: `t1 = e1; t2 = e2; return e` are folded into one expression
                if len(body) > 1 and isinstance(body[-1], ast.Return) and body[-1].value is not None and all(
                        isinstance(x, (ast.Assign, ast.AnnAssign)) and isinstance(x.targets[0] if isinstance(x, ast.Assign) else x.target, ast.Name) and x.value is not None
                        for x in body[:-1]):
                    temps: Dict[str, ast.AST] = {}
                    for x in body[:-1]:
                        nm = (x.targets[0] if isinstance(x, ast.Assign) else x.target).id  # type: ignore[union-attr]
                        temps[nm] = _subst_expr(clone(x.value), temps)
                    body = [ast.Return(value=_subst_expr(clone(body[-1].value), temps))]
                if len(body) != 1 or not isinstance(body[0], ast.Return) or body[0].value is None or h.fq in stack or h is me.fn:
                    return c
                if isinstance(h.node, ast.AsyncFunctionDef):
                    return c
                me.count += 1
                b = _bind(h, c, bound, f"{h.name.strip('_')}{me.count}")
                if b is None or b[1]:
                    return c  # needs pre-assignments: not expressible inside an expression
                subst, _ = b
                e = clone(body[0].value)
                return ast.copy_location(_Renamer(subst, {}).visit(e), c)

            def visit_FunctionDef(self, n):  # noqa: N802
                return n

            visit_AsyncFunctionDef = visit_FunctionDef
            visit_Lambda = visit_FunctionDef

        # do not descend into the nested statement lists again (already processed): transform only this statement's own expressions
        for fld, val in ast.iter_fields(s):
            if fld in ("body", "orelse", "finalbody", "handlers", "cases"):
                continue
            if isinstance(val, ast.AST):
                setattr(s, fld, T().visit(val))
            elif isinstance(val, list):
                setattr(s, fld, [T().visit(v) if isinstance(v, ast.AST) else v for v in val])
        return s


def flatten(fn, depth: int = MAX_DEPTH, select=None):
    """A copy of Function `fn` whose node has local helper calls inlined (or `fn` itself when nothing was inlined).
    `select(helper Function) -> bool` restricts which helpers are inlined."""
    from sa.model import Function, set_parents

    mod = fn.module
    node = clone(fn.node)
    fl = _Flattener(fn, mod, select)
    node.body = fl.block(node.body, (fn.fq,), depth)
    if fl.count == 0:
        return fn
    ast.fix_missing_locations(node)
    set_parents(node)
    out = Function(module=fn.module, qualname=fn.qualname, node=node, cls=fn.cls)
    out.flattened = fl.count  # type: ignore[attr-defined]
    return out


def inline_module_constants(fn):
    """A copy of Function `fn` in which reads of module-level string constants (`_REGISTRY_FILENAME = ".exception_registry.json"`, bound
    once, to a literal) are replaced by the literal - so that rules which recognise a file by its name keep recognising it after the name
    was given a constant.  Returns `fn` itself when nothing was replaced."""
    from sa.model import Function, set_parents

    mod = fn.module
    consts: Dict[str, ast.Constant] = {}
    counts: Dict[str, int] = {}
    for st in mod.tree.body:
        tg = st.targets[0] if isinstance(st, ast.Assign) and len(st.targets) == 1 else getattr(st, "target", None) if isinstance(st, ast.AnnAssign) else None
        if isinstance(tg, ast.Name):
            counts[tg.id] = counts.get(tg.id, 0) + 1
            v = getattr(st, "value", None)
            if isinstance(v, ast.Constant) and isinstance(v.value, str):
                consts[tg.id] = v
    consts = {k: v for k, v in consts.items() if counts.get(k) == 1}
    if not consts:
        return fn
    local_stores = {n.id for n in ast.walk(fn.node) if isinstance(n, ast.Name) and isinstance(n.ctx, ast.Store)} | {a.arg for a in ast.walk(fn.node) if isinstance(a, ast.arg)}
    changed = False

    class S(ast.NodeTransformer):
        def visit_Name(self, n: ast.Name):  # noqa: N802
            nonlocal changed
            if isinstance(n.ctx, ast.Load) and n.id in consts and n.id not in local_stores:
                changed = True
                return ast.copy_location(ast.Constant(value=consts[n.id].value), n)
            return n

    node = S().visit(clone(fn.node))
    if not changed:
        return fn
    ast.fix_missing_locations(node)
    set_parents(node)
    out = Function(module=fn.module, qualname=fn.qualname, node=node, cls=fn.cls)
    if hasattr(fn, "flattened"):
        out.flattened = fn.flattened  # type: ignore[attr-defined]
    return out
