"""Statement-level control-flow graph for one Python function.

Node kinds
    entry, exit (normal return / fall off the end), raise_exit (exception leaves the function)
    stmt      a simple statement (Expr, Assign, Return, Raise, ...; nested defs are opaque)
    test      the test of an If / While / the guard of a match case   (edges 'true' / 'false')
    iter      the header of a For loop                                  (edges 'loop' / 'done')
    with      the context-manager entry of a With
    subject   the subject expression of a Match
    case      one `case` pattern (+guard)                               (edges 'true' / 'false')
    dispatch  the exception dispatch point of a try with handlers       (edges 'handler' / 'exc')
    handler   `except T as e:` header
    join      synthetic (entry of a duplicated `finally` copy)

Exceptional edges (label 'exc'): from every `raise`, and from every node *inside a try body
(or handler/else of a try with `finally`)* whose code contains a call, `assert`, `await`
or subscript-free nothing else.  Code outside any `try` is assumed not to raise (stated in
DESIGN.md as part of the trusted base), except that with `exc_everywhere=True` every
call-bearing node gets an exceptional edge to the enclosing handler / raise_exit.

`finally` bodies are duplicated per continuation kind (normal, exception, return,
break/continue per target loop), memoised per try statement, so the graph stays linear in
the size of the function.
"""
from __future__ import annotations

import ast
from collections import deque
from dataclasses import dataclass, field
from typing import Callable, Dict, Hashable, Iterable, List, Optional, Set, Tuple


@dataclass
class Node:
    id: int
    kind: str
    ast: Optional[ast.AST] = None  # statement or expression evaluated at this node
    stmt: Optional[ast.stmt] = None  # owning statement (If for its test, For for its iter...)
    copy: str = ""  # which finally-copy this node belongs to ('' = primary)

    @property
    def lineno(self) -> int:
        n = self.ast if self.ast is not None else self.stmt
        return getattr(n, "lineno", 0)

    def __repr__(self) -> str:  # pragma: no cover
        t = ""
        if self.ast is not None:
            try:
                t = " ".join(ast.unparse(self.ast).split())[:50]
            except Exception:
                t = type(self.ast).__name__
        return f"<{self.id}:{self.kind}@{self.lineno}{'/' + self.copy if self.copy else ''} {t}>"


Dangling = List[Tuple[int, Optional[str]]]


class _Frame:
    pass


@dataclass
class _Loop(_Frame):
    head: int
    breaks: Dangling = field(default_factory=list)


@dataclass
class _Finally(_Frame):
    stmt: ast.Try
    copies: Dict[Hashable, int] = field(default_factory=dict)


@dataclass
class _Handlers(_Frame):
    dispatch: int


def _may_raise(node: Optional[ast.AST]) -> bool:
    if node is None:
        return False
    todo = [node]
    while todo:
        n = todo.pop()
        if isinstance(n, (ast.Call, ast.Await, ast.Assert, ast.Raise, ast.YieldFrom)):
            return True
        if isinstance(n, (ast.FunctionDef, ast.AsyncFunctionDef, ast.ClassDef, ast.Lambda)):
            continue
        todo.extend(ast.iter_child_nodes(n))
    return False


class CFG:
    def __init__(self, fn: ast.AST, exc_everywhere: bool = False):
        self.fn = fn
        self.exc_everywhere = exc_everywhere
        self.nodes: List[Node] = []
        self.succ: Dict[int, List[Tuple[int, Optional[str]]]] = {}
        self.pred: Dict[int, List[Tuple[int, Optional[str]]]] = {}
        self._frames: List[_Frame] = []
        self._copy = ""
        self.entry = self._new("entry")
        self.exit = self._new("exit")
        self.raise_exit = self._new("raise_exit")
        body = fn.body if isinstance(fn.body, list) else [ast.Return(value=fn.body)]  # Lambda
        out = self._block(body, [(self.entry, None)])
        self._connect(out, self.exit)
        self._by_ast: Dict[int, List[int]] = {}
        for n in self.nodes:
            if n.ast is not None:
                self._by_ast.setdefault(id(n.ast), []).append(n.id)

    # ------------------------------------------------------------------ construction
    def _new(self, kind: str, a: Optional[ast.AST] = None, stmt: Optional[ast.stmt] = None) -> int:
        n = Node(len(self.nodes), kind, a, stmt, self._copy)
        self.nodes.append(n)
        self.succ[n.id] = []
        self.pred[n.id] = []
        return n.id

    def _edge(self, a: int, b: int, label: Optional[str]) -> None:
        if (b, label) not in self.succ[a]:
            self.succ[a].append((b, label))
            self.pred[b].append((a, label))

    def _connect(self, dangling: Dangling, target: int) -> None:
        for n, lab in dangling:
            self._edge(n, target, lab)

    def _in_try(self) -> bool:
        return any(isinstance(f, (_Handlers, _Finally)) for f in self._frames)

    def _exc_from(self, n: int) -> None:
        """Route an exception raised at node n outward."""
        self._jump([(n, "exc")], "exc", None)

    def _maybe_exc(self, n: int, code: Optional[ast.AST]) -> None:
        if (self.exc_everywhere or self._in_try()) and _may_raise(code):
            self._exc_from(n)

    def _jump(self, dangling: Dangling, kind: str, loop: Optional[_Loop]) -> None:
        """kind in {'exc','return','break','continue'}; walks frames innermost-out,
        threading through (memoised) copies of intervening finally bodies."""
        i = len(self._frames) - 1
        while i >= 0:
            f = self._frames[i]
            if isinstance(f, _Handlers) and kind == "exc":
                self._connect(dangling, f.dispatch)
                return
            if isinstance(f, _Loop) and kind in ("break", "continue") and f is loop:
                if kind == "break":
                    f.breaks.extend(dangling)
                else:
                    self._connect(dangling, f.head)
                return
            if isinstance(f, _Finally):
                key = (kind, id(loop) if loop is not None else None)
                if key in f.copies:
                    self._connect(dangling, f.copies[key])
                    return  # the continuation of that copy was already built
                saved_frames, saved_copy = self._frames, self._copy
                self._frames = self._frames[:i]
                self._copy = f"{saved_copy}fin{f.stmt.lineno}:{kind}"
                j = self._new("join", None, f.stmt)
                f.copies[key] = j
                self._connect(dangling, j)
                out = self._block(f.stmt.finalbody, [(j, None)])
                self._copy = saved_copy
                # continue outward with the frames below i
                self._jump(out, kind, loop)
                self._frames = saved_frames
                return
            i -= 1
        if kind == "exc":
            self._connect(dangling, self.raise_exit)
        elif kind == "return":
            self._connect(dangling, self.exit)
        else:  # break/continue outside loop: syntactically impossible
            self._connect(dangling, self.exit)

    def _block(self, stmts: List[ast.stmt], dangling: Dangling) -> Dangling:
        for st in stmts:
            if not dangling:
                break  # unreachable code
            dangling = self._stmt(st, dangling)
        return dangling

    def _stmt(self, st: ast.stmt, dangling: Dangling) -> Dangling:
        if isinstance(st, ast.If):
            t = self._new("test", st.test, st)
            self._connect(dangling, t)
            self._maybe_exc(t, st.test)
            a = self._block(st.body, [(t, "true")])
            b = self._block(st.orelse, [(t, "false")]) if st.orelse else [(t, "false")]
            return a + b
        if isinstance(st, (ast.For, ast.AsyncFor)):
            h = self._new("iter", st.iter, st)
            self._connect(dangling, h)
            self._maybe_exc(h, st.iter)
            lp = _Loop(h)
            self._frames.append(lp)
            out = self._block(st.body, [(h, "loop")])
            self._connect(out, h)
            self._frames.pop()
            after = self._block(st.orelse, [(h, "done")]) if st.orelse else [(h, "done")]
            return after + lp.breaks
        if isinstance(st, ast.While):
            t = self._new("test", st.test, st)
            self._connect(dangling, t)
            self._maybe_exc(t, st.test)
            lp = _Loop(t)
            self._frames.append(lp)
            out = self._block(st.body, [(t, "true")])
            self._connect(out, t)
            self._frames.pop()
            const_true = isinstance(st.test, ast.Constant) and bool(st.test.value)
            after: Dangling = []
            if not const_true:
                after = self._block(st.orelse, [(t, "false")]) if st.orelse else [(t, "false")]
            return after + lp.breaks
        if isinstance(st, (ast.With, ast.AsyncWith)):
            w = self._new("with", st, st)
            self._connect(dangling, w)
            for it in st.items:
                self._maybe_exc(w, it.context_expr)
            return self._block(st.body, [(w, None)])
        if isinstance(st, ast.Match):
            s = self._new("subject", st.subject, st)
            self._connect(dangling, s)
            self._maybe_exc(s, st.subject)
            cur: Dangling = [(s, None)]
            outs: Dangling = []
            for case in st.cases:
                c = self._new("case", case, st)
                self._connect(cur, c)
                if case.guard is not None:
                    self._maybe_exc(c, case.guard)
                outs += self._block(case.body, [(c, "true")])
                irrefutable = case.guard is None and (
                    (isinstance(case.pattern, ast.MatchAs) and case.pattern.pattern is None)
                )
                cur = [] if irrefutable else [(c, "false")]
            return outs + cur
        if isinstance(st, (ast.Try, getattr(ast, "TryStar", ast.Try))):
            return self._try(st, dangling)
        if isinstance(st, ast.Return):
            n = self._new("stmt", st, st)
            self._connect(dangling, n)
            self._maybe_exc(n, st.value)
            self._jump([(n, None)], "return", None)
            return []
        if isinstance(st, ast.Raise):
            n = self._new("stmt", st, st)
            self._connect(dangling, n)
            self._exc_from(n)
            return []
        if isinstance(st, (ast.Break, ast.Continue)):
            n = self._new("stmt", st, st)
            self._connect(dangling, n)
            loop = next((f for f in reversed(self._frames) if isinstance(f, _Loop)), None)
            self._jump([(n, None)], "break" if isinstance(st, ast.Break) else "continue", loop)
            return []
        # simple statement (incl. nested def/class, which are opaque)
        n = self._new("stmt", st, st)
        self._connect(dangling, n)
        if not isinstance(st, (ast.FunctionDef, ast.AsyncFunctionDef, ast.ClassDef)):
            self._maybe_exc(n, st)
        return [(n, None)]

    def _try(self, st: ast.Try, dangling: Dangling) -> Dangling:
        fin: Optional[_Finally] = None
        if st.finalbody:
            fin = _Finally(st)
            self._frames.append(fin)
        hf: Optional[_Handlers] = None
        if st.handlers:
            d = self._new("dispatch", None, st)
            hf = _Handlers(d)
            self._frames.append(hf)
        # a marker node so that the try body has a unique entry
        out = self._block(st.body, dangling)
        if hf is not None:
            self._frames.pop()
        if st.orelse:
            out = self._block(st.orelse, out)
        if hf is not None:
            catches_all = False
            for h in st.handlers:
                hn = self._new("handler", h, st)
                self._edge(hf.dispatch, hn, "handler")
                names = _handler_names(h)
                if not names or names & {"Exception", "BaseException"}:
                    catches_all = True
                out = out + self._block(h.body, [(hn, None)])
            if not catches_all and self.pred[hf.dispatch]:
                # the exception may match no handler: propagates (through our finally)
                self._jump([(hf.dispatch, "exc")], "exc", None)
        if fin is not None:
            self._frames.pop()
            if out:
                saved = self._copy
                self._copy = f"{saved}fin{st.lineno}:normal"
                j = self._new("join", None, st)
                self._connect(out, j)
                out = self._block(st.finalbody, [(j, None)])
                self._copy = saved
        return out

    # ------------------------------------------------------------------ queries
    def nodes_of(self, a: ast.AST) -> List[int]:
        return self._by_ast.get(id(a), [])

    def stmt_nodes(self) -> Iterable[Node]:
        return (n for n in self.nodes if n.kind not in ("entry", "exit", "raise_exit", "join", "dispatch"))

    def reachable(self, start: Optional[int] = None) -> Set[int]:
        start = self.entry if start is None else start
        seen = {start}
        todo = [start]
        while todo:
            n = todo.pop()
            for m, _ in self.succ[n]:
                if m not in seen:
                    seen.add(m)
                    todo.append(m)
        return seen

    def reachable_from_without(self, start: int, blocked: Set[int]) -> Set[int]:
        """Nodes reachable from start along paths that avoid `blocked` (start itself exempt)."""
        seen = {start}
        todo = [start]
        while todo:
            n = todo.pop()
            for m, _ in self.succ[n]:
                if m not in seen and m not in blocked:
                    seen.add(m)
                    todo.append(m)
        return seen

    def dominators(self, reverse: bool = False, root: Optional[int] = None) -> Dict[int, Set[int]]:
        """Classic iterative dominator sets. reverse=True gives post-dominators w.r.t. a virtual
        sink joining exit and raise_exit (root=None) or w.r.t. `root`."""
        nxt = self.pred if not reverse else self.succ  # edges *into* a node in the chosen direction
        if not reverse:
            roots = [self.entry if root is None else root]
        else:
            roots = [root] if root is not None else [self.exit, self.raise_exit]
        alln = set(range(len(self.nodes)))
        dom: Dict[int, Set[int]] = {n: set(alln) for n in alln}
        for r in roots:
            dom[r] = {r}
        changed = True
        while changed:
            changed = False
            for n in alln:
                if n in roots:
                    continue
                ps = [p for p, _ in nxt[n]]
                if not ps:
                    new = {n}
                else:
                    new = set.intersection(*(dom[p] for p in ps)) | {n}
                if new != dom[n]:
                    dom[n] = new
                    changed = True
        return dom

    def must_pass(self, a: int, through: Set[int], to: Optional[Set[int]] = None) -> Optional[List[int]]:
        """Does every path from a to a node in `to` (default: exit) pass through `through`?
        Returns None if yes, else a witness path avoiding `through`."""
        targets = {self.exit} if to is None else to
        prev: Dict[int, Optional[int]] = {a: None}
        dq = deque([a])
        while dq:
            n = dq.popleft()
            if n in targets and n != a:
                path = []
                cur: Optional[int] = n
                while cur is not None:
                    path.append(cur)
                    cur = prev[cur]
                return list(reversed(path))
            for m, _ in self.succ[n]:
                if m in prev or m in through:
                    continue
                prev[m] = n
                dq.append(m)
        return None

    def describe_path(self, path: List[int]) -> str:
        parts = []
        for n in path:
            nd = self.nodes[n]
            if nd.kind in ("entry", "join", "dispatch"):
                continue
            if nd.kind in ("exit", "raise_exit"):
                parts.append(nd.kind)
            else:
                parts.append(f"L{nd.lineno}")
        return " -> ".join(parts)


def _handler_names(h: ast.ExceptHandler) -> Set[str]:
    if h.type is None:
        return set()
    ts = h.type.elts if isinstance(h.type, ast.Tuple) else [h.type]
    out = set()
    for t in ts:
        if isinstance(t, ast.Name):
            out.add(t.id)
        elif isinstance(t, ast.Attribute):
            out.add(t.attr)
    return out


# ---------------------------------------------------------------------- generic dataflow
def forward(
    cfg: CFG,
    init: Hashable,
    transfer: Callable[[Node, Hashable, Optional[str]], Iterable[Hashable]],
    max_states: int = 200000,
) -> Tuple[Dict[int, Set[Hashable]], Dict[Tuple[int, Hashable], Optional[Tuple[int, Hashable]]]]:
    """Disjunctive forward dataflow: the abstract state at a node is the *set* of abstract values
    that reach it on some path. transfer(node, value, out_edge_label) yields the values that flow
    along that edge. Returns (states_in, witness) where witness maps (node, value) to the
    (pred node, pred value) that first produced it, so a path can be reconstructed."""
    states: Dict[int, Set[Hashable]] = {n.id: set() for n in cfg.nodes}
    wit: Dict[Tuple[int, Hashable], Optional[Tuple[int, Hashable]]] = {}
    states[cfg.entry].add(init)
    wit[(cfg.entry, init)] = None
    work = deque([(cfg.entry, init)])
    count = 0
    while work:
        n, v = work.popleft()
        node = cfg.nodes[n]
        for m, lab in cfg.succ[n]:
            for v2 in transfer(node, v, lab):
                if v2 not in states[m]:
                    states[m].add(v2)
                    wit[(m, v2)] = (n, v)
                    work.append((m, v2))
                    count += 1
                    if count > max_states:
                        raise RuntimeError("dataflow state explosion")
    return states, wit


def witness_path(
    wit: Dict[Tuple[int, Hashable], Optional[Tuple[int, Hashable]]], node: int, value: Hashable
) -> List[Tuple[int, Hashable]]:
    out: List[Tuple[int, Hashable]] = []
    cur: Optional[Tuple[int, Hashable]] = (node, value)
    while cur is not None:
        out.append(cur)
        cur = wit.get(cur)
    return list(reversed(out))


def guards(cfg: CFG, n: int, dom: Optional[Dict[int, Set[int]]] = None) -> List[Tuple[Node, Optional[bool]]]:
    """Tests (and match cases / loop headers) that dominate node n, each with the polarity under which
    n is reachable: True (only via the true edge), False (only via the false edge), None (both)."""
    dom = dom or cfg.dominators()
    out: List[Tuple[Node, Optional[bool]]] = []
    for d in sorted(dom[n]):
        nd = cfg.nodes[d]
        if nd.kind not in ("test", "case") or d == n:
            continue
        via = {}
        for lab in ("true", "false"):
            starts = [m for m, l in cfg.succ[d] if l == lab]
            reach = False
            seen: Set[int] = set()
            todo = list(starts)
            while todo:
                x = todo.pop()
                if x in seen:
                    continue
                seen.add(x)
                if x == n:
                    reach = True
                    break
                if x == d:
                    continue  # do not pass through the test again (loops)
                todo.extend(m for m, _ in cfg.succ[x])
            via[lab] = reach
        pol: Optional[bool]
        if via["true"] and not via["false"]:
            pol = True
        elif via["false"] and not via["true"]:
            pol = False
        else:
            pol = None
        out.append((nd, pol))
    return out
