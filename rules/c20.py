"""C20 - name derivation is total, valid and collision-safe.

R20.1  string-shape abstract interpretation of every NameSanitizer name function: for *every* input string the result is
       non-empty, starts with an identifier-start character, contains only identifier characters, and is not a keyword
R20.5  parameter names stored for the generators are fixed points of the sanitiser the generators re-apply (no suffix glued on after sanitising)
R20.9  no named schema is filtered out between class / module de-collision and emission (none dropped)                        [= R1.8, file filter]
R20.10 names made up for inline schemas are tested against the declared schema names (a made-up and a declared schema are never merged)   [= R2.17]
R20.8  the sanitised key a schema is registered under never shadows another declared schema's name (both declarations survive, in either order)  [= R2.14]
R20.7  schema references are resolved by their exact name, never by a sanitised / normalised key (names that sanitise alike stay distinct)  [= R2.10]
R20.6  the tag grouping key is at least as coarse as the module / class / attribute names derived from a tag (tags have no de-dup step)     [= R7.7]
R20.4  parameters of one operation keep distinct identifiers and none is dropped or merged (override keys, name-space consistency)  [= R4.4]
R20.3  validated-return functions (enum member names): the return is dominated by the function's own validity test
       (`raise` unless fullmatch [A-Z_][A-Z0-9_]*) and preceded by the keyword suffix
R20.2  de-duplication soundness per namespace: membership test in an accumulating set, rename in a loop until unused,
       the final name recorded; sites: dataclass fields, enum members, class names, module stems, operation methods,
       operation parameters
R20.14 every signature builder that derives argument names from the operation's parameters de-collides them (a second builder that sanitises `param.name`
       itself emits `def f(self, id_: str, id_: int)` / a second `content_type`: SyntaxError at import)                    [= R1.25; finding on the pinned tree]
R20.13 a model class never takes a name the endpoint modules import and use themselves (Protocol, HttpTransport, the exception aliases ...): every such
       name is in the table the models emitter's class-name de-collision refuses                                         [= R1.24 / R6.15 / R13.13]
R20.12 the tag attribute names of APIClient are kept apart from the names the class uses itself (every fixed member name is refused by the sanitiser) [= R7.14]
R20.11 two inline schemas with the same made-up name are kept apart (name tied to the document node)                                   [= R2.21]
"""
from __future__ import annotations

import ast
import keyword
from typing import Dict, List, Optional, Set, Tuple

from sa.cfg import CFG
from sa.model import full, AnalysisError, Function, Repo, calls_in, const_str, dotted, norm, own_nodes, parent
from sa.match import Locals, match
from sa.report import Report
from sa.strshape import ALL, AStr, ID_CONT, ID_START, Interp, SAMPLES, Unsupported, uncaught_keywords

# function -> (role, must be identifier?)  (sanitize_filename / normalize_tag_key produce file names / map keys, not identifiers)
SANITIZERS = {
    "sanitize_class_name": "class names (models, enums, aliases)",
    "sanitize_module_name": "module file stems",
    "sanitize_method_name": "method, parameter and field names",
    "sanitize_tag_class_name": "tag client class names",
    "sanitize_tag_attr_name": "tag attributes / endpoint module names",
}
CLASS_DESCR = {"U": "ASCII upper", "L": "ASCII lower", "D": "ASCII digit", "_": "underscore", "O": "ASCII punctuation/space",
               "XS": "non-ASCII letters", "XC": "non-ASCII marks/digits (identifier-continue only)",
               "W": r"non-ASCII \w characters that are not identifier characters (², ½, ①)", "N": "non-ASCII symbols"}


def run(repo: Repo, rep: Report, tier: str) -> None:
    from sa.report import guarded as _guarded

    utils = repo.module("core.utils")
    ns = utils.classes.get("NameSanitizer")
    if ns is None:
        raise AnalysisError("anchor vanished: NameSanitizer")
    n_fn = 0
    # who-calls over the whole package (not only the live set: a reference from any module arms the rule)
    refs: dict[str, list[str]] = {f: [] for f in SANITIZERS}
    for mname, m in repo.modules.items():
        for n in ast.walk(m.tree):
            if isinstance(n, ast.Attribute) and n.attr in refs:
                refs[n.attr].append(f"{m.relpath}:{n.lineno}")
            elif isinstance(n, ast.Name) and n.id in refs and isinstance(n.ctx, ast.Load):
                refs[n.id].append(f"{m.relpath}:{n.lineno}")
            elif isinstance(n, ast.Constant) and isinstance(n.value, str) and n.value in refs and isinstance(parent(n), ast.Call):
                refs[n.value].append(f"{m.relpath}:{n.lineno}")  # getattr(NameSanitizer, "sanitize_x")
    for fname, role in SANITIZERS.items():
        fn = ns.methods.get(fname)
        if fn is None:
            raise AnalysisError(f"anchor vanished: NameSanitizer.{fname}")
        if not refs[fname]:
            # the property speaks about identifiers the generator derives; a function nothing in the package refers to derives
            # none.  Recorded (not silently skipped); the shape rule arms by itself as soon as a reference appears.
            rep.ok("R20.1", f"{utils.relpath}:NameSanitizer.{fname} ({role})",
                   f"not armed: no reference to `{fname}` in any of the {len(repo.modules)} modules of the package, so no emitted identifier derives from it",
                   fn.loc())
            rep.count(f"R20.1:unreferenced:{fname}", 0)
            continue
        rep.count(f"R20.1:references:{fname}", len(refs[fname]))
        n_fn += 1
        _shape_rule(fn, role, rep)
    rep.count("R20.1:functions_interpreted", n_fn)
    rep.require(n_fn >= 3, f"R20.1: only {n_fn} referenced name sanitizers (floor 3: class, module, method)")

    # every other NameSanitizer function that returns a str and is used for identifiers must be in the table
    for q, m in ns.methods.items():
        if q.startswith("sanitize_") and q not in SANITIZERS and q != "sanitize_filename":
            rep.violation("R20.1", f"{utils.relpath}:NameSanitizer.{q}", f"unlisted-sanitizer|{q}",
                          "a new sanitize_* function is not covered by the shape analysis table", m.loc())

    # ---------------------------------------------------------------- R20.4 parameter identifiers stay distinct and none is merged away
    from rules._reuse import reuse as _reuse20

    _reuse20(repo, rep, "c04", {"R4.4": "R20.4"})
    _guarded(rep, rule_stored_names_are_fixed_points, repo, rep, "R20.5")
    # R20.6: tags are the one namespace without a de-duplication step - two tag groups never derive the same module / class / attribute
    # name because the grouping key is at least as coarse as those names                                                   [= R7.7]
    _guarded(rep, rule_models_spare_endpoint_names, repo, rep, "R20.13")
    _guarded(rep, rule_signature_builders_decollide, repo, rep, "R20.14")
    _reuse20(repo, rep, "c07", {"R7.7": "R20.6", "R7.14": "R20.12"})  # R20.12: a tag attribute never takes the name of a member of APIClient
    # R20.7: a reference is resolved by the exact name it carries: when two schemas differ only by what sanitising removes, a lookup
    # under the sanitised name returns the other schema                                                                     [= R2.10]
    from rules.c02 import rule_exact_registry_lookups

    _guarded(rep, rule_exact_registry_lookups, repo, rep, "R20.7")
    # R20.8: ... and on the registration side the sanitised key never takes the place of another declared schema's name           [= R2.14]
    from rules.c02 import rule_key_does_not_shadow_declared_name

    _guarded(rep, rule_key_does_not_shadow_declared_name, repo, rep, "R20.8")
    # R20.9: no named schema is taken out between de-collision and emission (a schema filtered out there is dropped, and the schemas that
    # collided with it are no longer told apart)                                                                   [= R1.8, file filter]
    from rules.c01 import _models_emitter_rules
    from rules._reuse import _Filter as _F209

    _models_emitter_rules(repo, _F209(rep, {"R1.8": "R20.9"}, only=lambda subj: "file filter" in subj))
    # R20.10: a name made up for an inline schema never equals a declared schema's name (the two would be merged)                 [= R2.17]
    from rules.c02 import rule_invented_names_avoid_declared

    _guarded(rep, rule_invented_names_avoid_declared, repo, rep, "R20.10")
    from rules.c02 import rule_invented_names_are_per_node

    _guarded(rep, rule_invented_names_are_per_node, repo, rep, "R20.11")
    # ---------------------------------------------------------------- R20.3 validated returns
    eg = repo.module("visit.model.enum_generator").classes.get("EnumGenerator")
    if eg is None:
        raise AnalysisError("anchor vanished: EnumGenerator")
    for mname in ("_generate_member_name_for_string_enum", "_generate_member_name_for_integer_enum"):
        m = eg.methods.get(mname)
        if m is None:
            raise AnalysisError(f"anchor vanished: EnumGenerator.{mname}")
        _validated_return(m, rep)

    # ---------------------------------------------------------------- R20.2 de-dup sites
    sites = [
        ("dataclass fields", "visit.model.dataclass_generator:DataclassGenerator.generate", "seen_field_names"),
        ("enum members", "visit.model.enum_generator:EnumGenerator.generate", "processed_member_names"),
        ("class names", "emitters.models_emitter:ModelsEmitter.emit", "assigned_class_names"),
        ("module stems", "emitters.models_emitter:ModelsEmitter.emit", "assigned_module_stems"),
        ("operation methods", "emitters.endpoints_emitter:EndpointsEmitter._deduplicate_operation_ids_globally", "seen_methods"),
        ("operation parameters", "visit.endpoint.processors.parameter_processor:EndpointParameterProcessor.process_parameters", "param_details_map"),
    ]
    for label, spec, seen in sites:
        fn = repo.func(spec)
        _dedup_site(fn, label, seen, rep)


# ---------------------------------------------------------------------- R20.1
def _shape_rule(fn: Function, role: str, rep: Report) -> None:
    sub0 = f"{fn.module.relpath}:NameSanitizer.{fn.name}"
    param = fn.params[0] if fn.params else None
    if param is None:
        raise AnalysisError(f"{fn.name} has no parameter")
    from sa.strshape import interpret as _interpret

    try:
        it = _interpret(fn, param)
    except Unsupported as e:
        rep.error(f"R20.1: {fn.name} uses an operation the string-shape interpreter does not model: {e}")
        return
    if not it.returns:
        rep.error(f"R20.1: {fn.name} has no return the interpreter reached")
        return
    out: Optional[AStr] = None
    for v, _, _ in it.returns:
        out = v if out is None else out.join(v)
    assert out is not None
    loc = fn.loc()
    shape = f"may_empty={out.may_empty} first={sorted(out.first)} chars={sorted(out.chars)} suffix={out.suffix!r} kw_guard={out.kw_guard}"
    # (a) non-empty
    if out.may_empty:
        rep.violation("R20.1", f"{sub0} non-empty", f"{fn.fq}|may-be-empty",
                      f"can return the empty string (e.g. for input made only of characters the pipeline drops, like '$' or ''): an empty "
                      f"identifier is emitted for {role}. Abstract result: {shape}", loc)
    else:
        rep.ok("R20.1", f"{sub0} non-empty", f"result is never empty ({shape})", loc)
    # (b) first character
    bad_first = sorted(out.first - ID_START)
    if bad_first:
        rep.violation("R20.1", f"{sub0} first character", f"{fn.fq}|bad-first|{bad_first}",
                      f"the first character can be of class {[CLASS_DESCR[k] for k in bad_first]} (e.g. {[SAMPLES[k] for k in bad_first]}): not a valid "
                      f"identifier start for {role}", loc)
    else:
        rep.ok("R20.1", f"{sub0} first character", f"first character is always in {sorted(out.first)}", loc)
    # (c) all characters
    bad_chars = sorted(out.chars - ID_CONT)
    if bad_chars:
        rep.violation("R20.1", f"{sub0} characters", f"{fn.fq}|bad-chars|{bad_chars}",
                      f"the result can contain characters of class {[CLASS_DESCR[k] for k in bad_chars]} (e.g. {[SAMPLES[k] for k in bad_chars]}): "
                      f"not valid inside an identifier", loc)
    else:
        rep.ok("R20.1", f"{sub0} characters", f"all characters are in {sorted(out.chars)}", loc)
    # (d) keywords
    kws = uncaught_keywords(out.kw_guard, out)
    if kws:
        how = {None: "there is no keyword guard on the returned value", "lower": "the keyword guard tests `.lower()` of the value"}[out.kw_guard]
        rep.violation("R20.1", f"{sub0} not a keyword", f"{fn.fq}|keyword|{out.kw_guard}|{kws[:4]}",
                      f"the result can be the Python keyword(s) {kws[:8]}: {how}", loc)
    else:
        rep.ok("R20.1", f"{sub0} not a keyword", f"keyword guard `{out.kw_guard}` / shape excludes every keyword", loc)


# ---------------------------------------------------------------------- R20.3
def _validated_return(fn: Function, rep: Report) -> None:
    sub0 = f"{fn.module.relpath}:{fn.qualname}"
    cfg = CFG(fn.node)
    dom = cfg.dominators()
    rets = [n for n in cfg.nodes if isinstance(n.ast, ast.Return) and not n.copy]
    rep.require(len(rets) >= 1, f"R20.3: {fn.name} has no return")
    # the validity test: `if not (x and re.match(r"^[A-Z_][A-Z0-9_]*$", x.upper())): raise`
    L = Locals(fn.node)
    val_tests = []  # (test node, text of the inlined test)
    for n in cfg.nodes:
        if n.kind != "test":
            continue
        ti = L.inline(n.ast)
        neg = False
        while True:
            if isinstance(ti, ast.UnaryOp) and isinstance(ti.op, ast.Not):
                ti, neg = ti.operand, not neg
            elif isinstance(ti, ast.Call) and dotted(ti.func) == "bool" and len(ti.args) == 1:
                ti = ti.args[0]
            else:
                break
        ok_match = False
        for c in ast.walk(ti):
            if isinstance(c, ast.Call) and dotted(c.func) in ("re.match", "re.fullmatch") and len(c.args) >= 2 and const_str(c.args[0]) is not None:
                if _identifier_regex(const_str(c.args[0]) or "", full=dotted(c.func) == "re.fullmatch"):
                    ok_match = True
        if not ok_match:
            continue
        # the branch on which the name is NOT valid must raise
        invalid_lab = "true" if neg else "false"
        succ = [m for m, lab in cfg.succ[n.id] if lab == invalid_lab]
        if succ and all(isinstance(cfg.nodes[m].ast, ast.Raise) for m in succ):
            val_tests.append((n, norm(ti)))
    for r in rets:
        var = norm(r.ast.value) if r.ast.value is not None else ""
        ok = any(t.id in dom[r.id] and var in txt for t, txt in val_tests)
        # nothing reassigns the variable between the test and the return
        if ok:
            t = [t for t, txt in val_tests if t.id in dom[r.id]][-1]
            between = [n for n in cfg.nodes if n.kind == "stmt" and isinstance(n.ast, (ast.Assign, ast.AugAssign)) and t.lineno < n.lineno < r.lineno
                       and var in norm(n.ast.targets[0] if isinstance(n.ast, ast.Assign) else n.ast.target)]
            if between:
                ok = False
        if ok:
            rep.ok("R20.3", f"{sub0} validated return", f"`return {var}` is dominated by `raise unless {var}.upper() fullmatches [A-Z_][A-Z0-9_]*`", fn.loc(r.ast))
        else:
            rep.violation("R20.3", f"{sub0} validated return", f"{fn.fq}|unvalidated-return|{var}",
                          f"`return {var}` is not protected by the function's identifier-validity check: an invalid member name can be returned", fn.loc(r.ast))
        # keyword suffix before the return
        kw = [n for n in cfg.nodes if n.kind == "test" and "keyword.iskeyword" in norm(L.inline(n.ast)) and var in norm(L.inline(n.ast)) and n.id in dom[r.id]]
        if kw:
            rep.ok("R20.3", f"{sub0} keyword suffix", f"`{norm(kw[0].ast)}` dominates the return", fn.loc(kw[0].ast))
        else:
            rep.violation("R20.3", f"{sub0} keyword suffix", f"{fn.fq}|no-keyword-guard|{var}", "no keyword test on the returned member name", fn.loc(r.ast))


# ---------------------------------------------------------------------- R20.2
_ORDINAL = {"module stems": 1}  # second membership-while of ModelsEmitter.emit; every other namespace is the first of its function


def _dedup_site(fn: Function, label: str, seen_hint: str, rep: Report) -> None:
    """The de-duplication construct is found by shape, not by the name of its collection: the n-th `while <name> in <collection>`
    loop of the function (`seen_hint` is only used in messages when no loop is found).  If the function as written does not show the
    pattern, the function with its local helper calls inlined is examined (the loop may have been extracted into a helper)."""
    from sa.report import with_flatten_fallback

    with_flatten_fallback(rep, fn, lambda f, r: _dedup_site_1(f, label, seen_hint, r))


def _dedup_site_1(fn: Function, label: str, seen_hint: str, rep) -> None:
    sub0 = f"{fn.module.relpath}:{fn.qualname} namespace `{label}`"
    L = Locals(fn.node)
    def _membership(t: ast.AST):
        """(tested expression, collection, sense) for `X in S` / `X not in S` with S a plain name / attribute"""
        if isinstance(t, ast.UnaryOp) and isinstance(t.op, ast.Not):
            m = _membership(t.operand)
            return (m[0], m[1], not m[2]) if m else None
        if isinstance(t, ast.Compare) and len(t.ops) == 1 and isinstance(t.ops[0], (ast.In, ast.NotIn)) and isinstance(t.comparators[0], (ast.Name, ast.Attribute)):
            return t.left, t.comparators[0], isinstance(t.ops[0], ast.In)
        return None

    # rename-until-unused loops, in any of the three spellings:
    #   while X in S: X = ...            |  while True: X = ...; if X not in S: break        |  for i in itertools.count(): if X not in S: break; X = ...
    cands = []  # (loop, tested expr, collection, exit kind)
    for n in own_nodes(fn.node):
        if isinstance(n, ast.While):
            m = _membership(n.test)
            if m is not None and m[2]:
                cands.append((n, m[0], m[1], "test"))
                continue
        is_count = isinstance(n, ast.For) and isinstance(n.iter, ast.Call) and (dotted(n.iter.func) or "").split(".")[-1] == "count"
        is_forever = isinstance(n, ast.While) and isinstance(n.test, ast.Constant) and n.test.value is True
        if is_count or is_forever:
            for st in n.body:
                if isinstance(st, ast.If):
                    m = _membership(st.test)
                    if m is None:
                        continue
                    free_branch = st.orelse if m[2] else st.body  # the branch taken when the name is NOT in the collection
                    if any(isinstance(x, ast.Break) for x in free_branch):
                        cands.append((n, m[0], m[1], "break"))
                        break
    # fourth spelling: X = next(c for c in (<candidates over itertools.count()>) if c not in S)
    for n in own_nodes(fn.node):
        if isinstance(n, ast.Assign) and len(n.targets) == 1 and isinstance(n.targets[0], ast.Name) and isinstance(n.value, ast.Call) \
                and isinstance(n.value.func, ast.Name) and n.value.func.id == "next" and n.value.args:
            g = L.inline(n.value.args[0], stop=tuple(L.params))
            if isinstance(g, ast.GeneratorExp) and any("count(" in norm(L.inline(gen.iter, stop=tuple(L.params))) for gen in g.generators):
                for gen in g.generators:
                    for cond in gen.ifs:
                        m = _membership(cond)
                        if m is not None and not m[2]:
                            cands.append((n, n.targets[0], m[1], "next"))
    cands.sort(key=lambda c: c[0].lineno)
    k = _ORDINAL.get(label, 0)
    if len(cands) <= k:
        rep.violation("R20.2", sub0, f"{fn.fq}|dedup|{label}|no-loop",
                      f"no rename-until-unused loop (`while <name> in <used names>` or an equivalent) ({seen_hint}): colliding names in this namespace are not "
                      "renamed until unused (two spec names can end up with the same identifier, or one is dropped)", fn.loc())
        return
    w, left, coll, exit_kind = cands[k]
    t = w.test if exit_kind == "test" else None
    # the accumulating collection(s): the tested collection itself and the collections it is (re)built from, e.g. taken = set(details) | path_names
    roots = {norm(coll)}
    if isinstance(coll, ast.Name):
        for kind, v, _ in L.defs.get(coll.id, []):
            if v is not None:
                roots |= {x.id for x in ast.walk(v) if isinstance(x, ast.Name) and x.id in L.defs}
        for n in own_nodes(fn.node):
            if isinstance(n, ast.AugAssign) and isinstance(n.target, ast.Name) and n.target.id == coll.id:
                roots |= {x.id for x in ast.walk(n.value) if isinstance(x, ast.Name) and x.id in L.defs}
    names = [x.id for x in ast.walk(left) if isinstance(x, ast.Name) and x.id in L.defs]
    tested = names[0] if names else None
    # (ii) the loop body reassigns the tested name
    reassigned = exit_kind == "next" or tested is not None and any(isinstance(n, (ast.Assign, ast.AugAssign)) and any(
        isinstance(x, ast.Name) and x.id == tested for x in (n.targets if isinstance(n, ast.Assign) else [n.target])) for n in ast.walk(w))
    # (iii) after the loop the final name is recorded in the accumulating collection
    cfg = CFG(fn.node)
    wn = [n.id for n in cfg.nodes if n.kind == "test" and n.stmt is w] if exit_kind == "test" else [n.id for n in cfg.nodes if n.kind == "stmt" and n.ast is w and not n.copy] \
        if exit_kind == "next" else [n.id for n in cfg.nodes if n.kind in ("test", "iter") and n.stmt is w]
    rec_nodes = set()
    rec_args = []
    for n in cfg.nodes:
        if n.kind != "stmt" or n.ast is None:
            continue
        for x in ast.walk(n.ast):
            if isinstance(x, ast.Call) and isinstance(x.func, ast.Attribute) and x.func.attr in ("add", "append", "setdefault") and norm(x.func.value) in roots and x.args:
                rec_nodes.add(n.id)
                rec_args.append(x.args[0])
            if isinstance(x, (ast.Assign, ast.AnnAssign)):
                tg = x.targets[0] if isinstance(x, ast.Assign) else x.target
                if isinstance(tg, ast.Subscript) and norm(tg.value) in roots:
                    rec_nodes.add(n.id)
                    rec_args.append(tg.slice)
    hdr = {n.id for n in cfg.nodes if n.kind == "iter"}
    recorded = False
    if wn and rec_nodes:
        if exit_kind == "test":
            exits = [m for m, lab in cfg.succ[wn[0]] if lab == "false"]
        elif exit_kind == "next":
            exits = [m for m, lab in cfg.succ[wn[0]] if lab != "exc"]
        else:
            inside_w = {id(x) for x in ast.walk(w)}
            brk = [n for n in cfg.nodes if isinstance(n.ast, ast.Break) and id(n.ast) in inside_w and not any(
                isinstance(a, (ast.For, ast.While)) and a is not w and id(a) in inside_w and any(y is n.ast for y in ast.walk(a)) for a in ast.walk(w))]
            exits = [m for b in brk for m, _ in cfg.succ[b.id]]
        recorded = all(m in rec_nodes or cfg.must_pass(m, rec_nodes, hdr | {cfg.exit}) is None for m in exits)
    # the recorded value must be (derived from) the tested name
    same = False
    for a in rec_args:
        an = {x.id for x in ast.walk(a) if isinstance(x, ast.Name)}
        if tested in an:
            same = True
        else:
            for n in own_nodes(fn.node):
                if isinstance(n, ast.Assign) and any(isinstance(tg, ast.Name) and tg.id in an for tg in n.targets) and tested in {
                        x.id for x in ast.walk(n.value) if isinstance(x, ast.Name)}:
                    same = True
    # (iv) the name that was probed is the name that is recorded: nothing rewrites it between the end of the probe and the record (a suffix added
    # afterwards - `name += "_"` for an import-shadowing field - is recorded without ever having been tested: two properties can share it)
    touched = None
    if wn and rec_nodes and tested is not None:
        rec_names = {tested} | {x.id for a in rec_args for x in ast.walk(a) if isinstance(x, ast.Name)}
        inside_w2 = {id(x) for x in ast.walk(w)}
        if exit_kind == "test":
            exits2 = [m for m, lab in cfg.succ[wn[0]] if lab == "false"]
        else:
            exits2 = list(exits) if "exits" in dir() else []
        between: Set[int] = set()
        for m in exits2:
            between |= cfg.reachable_from_without(m, rec_nodes | hdr)
        for n in cfg.nodes:
            if n.id in between and n.kind == "stmt" and n.ast is not None and id(n.ast) not in inside_w2 and n.id not in rec_nodes:
                if isinstance(n.ast, (ast.Assign, ast.AugAssign, ast.AnnAssign)):
                    tg = n.ast.targets if isinstance(n.ast, ast.Assign) else [n.ast.target]
                    if any(isinstance(t_, ast.Name) and t_.id in rec_names for t_ in tg) and (rec_nodes & cfg.reachable(n.id)):
                        # harmless: an assignment that only copies the probed name into the recorded one (`final = candidate`)
                        v_ = getattr(n.ast, "value", None)
                        if isinstance(n.ast, ast.Assign) and ((isinstance(v_, ast.Name) and v_.id in rec_names) or (v_ is not None and norm(v_) == norm(left))):
                            continue  # the recorded name *is* the probed expression (`name = sanitize(candidate)` after `while sanitize(candidate) in seen`)
                        if not isinstance(n.ast, ast.AugAssign) and not (v_ is not None and any(isinstance(y, ast.Name) and y.id in rec_names for y in ast.walk(v_))):
                            continue  # unrelated re-binding
                        touched = n
    sub = f"{sub0} (`while <name> in <used names>`)"
    if reassigned and recorded and same and touched is not None:
        rep.violation("R20.2", sub, f"{fn.fq}|dedup|{label}|renamed-after-the-probe",
                      f"`{norm(touched.ast)[:60]}` changes the name after it was probed against `{norm(coll)}` and before it is recorded: the recorded name was never tested, two spec names "
                      "can end up with the same identifier (one overwrites the other)", fn.loc(touched.ast))
    elif reassigned and recorded and same:
        rep.ok("R20.2", sub, f"tests membership in `{norm(coll)}`, renames `{tested}` until unused, records the final name on every path", fn.loc(w))
    else:
        rep.violation("R20.2", sub, f"{fn.fq}|dedup|{label}|reassigned={reassigned}|recorded={recorded}|same={same}",
                      f"de-duplication is unsound: renames-in-loop={reassigned}, final-name-recorded-on-every-path={recorded}, "
                      f"recorded-name-is-the-tested-one={same}", fn.loc(w))


def _identifier_regex(pat: str, full: bool) -> bool:
    """Does the pattern (as used with re.match / re.fullmatch) accept only ASCII identifiers?  Parsed with re._parser."""
    import re._parser as sre  # type: ignore[import]
    from re._constants import AT, AT_BEGINNING, AT_BEGINNING_STRING, AT_END, AT_END_STRING, IN, LITERAL, MAX_REPEAT, MIN_REPEAT, NEGATE, RANGE, SUBPATTERN  # type: ignore[import]

    try:
        items = list(sre.parse(pat))
    except Exception:
        return False
    while items and items[0][0] is AT and items[0][1] in (AT_BEGINNING, AT_BEGINNING_STRING):
        items = items[1:]
    anchored = False
    while items and items[-1][0] is AT and items[-1][1] in (AT_END, AT_END_STRING):
        items, anchored = items[:-1], True
    if not full and not anchored:
        return False
    idc = set("abcdefghijklmnopqrstuvwxyzABCDEFGHIJKLMNOPQRSTUVWXYZ0123456789_")

    def chars(op, av):
        """set of characters one item can match, or None if not a plain ASCII-identifier class"""
        if op is LITERAL:
            return {chr(av)} if chr(av) in idc else None
        if op is IN:
            out = set()
            for o, a in av:
                if o is NEGATE:
                    return None
                if o is LITERAL:
                    out.add(chr(a))
                elif o is RANGE:
                    out |= {chr(x) for x in range(a[0], a[1] + 1)}
                else:
                    return None
            return out if out <= idc else None
        return None

    first = True
    for op, av in items:
        if op in (MAX_REPEAT, MIN_REPEAT):
            lo, hi, sub = av
            cs = set()
            for o2, a2 in sub:
                c2 = chars(o2, a2)
                if c2 is None:
                    return False
                cs |= c2
            if first and lo > 0 and cs & set("0123456789"):
                return False
            if first and lo == 0:
                continue  # optional prefix: the next item is (also) first
            first = False
            continue
        cs = chars(op, av)
        if cs is None:
            return False
        if first and cs & set("0123456789"):
            return False
        first = False
    return not first


# ------------------------------------------------------------------------------------------------ R20.5 stored names are sanitiser fixed points
def rule_stored_names_are_fixed_points(repo: Repo, rep: Report, rule: str = "R20.5") -> None:
    """The generators under visit/endpoint apply `NameSanitizer.sanitize_method_name` *again* to the `name` of a parameter record.  That
    is harmless only if the stored name is a fixed point of the sanitiser: every value process_parameters stores under "name" must be the
    direct result of a NameSanitizer call (or an identifier literal).  A de-collision suffix glued on afterwards (`f"{base}_{n}"`) is not:
    `id_` + `_2` is re-sanitised to `id_2` and can meet a real `id_2`."""
    consumers = []
    for m in repo.modules.values():
        if ".visit.endpoint." not in "." + m.name + ".":
            continue
        for fn in m.functions.values():
            for c in calls_in(fn.node):
                if (dotted(c.func) or "").endswith("sanitize_method_name") and c.args and isinstance(c.args[0], ast.Subscript) and const_str(c.args[0].slice) == "name":
                    consumers.append(f"{m.relpath}:{fn.qualname}")
    rep.count(f"{rule}:re_sanitising_consumers", sorted(set(consumers)))
    pp = repo.func("visit.endpoint.processors.parameter_processor:EndpointParameterProcessor.process_parameters")
    if not consumers:
        rep.ok(rule, f"{pp.module.relpath}:process_parameters", "no generator sanitises a stored parameter name again: nothing to require", pp.loc())
        return
    from sa.match import Locals as _L

    if not any(isinstance(x, ast.Dict) and any(k is not None and const_str(k) == "name" for k in x.keys) for x in own_nodes(pp.node)):
        from sa.flatten import flatten as _fl205

        pp = _fl205(pp)  # the records are built by a helper of the processor (`self._make_param_info(name=...)`): written out
    L = _L(pp.node)
    n = 0

    def fixed_point(e: ast.AST, seen: Set[str]) -> bool:
        if isinstance(e, ast.Constant) and isinstance(e.value, str):
            return e.value.isidentifier()
        if isinstance(e, ast.Call):
            d = dotted(e.func) or ""
            if ".sanitize_" in d or d.startswith("sanitize_"):
                return True
            # a helper of the processor that hands back a name (`self._first_free_name(name, taken)`): every value it returns is a sanitiser result,
            # an identifier literal, or one of its own parameters whose argument here is such a value
            nm = d.split(".")[-1]
            h = pp.module.functions.get(nm) or (pp.cls.methods.get(nm) if pp.cls is not None else None)
            if h is None or nm in seen:
                return False
            HL = _L(h.node)
            hp = [a.arg for a in h.node.args.args if a.arg not in ("self", "cls")]  # type: ignore[attr-defined]

            def hfp(x: ast.AST, hseen: Set[str]) -> bool:
                if isinstance(x, ast.Constant) and isinstance(x.value, str):
                    return x.value.isidentifier()
                if isinstance(x, ast.Call):
                    dd = dotted(x.func) or ""
                    return ".sanitize_" in dd or dd.startswith("sanitize_")
                if isinstance(x, ast.Name):
                    if x.id in hseen:
                        return True
                    ds_ = [d_ for d_ in HL.defs.get(x.id, []) if not (d_[0] == "assign" and isinstance(d_[1], ast.Constant) and d_[1].value is None)]
                    ok_ = True
                    for k_, v_, _ in ds_:
                        if k_ == "param":
                            i_ = hp.index(x.id) if x.id in hp else -1
                            arg = e.args[i_] if 0 <= i_ < len(e.args) else next((kw.value for kw in e.keywords if kw.arg == x.id), None)
                            ok_ = ok_ and arg is not None and fixed_point(arg, seen | {nm})
                        else:
                            ok_ = ok_ and k_ == "assign" and v_ is not None and hfp(v_, hseen | {x.id})
                    return bool(ds_) and ok_
                return False

            rets = [r for r in ast.walk(h.node) if isinstance(r, ast.Return) and r.value is not None]
            return bool(rets) and all(hfp(r.value, set()) for r in rets)
        if isinstance(e, ast.Name):
            if e.id in seen:
                return True
            ds = [d for d in L.defs.get(e.id, []) if d[0] != "param" and not (d[0] == "assign" and isinstance(d[1], ast.Constant) and d[1].value is None)]  # `x = None` = no name yet
            return bool(ds) and all(k == "assign" and v is not None and fixed_point(v, seen | {e.id}) for k, v, _ in ds)
        return False

    for d in own_nodes(pp.node):
        if not isinstance(d, ast.Dict):
            continue
        for k, v in zip(d.keys, d.values):
            if k is not None and const_str(k) == "name":
                n += 1
                sub = f"{pp.module.relpath}:process_parameters record name `{norm(v)[:40]}`"
                if fixed_point(v, set()):
                    rep.ok(rule, sub, f"every definition is a NameSanitizer result / identifier literal: sanitising it again ({len(set(consumers))} consumer(s)) changes nothing", pp.loc(v))
                else:
                    rep.violation(rule, sub, f"{pp.fq}|stored-name-not-fixed-point|{norm(v)[:30]}",
                                  f"`{norm(v)[:40]}` can hold a name that was assembled after sanitising (de-collision suffix), but {sorted(set(consumers))[0]} sanitises it again: "
                                  "`id_`+`_2` becomes `id_2` there and duplicates a real `id_2` (SyntaxError: duplicate argument in the generated signature)", pp.loc(v))
    rep.require(n >= 1, f"{rule}: no parameter record with a \"name\" entry found in process_parameters (anchor)")


# ------------------------------------------------------------------------------------------------ R20.13 model classes vs. names the endpoint modules use themselves
def rule_models_spare_endpoint_names(repo: Repo, rep, rule: str = "R20.13") -> None:
    """An endpoint module imports typing constructs, core classes and the exception aliases for its own code (`class XClientProtocol(Protocol)`,
    `raise NotFoundError(response=response)`, `HttpTransport`, `DataclassSerializer.serialize(...)`) and, after them, the models it mentions.  A
    schema whose class name equals one of those names takes its place: the Protocol class cannot be created, `raise GoneError(...)` constructs the
    dataclass (TypeError instead of an HTTPError).  Decided as a table agreement: every class-shaped name the endpoint templates use, and every
    alias name `get_exception_class_name` can produce, is in the set the models emitter consults when it fixes the class names."""
    import re as _re

    # (1) names used by the templates of visit/endpoint
    used: Dict[str, str] = {}
    for mn, mod in repo.modules.items():
        if ".visit.endpoint" not in mn:
            continue
        for c in ast.walk(mod.tree):
            if isinstance(c, ast.Call) and isinstance(c.func, ast.Attribute) and c.func.attr == "write_line" and c.args:
                parts = []
                a = c.args[0]
                if isinstance(a, ast.JoinedStr):
                    parts = [v.value for v in a.values if isinstance(v, ast.Constant) and isinstance(v.value, str)]
                elif const_str(a) is not None:
                    parts = [const_str(a)]
                for txt in parts:
                    for m_ in _re.finditer(r"(?:raise |\(|: |-> |\[| )([A-Z][A-Za-z]+)(?=\(|\)|\[|\.|:| \||$)", txt or ""):
                        nm = m_.group(1)
                        if nm in ("Protocol", "HttpTransport", "DataclassSerializer", "AsyncIterator", "HTTPError", "ClientError", "ServerError", "Union", "Literal", "NoReturn"):
                            if txt.lstrip().startswith(("#", '"""')):
                                continue
                            used.setdefault(nm, f"{mod.relpath}:{c.lineno}")
    used.pop("NoReturn", None)  # imported for an annotation the generator no longer writes into code lines that a model could break
    rep.require(len(used) >= 4, f"{rule}: only {sorted(used)} found as names used by the endpoint templates (floor 4)")
    # (2) alias names
    hs = repo.module("core.http_status_codes")
    aliases: Set[str] = set()
    for st in hs.tree.body:
        if isinstance(st, (ast.Assign, ast.AnnAssign)) and isinstance(st.value, ast.Dict):
            tg = st.targets[0] if isinstance(st, ast.Assign) else st.target
            if isinstance(tg, ast.Name) and tg.id == "HTTP_EXCEPTION_NAMES":
                aliases = {const_str(v) for v in st.value.values if const_str(v)}
    rep.require(len(aliases) >= 20, f"{rule}: HTTP_EXCEPTION_NAMES has {len(aliases)} literal entries (floor 20)")
    # (3) the set the models emitter consults
    me = repo.module("emitters.models_emitter")
    emit = me.classes["ModelsEmitter"].methods.get("emit") if "ModelsEmitter" in me.classes else None
    if emit is None:
        raise AnalysisError(f"{rule}: anchor vanished: ModelsEmitter.emit")
    consts: Dict[str, ast.AST] = {}
    for st in me.tree.body:
        if isinstance(st, (ast.Assign, ast.AnnAssign)) and st.value is not None:
            tg = st.targets[0] if isinstance(st, ast.Assign) else st.target
            if isinstance(tg, ast.Name):
                consts[tg.id] = st.value
    refused: Set[str] = set()
    consulted = []
    for x in ast.walk(emit.node):
        if isinstance(x, ast.Compare) and len(x.ops) == 1 and isinstance(x.ops[0], ast.In) and isinstance(x.comparators[0], ast.Name) and x.comparators[0].id in consts:
            v = consts[x.comparators[0].id]
            lits = {const_str(e) for e in ast.walk(v) if isinstance(e, ast.Constant) and isinstance(e.value, str)}
            if any(isinstance(e, ast.Name) and e.id == "HTTP_EXCEPTION_NAMES" for e in ast.walk(v)):
                lits |= aliases
            if lits:
                consulted.append(x)
                refused |= {l for l in lits if l}
    sub = f"{me.relpath}:ModelsEmitter.emit class names vs. names the endpoint modules use themselves"
    need = {**{a: f"{hs.relpath}:1" for a in sorted(aliases)}, **used}
    # a class name comes out of sanitize_class_name, which joins `word.capitalize()` pieces: no two capitals in a row - `HTTPError` becomes `HttpError`
    scn = repo.module("core.utils").classes["NameSanitizer"].methods.get("sanitize_class_name")
    if scn is not None and any(isinstance(c, ast.Call) and isinstance(c.func, ast.Attribute) and c.func.attr == "capitalize" for c in ast.walk(scn.node)):
        need = {n_: w_ for n_, w_ in need.items() if not _re.search(r"[A-Z]{2}", n_)}
    missing = sorted(n for n in need if n not in refused)
    if missing:
        rep.violation(rule, sub, f"{emit.fq}|model-class-shadows-endpoint-name|{','.join(missing[:6])}{'...' if len(missing) > 6 else ''}",
                      f"a schema called {missing[:5]}{' ...' if len(missing) > 5 else ''} keeps that class name, and every endpoint module that mentions the model imports it after its own import of the "
                      "same name: `class XClientProtocol(Protocol)` / `raise NotFoundError(response=response)` then use the dataclass - the module cannot be imported, or a declared "
                      f"error status raises TypeError instead of an HTTPError ({len(missing)} unprotected name(s))", emit.loc(consulted[0]) if consulted else emit.loc())
    else:
        rep.ok(rule, sub, f"{len(need)} names ({len(aliases)} exception aliases, {sorted(used)}) are refused by the class-name de-collision", emit.loc(consulted[0]))


# ------------------------------------------------------------------------------------------------ R20.14 every signature builder de-collides argument names
def rule_signature_builders_decollide(repo: Repo, rep, rule: str = "R20.14") -> None:
    """`EndpointParameterProcessor.process_parameters` makes the Python names of an operation's parameters unique (and keeps them apart from the body
    argument).  A class that builds a signature from `op.parameters` on its own - `f"{sanitize_method_name(param.name)}: {type}"` appended to the
    argument list in a loop over the parameters - has none of that: path `id` + query `id`, a header `Content-Type` next to the builder's own
    `content_type`, a query parameter `body` give the same argument twice (`ast.parse` accepts it, `compile()` / import does not).  Decided over
    visit/endpoint, one instance per class (so that moving the loop between methods of the class does not change the finding): every loop over
    `<op>.parameters` that appends such a text tests the name against a collection of used names first."""
    n = 0
    per_owner: Dict[str, List] = {}
    for mn, mod in sorted(repo.modules.items()):
        if ".visit.endpoint" not in mn:
            continue
        for q, fn in sorted(mod.functions.items()):
            if "<locals>" in q:
                continue
            for lp in [x for x in own_nodes(fn.node) if isinstance(x, ast.For) and isinstance(x.iter, ast.Attribute) and x.iter.attr == "parameters" and isinstance(x.target, ast.Name)]:
                pv = lp.target.id
                derived = {t.id for st in ast.walk(lp) if isinstance(st, ast.Assign) and isinstance(st.value, ast.Call) and isinstance(st.value.func, ast.Attribute)
                           and st.value.func.attr.startswith("sanitize_") and any(isinstance(a, ast.Attribute) and a.attr == "name" and isinstance(a.value, ast.Name) and a.value.id == pv for a in st.value.args)
                           for t in st.targets if isinstance(t, ast.Name)}
                apps = [c for c in ast.walk(lp) if isinstance(c, ast.Call) and isinstance(c.func, ast.Attribute) and c.func.attr == "append" and c.args and isinstance(c.args[0], ast.JoinedStr)
                        and any(isinstance(v, ast.FormattedValue) and isinstance(v.value, ast.Name) and v.value.id in derived for v in c.args[0].values)
                        and ":" in "".join(v.value for v in c.args[0].values if isinstance(v, ast.Constant) and isinstance(v.value, str))]
                if not derived or not apps:
                    continue
                n += 1
                probed = any(isinstance(x, ast.Compare) and len(x.ops) == 1 and isinstance(x.ops[0], (ast.In, ast.NotIn)) and isinstance(x.left, ast.Name) and x.left.id in derived for x in ast.walk(lp))
                owner = f"{mod.name}:{fn.cls.name}" if fn.cls is not None else fn.fq
                per_owner.setdefault(owner, []).append((fn, lp, apps[0], probed))
    for owner, items in sorted(per_owner.items()):
        bad = [(f_, lp_, a_) for f_, lp_, a_, ok_ in items if not ok_]
        f0 = items[0][0]
        sub = f"{f0.module.relpath}:{owner.split(':')[-1]} argument names built from `<op>.parameters`"
        if not bad:
            rep.ok(rule, sub, f"{len(items)} loop(s): the derived name is tested against the names already used before it is appended", f0.loc(items[0][1]))
        else:
            f_, lp_, a_ = bad[0]
            rep.violation(rule, sub, f"{owner}|signature-builder-without-decollision",
                          f"`{norm(a_)[:70]}` ({len(bad)} loop(s): {', '.join(sorted({x[0].name for x in bad}))}): the argument name is the sanitised parameter name as it is - two parameters "
                          "that sanitise alike (path `id` + query `id`), or a parameter named like an argument this builder adds itself (`content_type`, `body`, `files`), give "
                          "`def f(self, x, x)`: the endpoint, mock and client modules do not compile", f_.loc(a_))
    if n == 0:
        rep.ok(rule, "visit/endpoint signature builders", "no function builds argument names from `op.parameters` on its own (all go through the parameter processor)", "src/pyopenapi_gen/visit/endpoint:1")
