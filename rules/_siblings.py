"""Sibling-agreement helpers shared by C05 / C07 / C13 / C19."""
from __future__ import annotations

import ast
from typing import List, Optional, Tuple

from sa.model import Function, const_str, dotted, norm, own_nodes

Rule = Tuple[str, str]


def _status_eq(test: ast.AST) -> Optional[Tuple[str, ast.AST]]:
    """`x.status_code == <v>` -> ('eq', v-node); `x.status_code.startswith(<c>)` -> ('startswith', c-node);
    `x.status_code in <seq>` -> ('in', seq-node)."""
    if isinstance(test, ast.Compare) and len(test.ops) == 1 and isinstance(test.left, ast.Attribute) and test.left.attr == "status_code":
        if isinstance(test.ops[0], ast.Eq):
            return "eq", test.comparators[0]
        if isinstance(test.ops[0], ast.In):
            return "in", test.comparators[0]
    if isinstance(test, ast.Call) and isinstance(test.func, ast.Attribute) and test.func.attr == "startswith" \
            and isinstance(test.func.value, ast.Attribute) and test.func.value.attr == "status_code" and test.args:
        return "startswith", test.args[0]
    return None


def _first_match_of(st: ast.stmt) -> Optional[Tuple[str, ast.AST]]:
    """A statement that returns the first response satisfying a status test, in either idiom:
         for r in <responses>: if <test(r)>: return r
         x = next((r for r in <responses> if <test(r)>), None)   [followed by `if x: return x`]"""
    if isinstance(st, ast.For) and len(st.body) == 1 and isinstance(st.body[0], ast.If) and not st.orelse:
        iff = st.body[0]
        if len(iff.body) == 1 and isinstance(iff.body[0], ast.Return) and not iff.orelse and isinstance(st.target, ast.Name) \
                and isinstance(iff.body[0].value, ast.Name) and iff.body[0].value.id == st.target.id and "responses" in norm(st.iter):
            return _status_eq(iff.test)
    if isinstance(st, ast.Assign) and isinstance(st.value, ast.Call) and dotted(st.value.func) == "next" and st.value.args:
        g = st.value.args[0]
        if isinstance(g, ast.GeneratorExp) and len(g.generators) == 1 and len(g.generators[0].ifs) == 1 and "responses" in norm(g.generators[0].iter):
            return _status_eq(g.generators[0].ifs[0])
    return None


def priority_signature(fn: Function) -> List[Rule]:
    """Normal form of a primary-response selector: ordered list of rules
         ('eq', code) | ('startswith', prefix) | ('in', codes) | ('first', '') | ('unknown', text)."""
    sig: List[Rule] = []
    body = [s for s in fn.node.body if not (isinstance(s, ast.Expr) and isinstance(s.value, ast.Constant))]  # type: ignore[attr-defined]
    i = 0
    while i < len(body):
        st = body[i]
        nxt = body[i + 1] if i + 1 < len(body) else None
        # guard `if not op.responses: return None` / `resp = None`
        if isinstance(st, ast.If) and isinstance(st.test, ast.UnaryOp) and isinstance(st.test.op, ast.Not) and "responses" in norm(st.test) \
                and len(st.body) == 1 and isinstance(st.body[0], ast.Return) and (st.body[0].value is None or norm(st.body[0].value) == "None"):
            i += 1
            continue
        if isinstance(st, ast.Assign) and isinstance(st.value, ast.Constant) and st.value.value is None:
            i += 1
            continue
        # for code in [..]: <first-match with == code>
        if isinstance(st, ast.For) and isinstance(st.iter, (ast.List, ast.Tuple)) and isinstance(st.target, ast.Name):
            codes = [const_str(e) for e in st.iter.elts]
            inner = [s for s in st.body]
            fm = _first_match_of(inner[0]) if inner else None
            ok_tail = len(inner) == 1 or (len(inner) == 2 and isinstance(inner[1], ast.If) and len(inner[1].body) == 1 and isinstance(inner[1].body[0], ast.Return))
            if all(c is not None for c in codes) and fm is not None and fm[0] == "eq" and isinstance(fm[1], ast.Name) and fm[1].id == st.target.id and ok_tail:
                sig += [("eq", c) for c in codes]  # type: ignore[misc]
                i += 1
                continue
            sig.append(("unknown", norm(st)[:80]))
            i += 1
            continue
        fm = _first_match_of(st)
        if fm is not None:
            kind, node = fm
            if kind == "in" and isinstance(node, (ast.List, ast.Tuple, ast.Set)):
                sig.append(("in", ",".join(str(const_str(e)) for e in node.elts)))
            elif const_str(node) is not None:
                sig.append((kind, const_str(node) or ""))
            else:
                sig.append(("unknown", norm(st)[:80]))
            # skip the `if x: return x` that follows a next(...)
            if isinstance(st, ast.Assign) and isinstance(nxt, ast.If) and len(nxt.body) == 1 and isinstance(nxt.body[0], ast.Return):
                i += 2
            else:
                i += 1
            continue
        # first response fallback
        txt = norm(st)
        if isinstance(st, ast.Return) and "responses[0]" in txt:
            sig.append(("first", ""))
            i += 1
            continue
        if isinstance(st, ast.If) and "responses" in norm(st.test) and len(st.body) == 1 and isinstance(st.body[0], ast.Return) and "responses[0]" in norm(st.body[0]):
            sig.append(("first", ""))
            i += 1
            continue
        if isinstance(st, ast.Return) and (st.value is None or norm(st.value) == "None"):
            i += 1
            continue
        sig.append(("unknown", txt[:80]))
        i += 1
    return sig


def kw_signature(call: ast.Call) -> Tuple[int, Tuple[str, ...]]:
    return len(call.args), tuple(sorted(k.arg or "**" for k in call.keywords))
