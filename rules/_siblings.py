"""Sibling-agreement helpers shared by C05 / C07 / C13 / C19."""
from __future__ import annotations

import ast
from typing import List, Optional, Tuple

from sa.model import Function, const_str, dotted, norm, own_nodes

Rule = Tuple[str, str]


def _negate(t: ast.AST) -> ast.AST:
    if isinstance(t, ast.UnaryOp) and isinstance(t.op, ast.Not):
        return t.operand
    if isinstance(t, ast.Compare) and len(t.ops) == 1:
        inv = {ast.NotEq: ast.Eq, ast.Eq: ast.NotEq, ast.NotIn: ast.In, ast.In: ast.NotIn}.get(type(t.ops[0]))
        if inv is not None:
            return ast.Compare(left=t.left, ops=[inv()], comparators=t.comparators)
    return ast.UnaryOp(op=ast.Not(), operand=t)


def _status_eq(test: ast.AST) -> Optional[Tuple[str, ast.AST]]:
    from sa.match import canon_compare

    test = canon_compare(test)
    if isinstance(test, ast.Compare) and len(test.ops) == 1 and isinstance(test.ops[0], ast.Eq) and not (isinstance(test.left, ast.Attribute) and test.left.attr == "status_code") \
            and isinstance(test.comparators[0], ast.Attribute) and test.comparators[0].attr == "status_code":
        test = ast.Compare(left=test.comparators[0], ops=[ast.Eq()], comparators=[test.left])  # code == r.status_code
    """`x.status_code == <v>` -> ('eq', v-node); `x.status_code.startswith(<c>)` -> ('startswith', c-node);
    `x.status_code in <seq>` -> ('in', seq-node)."""
    if isinstance(test, ast.Compare) and len(test.ops) == 1 and isinstance(test.left, ast.Attribute) and test.left.attr == "status_code":
        if isinstance(test.ops[0], ast.Eq):
            return "eq", test.comparators[0]
        if isinstance(test.ops[0], ast.In):
            return "in", test.comparators[0]
    if isinstance(test, ast.Call) and isinstance(test.func, ast.Attribute) and test.func.attr == "startswith" \
            and isinstance(test.func.value, ast.Attribute) and test.func.value.attr == "status_code" and test.args:
        return "startswith", test.args[0]
    return None


def _first_match_of(st: ast.stmt) -> Optional[Tuple[str, ast.AST]]:
    """A statement that returns the first response satisfying a status test, in either idiom:
         for r in <responses>: if <test(r)>: return r
         x = next((r for r in <responses> if <test(r)>), None)   [followed by `if x: return x`]"""
    if isinstance(st, ast.For) and len(st.body) == 2 and isinstance(st.body[0], ast.If) and not st.orelse and not st.body[0].orelse \
            and len(st.body[0].body) == 1 and isinstance(st.body[0].body[0], ast.Continue) and isinstance(st.body[1], ast.Return) \
            and isinstance(st.target, ast.Name) and isinstance(st.body[1].value, ast.Name) and st.body[1].value.id == st.target.id and "responses" in norm(st.iter):
        # guard-clause idiom: `if not <test>: continue` / `return r`
        return _status_eq(_negate(st.body[0].test))
    if isinstance(st, ast.For) and len(st.body) == 1 and isinstance(st.body[0], ast.If) and not st.orelse:
        iff = st.body[0]
        if len(iff.body) == 1 and isinstance(iff.body[0], ast.Return) and not iff.orelse and isinstance(st.target, ast.Name) \
                and isinstance(iff.body[0].value, ast.Name) and iff.body[0].value.id == st.target.id and "responses" in norm(st.iter):
            return _status_eq(iff.test)
    if isinstance(st, ast.Assign) and isinstance(st.value, ast.Call) and dotted(st.value.func) == "next" and st.value.args:
        g = st.value.args[0]
        if isinstance(g, ast.GeneratorExp) and len(g.generators) == 1 and len(g.generators[0].ifs) == 1 and "responses" in norm(g.generators[0].iter):
            return _status_eq(g.generators[0].ifs[0])
    return None


def priority_signature(fn: Function) -> List[Rule]:
    """Normal form of a primary-response selector: ordered list of rules
         ('eq', code) | ('startswith', prefix) | ('in', codes) | ('first', '') | ('unknown', text)."""
    from sa.match import Locals

    L = Locals(fn.node)
    sig: List[Rule] = []
    body = [s for s in fn.node.body if not (isinstance(s, ast.Expr) and isinstance(s.value, ast.Constant))]  # type: ignore[attr-defined]
    # `declared = operation.responses`: a local alias of the searched list is written out (the rules below read `<x>.responses`)
    alias = {}
    for st in body:
        if isinstance(st, ast.Assign) and len(st.targets) == 1 and isinstance(st.targets[0], ast.Name) and isinstance(st.value, ast.Attribute) and st.value.attr == "responses" \
                and L.single(st.targets[0].id) is not None:
            alias[st.targets[0].id] = st.value
    if alias:
        import copy

        class _Sub(ast.NodeTransformer):
            def visit_Name(self, node):  # noqa: N802
                return copy.deepcopy(alias[node.id]) if node.id in alias and isinstance(node.ctx, ast.Load) else node

        body = [st if (isinstance(st, ast.Assign) and isinstance(st.targets[0], ast.Name) and st.targets[0].id in alias) else ast.fix_missing_locations(_Sub().visit(copy.deepcopy(st)))
                for st in body]
    i = 0
    while i < len(body):
        st = body[i]
        nxt = body[i + 1] if i + 1 < len(body) else None
        # guard `if not op.responses: return None` / `resp = None`
        if isinstance(st, ast.If) and "responses" in norm(st.test) and not any(isinstance(x, ast.Attribute) and x.attr == "status_code" for x in ast.walk(st.test)) \
                and all(isinstance(x.value, int) or x.value is None for x in ast.walk(st.test) if isinstance(x, ast.Constant)) and not st.orelse \
                and len(st.body) == 1 and isinstance(st.body[0], ast.Return) and (st.body[0].value is None or norm(st.body[0].value) == "None"):
            i += 1
            continue
        if isinstance(st, ast.Assign) and isinstance(st.value, ast.Constant) and st.value.value is None:
            i += 1
            continue
        if isinstance(st, ast.Assign) and isinstance(st.targets[0], ast.Name) and isinstance(st.value, ast.Attribute) and st.value.attr == "responses":
            i += 1  # `responses = operation.responses`: an alias of the list that is searched
            continue
        # for code in [..]: <first-match with == code>
        it = L.inline(st.iter) if isinstance(st, ast.For) else None
        if isinstance(st, ast.Assign) and isinstance(st.value, (ast.List, ast.Tuple)) and all(const_str(e) is not None for e in st.value.elts) \
                and isinstance(st.targets[0], ast.Name) and L.single(st.targets[0].id) is not None:
            i += 1  # the priority list bound to a local; it is inlined where it is iterated
            continue
        if isinstance(st, ast.For) and isinstance(it, (ast.List, ast.Tuple)) and isinstance(st.target, ast.Name):
            codes = [const_str(e) for e in it.elts]
            inner = [s for s in st.body]
            fm = _first_match_of(inner[0]) if inner else None
            ok_tail = len(inner) == 1 or (len(inner) == 2 and isinstance(inner[1], ast.If) and len(inner[1].body) == 1 and isinstance(inner[1].body[0], ast.Return))
            if all(c is not None for c in codes) and fm is not None and fm[0] == "eq" and isinstance(fm[1], ast.Name) and fm[1].id == st.target.id and ok_tail:
                sig += [("eq", c) for c in codes]  # type: ignore[misc]
                i += 1
                continue
            sig.append(("unknown", norm(st)[:80]))
            i += 1
            continue
        fm = _first_match_of(st)
        if fm is not None:
            kind, node = fm
            if kind == "in" and isinstance(node, (ast.List, ast.Tuple, ast.Set)):
                sig.append(("in", ",".join(str(const_str(e)) for e in node.elts)))
            elif const_str(node) is not None:
                sig.append((kind, const_str(node) or ""))
            else:
                sig.append(("unknown", norm(st)[:80]))
            # skip the `if x: return x` that follows a next(...)
            if isinstance(st, ast.Assign) and isinstance(nxt, ast.If) and len(nxt.body) == 1 and isinstance(nxt.body[0], ast.Return):
                i += 2
            else:
                i += 1
            continue
        # first response fallback
        txt = norm(st)
        if isinstance(st, ast.Return) and "responses[0]" in txt:
            sig.append(("first", ""))
            i += 1
            continue
        if isinstance(st, ast.If) and "responses" in norm(st.test) and len(st.body) == 1 and isinstance(st.body[0], ast.Return) and "responses[0]" in norm(st.body[0]):
            sig.append(("first", ""))
            i += 1
            continue
        if isinstance(st, ast.Return) and (st.value is None or norm(st.value) == "None"):
            i += 1
            continue
        # a choice by *ordering* of status codes (min / max / sorted over responses) is understood - and is not a priority list
        ordering = [c for c in ast.walk(st) if isinstance(c, ast.Call) and (dotted(c.func) in ("min", "max", "sorted") or (
            isinstance(c.func, ast.Attribute) and c.func.attr == "sort")) and any(isinstance(x, ast.Attribute) and x.attr == "status_code" for x in ast.walk(c))]
        if ordering:
            sig.append(("order", dotted(ordering[0].func) or "sort"))
            i += 1
            continue
        if isinstance(st, ast.Assign) and isinstance(st.value, (ast.ListComp, ast.GeneratorExp)) and "responses" in norm(st.value.generators[0].iter) \
                and isinstance(nxt, ast.If) and any(isinstance(c, ast.Call) and dotted(c.func) in ("min", "max", "sorted") for c in ast.walk(nxt)):
            i += 1  # the candidate list of an ordering choice that follows
            continue
        sig.append(("unknown", txt[:80]))
        i += 1
    return sig


def kw_signature(call: ast.Call) -> Tuple[int, Tuple[str, ...]]:
    return len(call.args), tuple(sorted(k.arg or "**" for k in call.keywords))


def return_signature(fn: Function, rename: dict) -> List[str]:
    """Sorted normal forms of the function's return expressions: locals / parameters replaced by their order of first appearance in the
    function, attribute and string constants mapped through `rename` (e.g. one_of -> X_of) - the idiom of loops and temporaries does not
    enter, only *what* is returned."""
    from sa.match import Locals, clone

    L = Locals(fn.node)
    order: dict = {}
    for n in ast.walk(fn.node):
        if isinstance(n, ast.arg):
            order.setdefault(n.arg, f"v{len(order)}")
    for n in ast.walk(fn.node):
        if isinstance(n, ast.Name) and (n.id in L.defs) and isinstance(n.ctx, ast.Store):
            order.setdefault(n.id, f"v{len(order)}")
    out = []
    for r in own_nodes(fn.node):
        if isinstance(r, ast.Return) and r.value is not None:
            c = clone(r.value)
            for x in ast.walk(c):
                if isinstance(x, ast.Name) and x.id in order:
                    x.id = order[x.id]
                elif isinstance(x, ast.Attribute) and x.attr in rename:
                    x.attr = rename[x.attr]
                elif isinstance(x, ast.Constant) and isinstance(x.value, str) and x.value in rename:
                    x.value = rename[x.value]
            out.append(ast.unparse(c))
    return sorted(out)
