"""C11 - clients sharing one core keep working as more are generated.

R11.1  registry read-modify-write-union: the dict loaded from the registry file is the one updated and dumped;
       every return of _update_registry is the union over *all* clients; emit regenerates code *and* names from it;
       the registry key is the client's full dotted package name
R11.2  the "shared core" predicate holds for every layout (core outside the client package at any depth, or embedded in it and re-used later)
       (the predicate's AST is evaluated over symbolic directory layouts of depth 1..4 by a path-algebra interpreter)
R11.6  the generator rescues / seeds the registry under the file name the emitter reads and writes (writer / reader agreement)
R11.7  emitted line lists are joined with a real line break (a one-line `__init__.py` re-exports nothing)                    [= R1.20]
R11.5  a removal of the output package that precedes the exception emitter carries the registry of a contained core over (read before, written back after)
R11.4  the import header of the regenerated alias file covers every base class the union of codes can need
R11.8  no delete operation of the generator targets a path derived from the core package (other clients may live below the core / import its modules)
R11.3  core emission is additive: the core/exception emitters never delete, and always (re)write what they own
"""
from __future__ import annotations

import ast
import itertools
from typing import Any, Dict, List, Optional, Set, Tuple

from sa.cfg import CFG
from sa.model import AnalysisError, Function, Repo, calls_in, const_str, dotted, norm, own_nodes
from sa.paths import Provenance
from sa.report import Report

EE = "emitters.exceptions_emitter"


class _Unsupported(Exception):
    pass


class _Return(Exception):
    def __init__(self, v: Any):
        self.v = v


class PathAlgebra:
    """Interprets a small, side-effect-free fragment of Python over pure paths (tuples of segments). It is applied to
    the *AST* of the predicate; the repository code itself is never executed."""

    def __init__(self, env: Dict[str, Any], methods: Optional[Dict[str, Any]] = None):
        self.env = dict(env)
        self.methods = methods or {}  # name -> Function: predicate methods of the class, interpreted when called as `self.<name>(...)`

    def run(self, fn_node: ast.AST) -> Any:
        try:
            self.block(fn_node.body)  # type: ignore[attr-defined]
        except _Return as r:
            return r.v
        return None

    def block(self, stmts: List[ast.stmt]) -> None:
        for st in stmts:
            if isinstance(st, ast.Expr) and isinstance(st.value, ast.Constant):
                continue
            if isinstance(st, (ast.Import, ast.ImportFrom, ast.Pass)):
                continue  # local imports only bind module/class names (Path, os) that ev() recognises by name
            if isinstance(st, ast.Return):
                raise _Return(self.ev(st.value) if st.value is not None else None)
            if isinstance(st, ast.Assign) and len(st.targets) == 1 and isinstance(st.targets[0], ast.Name):
                self.env[st.targets[0].id] = self.ev(st.value)
                continue
            if isinstance(st, ast.AnnAssign) and isinstance(st.target, ast.Name) and st.value is not None:
                self.env[st.target.id] = self.ev(st.value)
                continue
            if isinstance(st, ast.If):
                if self.ev(st.test):
                    self.block(st.body)
                else:
                    self.block(st.orelse)
                continue
            raise _Unsupported(f"statement {type(st).__name__}: {norm(st)[:60]}")

    def ev(self, e: ast.AST) -> Any:
        if isinstance(e, ast.Constant):
            return e.value
        if isinstance(e, ast.Name):
            if e.id in self.env:
                return self.env[e.id]
            raise _Unsupported(f"name {e.id}")
        if isinstance(e, ast.Attribute):
            d = dotted(e)
            if d in self.env:
                return self.env[d]
            v = self.ev(e.value)
            if isinstance(v, tuple):
                if e.attr == "parent":
                    return v[:-1] if len(v) > 1 else v
                if e.attr == "parents":
                    return [v[:i] for i in range(len(v) - 1, 0, -1)]
                if e.attr == "name":
                    return v[-1]
                if e.attr == "parts":
                    return v
            raise _Unsupported(f"attribute {norm(e)}")
        if isinstance(e, (ast.Tuple, ast.List, ast.Set)):
            return [self.ev(x) for x in e.elts]
        if isinstance(e, ast.IfExp):
            return self.ev(e.body) if self.ev(e.test) else self.ev(e.orelse)
        if isinstance(e, ast.BoolOp):
            if isinstance(e.op, ast.And):
                r: Any = True
                for v in e.values:
                    r = self.ev(v)
                    if not r:
                        return r
                return r
            r = False
            for v in e.values:
                r = self.ev(v)
                if r:
                    return r
            return r
        if isinstance(e, ast.UnaryOp) and isinstance(e.op, ast.Not):
            return not self.ev(e.operand)
        if isinstance(e, ast.Compare):
            left = self.ev(e.left)
            ok = True
            for op, c in zip(e.ops, e.comparators):
                right = self.ev(c)
                if isinstance(op, ast.Eq):
                    r = left == right
                elif isinstance(op, ast.NotEq):
                    r = left != right
                elif isinstance(op, (ast.In, ast.NotIn)):
                    if isinstance(left, tuple) and isinstance(right, tuple) and all(isinstance(x, str) for x in right):
                        # str(<path>) in str(<path>): substring test on the renderings
                        r = ("/" + "/".join(left)) in ("/" + "/".join(right))
                    else:
                        r = left in right
                    if isinstance(op, ast.NotIn):
                        r = not r
                elif isinstance(op, ast.Is):
                    r = left is right
                elif isinstance(op, ast.IsNot):
                    r = left is not right
                elif isinstance(op, (ast.Lt, ast.LtE, ast.Gt, ast.GtE)) and isinstance(left, int) and isinstance(right, int):
                    r = {ast.Lt: left < right, ast.LtE: left <= right, ast.Gt: left > right, ast.GtE: left >= right}[type(op)]
                else:
                    raise _Unsupported(f"comparison {norm(e)}")
                ok = ok and r
                left = right
            return ok
        if isinstance(e, ast.BinOp) and isinstance(e.op, ast.Div):
            a, b = self.ev(e.left), self.ev(e.right)
            if isinstance(a, tuple) and isinstance(b, str):
                return a + tuple(x for x in b.split("/") if x)
            raise _Unsupported(f"division {norm(e)}")
        if isinstance(e, ast.Call):
            name = dotted(e.func)
            if isinstance(e.func, ast.Attribute) and isinstance(e.func.value, ast.Name) and e.func.value.id == "self" and e.func.attr in self.methods:
                h = self.methods[e.func.attr]
                hp = [p_ for p_ in h.params if p_ != "self"]
                henv = {k: v for k, v in self.env.items() if k.startswith("self.") or k == "None"}
                for i_, a_ in enumerate(e.args):
                    if i_ < len(hp):
                        henv[hp[i_]] = self.ev(a_)
                for k_ in e.keywords:
                    if k_.arg in hp:
                        henv[k_.arg] = self.ev(k_.value)
                return PathAlgebra(henv, self.methods).run(h.node)
            if name in ("Path", "pathlib.Path", "str", "os.path.abspath", "os.path.realpath", "os.path.normpath") and len(e.args) == 1:
                return self.ev(e.args[0])
            if name == "len" and len(e.args) == 1:
                return len(self.ev(e.args[0]))
            if name == "bool" and len(e.args) == 1:
                return bool(self.ev(e.args[0]))
            if name == "os.path.dirname" and len(e.args) == 1:
                v = self.ev(e.args[0])
                return v[:-1]
            if isinstance(e.func, ast.Attribute):
                recv = self.ev(e.func.value)
                m = e.func.attr
                if isinstance(recv, tuple):
                    if m in ("resolve", "absolute", "expanduser") and not e.args:
                        return recv
                    if m == "joinpath":
                        out = recv
                        for a in e.args:
                            if isinstance(a, ast.Starred):
                                out = out + tuple(self.ev(a.value))
                            else:
                                v = self.ev(a)
                                out = out + (tuple(x for x in v.split("/") if x) if isinstance(v, str) else tuple(v))
                        return out
                    if m in ("startswith", "endswith", "count") and len(e.args) == 1:
                        # a string method applied to str(<path>): evaluate it on the POSIX renderings ("/R/acme/api")
                        a = self.ev(e.args[0])
                        if isinstance(a, tuple):
                            a = "/" + "/".join(a)
                        return getattr("/" + "/".join(recv), m)(a)
                    if m == "is_relative_to" and len(e.args) == 1:
                        o = self.ev(e.args[0])
                        return recv[: len(o)] == o
                    if m == "relative_to" and len(e.args) == 1:
                        o = self.ev(e.args[0])
                        if recv[: len(o)] != o:
                            raise _Unsupported("relative_to on unrelated paths (would raise)")
                        return recv[len(o):]
                if isinstance(recv, str):
                    if m == "split" and len(e.args) == 1:
                        return recv.split(self.ev(e.args[0]))
                    if m in ("startswith", "endswith") and len(e.args) == 1:
                        a = self.ev(e.args[0])
                        if isinstance(a, tuple):
                            a = "/" + "/".join(a)
                        return getattr(recv, m)(a)
                    if m == "count" and len(e.args) == 1:
                        return recv.count(self.ev(e.args[0]))
            raise _Unsupported(f"call {norm(e)[:60]}")
        raise _Unsupported(f"expression {type(e).__name__}: {norm(e)[:60]}")


def layouts() -> List[Dict[str, Any]]:
    """Symbolic project layouts: root=('R',); client package depth 1..3; core either embedded in the client package
    or outside it at depth 1..4."""
    out = []
    root = ("R",)
    for cdepth in (1, 2, 3):
        client_pkg = ".".join(["apis", "v1", "orders"][:cdepth - 1] + ["client"]) if cdepth > 1 else "client"
        client_dir = root + tuple(client_pkg.split("."))
        # embedded
        out.append(dict(kind="embedded", client_pkg=client_pkg, core_dir=client_dir + ("core",), root=root))
        # outside, depth k
        for k in (1, 2, 3, 4):
            core_pkg = ["shared", "x", "y", "core"][4 - k:]
            core_pkg[-1] = "core"
            core_dir = root + tuple(["shared", "x", "y"][: k - 1]) + ("core",)
            out.append(dict(kind=f"outside-depth{k}", client_pkg=client_pkg, core_dir=core_dir, root=root))
        # textual-prefix siblings: the core's path *string* starts with the client's path string although the core is not
        # inside the client package (acme/api vs acme/api_shared/core): catches string-prefix tests used for containment
        out.append(dict(kind="prefix-sibling-depth2", client_pkg=client_pkg, core_dir=client_dir[:-1] + (client_dir[-1] + "_shared", "core"), root=root))
        out.append(dict(kind="prefix-sibling-depth3", client_pkg=client_pkg, core_dir=client_dir[:-1] + (client_dir[-1] + "_shared", "rt", "core"), root=root))
        # sibling inside the same parent package as the client (e.g. apis.v1.core next to apis.v1.client)
        if cdepth > 1:
            out.append(dict(kind="sibling-in-parent-package", client_pkg=client_pkg, core_dir=client_dir[:-1] + ("core",), root=root))
    return out


def check_emit_regeneration(repo: Repo, rep, rule: str = "R11.1") -> None:
    mod = repo.module(EE)
    emit = mod.classes["ExceptionsEmitter"].methods["emit"]
    # ---------------------------------------------------------------- R11.1 emit uses the union for code AND names
    sub1 = f"{mod.relpath}:ExceptionsEmitter.emit"
    cfg = CFG(emit.node)
    dom = cfg.dominators()
    ucalls = [n for n in own_nodes(emit.node) if isinstance(n, ast.Assign) and isinstance(n.value, ast.Call) and dotted(n.value.func) == "self._update_registry"]
    gcalls = [n for n in own_nodes(emit.node) if isinstance(n, ast.Assign) and isinstance(n.value, ast.Call) and dotted(n.value.func) == "self._generate_for_codes"]
    rep.require(len(ucalls) == 1 and len(gcalls) == 1, f"R11.1: emit must call _update_registry and _generate_for_codes once each (found {len(ucalls)}/{len(gcalls)})")
    if ucalls and gcalls:
        allv = norm(ucalls[0].targets[0])
        g = gcalls[0]
        arg_ok = g.value.args and norm(g.value.args[0]) == allv
        tgt = g.targets[0]
        # the names written into the file and returned
        writes = [c for c in calls_in(emit.node) if isinstance(c.func, ast.Attribute) and c.func.attr == "write" and c.args]
        rets = [n for n in own_nodes(emit.node) if isinstance(n, ast.Return) and isinstance(n.value, ast.Tuple)]
        ret_names = norm(rets[0].value.elts[1]) if rets and len(rets[0].value.elts) == 2 else "?"
        prov = Provenance(emit)
        code_vars = set()
        if writes:
            code_vars = {x.id for w_ in writes for x in ast.walk(w_.args[0]) if isinstance(x, ast.Name)}
            for nm in list(code_vars):
                for d in prov.defs.get(nm, []):
                    code_vars |= {x.id for x in ast.walk(d) if isinstance(x, ast.Name)}
        tnames = [norm(t) for t in tgt.elts] if isinstance(tgt, ast.Tuple) else [norm(tgt)]
        both = len(tnames) == 2 and tnames[0] in code_vars and tnames[1] == ret_names
        if arg_ok and both:
            rep.ok(rule, sub1 + " regenerates from the union", f"`{norm(g)[:80]}`: code and alias names both come from the union", emit.loc(g))
        else:
            rep.violation(rule, sub1 + " regenerates from the union", f"{emit.fq}|regen",
                          f"`{norm(g)}`: the file content / the exported alias names are not both regenerated from the union of all clients' "
                          f"codes (argument `{norm(g.value.args[0]) if g.value.args else ''}`, targets {tnames}, written vars need `{ret_names}` and code): "
                          "other clients' exceptions disappear from the core's exports", emit.loc(g))
        # guard of the registry branch: only (client name given) and (shared predicate)
        un = [n for n in cfg.nodes if n.ast is ucalls[0]]
        gs = [cfg.nodes[d] for d in dom[un[0].id] if cfg.nodes[d].kind == "test"] if un else []
        extra = []
        from sa.match import Locals as _Locals, conjuncts as _conjuncts

        EL = _Locals(emit.node)
        for x in gs:
            for cj in _conjuncts(x.ast, EL, stop=tuple(EL.params)):
                if "_is_shared_core" in norm(cj) or (isinstance(cj, ast.Name) and cj.id in emit.params):
                    continue
                # the shared-core predicate written in place: an expression over the emitter's own state and parameters (evaluated by R11.2)
                if {x.id for x in ast.walk(cj) if isinstance(x, ast.Name)} <= set(emit.params) | {"self", "Path", "bool", "str", "len"} and not any(
                        isinstance(x, ast.Call) and isinstance(x.func, ast.Attribute) and x.func.attr in ("exists", "is_file", "is_dir", "isfile", "isdir", "stat", "listdir")
                        for x in ast.walk(cj)):
                    continue  # (a test of the file system is not a layout predicate: "only when the registry already exists" skips the first client)
                extra.append(norm(cj))
        if gs and not extra:
            rep.ok(rule, sub1 + " registry guard", f"registry consulted under `{norm(gs[0].ast)}` only", emit.loc(gs[0].ast))
        else:
            rep.violation(rule, sub1 + " registry guard", f"{emit.fq}|guard|{extra}",
                          f"the registry update is guarded by additional conditions {extra}", emit.loc(ucalls[0]))
        # the registry file lives in the core directory the aliases are written to
        rp = [n for n in own_nodes(emit.node) if isinstance(n, ast.Assign) and norm(n.targets[0]) == norm(ucalls[0].value.args[0])] if ucalls[0].value.args else []
        fp = [n for n in own_nodes(emit.node) if isinstance(n, ast.Assign) and "exception_aliases.py" in norm(n.value)]
        if rp and fp and prov.roots(rp[0].value) - {r for r in prov.roots(rp[0].value) if r[0] == "const"} == prov.roots(fp[0].value) - {r for r in prov.roots(fp[0].value) if r[0] == "const"}:
            rep.ok(rule, sub1 + " registry location", "registry and exception_aliases.py are rooted at the same directory", emit.loc(rp[0]))
        else:
            rep.violation(rule, sub1 + " registry location", f"{emit.fq}|registry-location", "registry path and alias file are not rooted at the same directory", emit.loc())



def rule_nothing_deleted_below_the_core(repo: Repo, rep, rule: str = "R11.8") -> None:
    """The core directory belongs to every client registered in it, and with an ancestor core package (`core_package="acme"`, clients
    `acme.billing`, `acme.orders`) the other clients live *below* it.  The generator may replace its own output package; a delete
    (`unlink`, `remove`, `rmtree`, `rmdir`) whose target is derived from the core package option removes what this run did not write - files
    of other clients, or core modules they import.  Decided over the generation function and the private helpers of its class."""
    from rules.c10 import generation_function
    from rules._memo import name_closure

    gen = generation_function(repo)
    fns = [gen] + [m for m in (gen.cls.methods.values() if gen.cls is not None else []) if m is not gen and m.name.startswith("_")]
    n = 0
    for fn in fns:
        params = {a.arg for a in fn.node.args.args + fn.node.args.kwonlyargs}  # type: ignore[attr-defined]
        for c in calls_in(fn.node):
            d = dotted(c.func) or ""
            tgt = None
            if d in ("shutil.rmtree", "os.remove", "os.unlink", "os.rmdir", "os.removedirs") and c.args:
                tgt = c.args[0]
            elif isinstance(c.func, ast.Attribute) and c.func.attr in ("unlink", "rmdir") and not d.startswith("os."):
                tgt = c.func.value
            if tgt is None:
                continue
            n += 1
            deps = name_closure(fn.node, {x.id for x in ast.walk(tgt) if isinstance(x, ast.Name)})
            core_derived = {x for x in deps if "core" in x.lower() and (x in params or any(
                isinstance(st, (ast.Assign, ast.AnnAssign)) and any(isinstance(t, ast.Name) and t.id == x for t in (st.targets if isinstance(st, ast.Assign) else [st.target])) for st in own_nodes(fn.node)))}
            sub = f"{fn.module.relpath}:{fn.qualname} delete `{norm(c)[:50]}`"
            if core_derived:
                rep.violation(rule, sub, f"{fn.fq}|delete-below-core|{d or c.func.attr}",  # type: ignore[union-attr]
                              f"the target of this delete derives from the core package ({sorted(core_derived)[0]}): with a core that is an ancestor package of other clients, or a core module "
                              "another client still imports, generating this client removes files it did not write", fn.loc(c))
            else:
                rep.ok(rule, sub, "the target is derived from the output package of this run only", fn.loc(c))
    rep.require(n >= 1, f"{rule}: no delete operation found in the generator class (the removal of the output package is the anchor)")


def run(repo: Repo, rep: Report, tier: str) -> None:
    from sa.report import guarded as _guarded

    _guarded(rep, rule_nothing_deleted_below_the_core, repo, rep, "R11.8")
    mod = repo.module(EE)
    cls = mod.classes.get("ExceptionsEmitter")
    if cls is None:
        raise AnalysisError("anchor vanished: ExceptionsEmitter")
    emit = cls.methods.get("emit")
    upd = cls.methods.get("_update_registry")
    shared = cls.methods.get("_is_shared_core")
    for nm, m in (("emit", emit), ("_update_registry", upd)):
        if m is None:
            raise AnalysisError(f"anchor vanished: ExceptionsEmitter.{nm}")
    assert emit and upd
    from sa.flatten import flatten as _fl

    upd = _fl(upd)  # reading / writing the registry file may live in private helpers

    # ---------------------------------------------------------------- R11.1 _update_registry
    sub0 = f"{mod.relpath}:ExceptionsEmitter._update_registry"
    loads = [n for n in own_nodes(upd.node) if isinstance(n, (ast.Assign, ast.AnnAssign)) and isinstance(n.value, ast.Call) and dotted(n.value.func) == "json.load"]
    dumps = [c for c in calls_in(upd.node) if dotted(c.func) == "json.dump"]
    rep.require(len(dumps) == 1, f"R11.1: expected one json.dump in _update_registry (found {len(dumps)})")
    if dumps and not loads:
        rep.violation("R11.1", sub0 + " read-modify-write", f"{upd.fq}|rmw|no-load",
                      "the existing registry file is never loaded into the dict that is written back: other clients' entries are lost", upd.loc(dumps[0]))
    if loads and dumps:
        reg = norm(loads[0].targets[0] if isinstance(loads[0], ast.Assign) else loads[0].target)
        dumped = norm(dumps[0].args[0]) if dumps[0].args else "?"
        # names that (may) hold the loaded dict: the load target and everything assigned from it (`registry = loaded`)
        aliases = {reg}
        for _ in range(4):
            for n in own_nodes(upd.node):
                if isinstance(n, (ast.Assign, ast.AnnAssign)) and isinstance(n.value, ast.Name) and n.value.id in aliases:
                    tg = n.targets[0] if isinstance(n, ast.Assign) else n.target
                    if isinstance(tg, ast.Name):
                        aliases.add(tg.id)
        if dumped in aliases:
            reg = dumped
        stores = [n for n in own_nodes(upd.node) if isinstance(n, ast.Assign) and isinstance(n.targets[0], ast.Subscript) and norm(n.targets[0].value) == reg]
        key_ok = [s for s in stores if isinstance(s.targets[0].slice, ast.Name) and s.targets[0].slice.id in upd.params]
        # `<reg>.update({<client key>: ...})` overwrites the entry just like item assignment (setdefault would NOT: it keeps a stale entry)
        for c in calls_in(upd.node):
            if isinstance(c.func, ast.Attribute) and c.func.attr == "update" and norm(c.func.value) == reg and len(c.args) == 1 and isinstance(c.args[0], ast.Dict) \
                    and len(c.args[0].keys) == 1 and isinstance(c.args[0].keys[0], ast.Name) and c.args[0].keys[0].id in upd.params:
                key_ok.append(c)  # type: ignore[arg-type]
        rebinds = [n for n in own_nodes(upd.node) if isinstance(n, ast.Assign) and norm(n.targets[0]) == reg and n is not loads[0]
                   and not (isinstance(n.value, ast.Name) and n.value.id in aliases)]
        fresh_after = [n for n in rebinds if n.lineno > loads[0].lineno]
        if dumped == reg and key_ok and not fresh_after:
            rep.ok("R11.1", sub0 + " read-modify-write", f"`{reg}` is loaded from the file, updated under the client key and dumped (no rebinding in between)", upd.loc(loads[0]))
        else:
            rep.violation("R11.1", sub0 + " read-modify-write", f"{upd.fq}|rmw|dumped={dumped}|stores={len(key_ok)}|rebinds={len(fresh_after)}",
                          f"the registry written back is not the loaded one plus this client's entry (dumped `{dumped}`, loaded `{reg}`, "
                          f"{len(fresh_after)} rebinding(s) after the load): other clients' entries are lost", upd.loc(dumps[0]))
        # the entry written under the client's key is a function of this client's codes alone: an entry computed from the other
        # clients' entries (e.g. "only the codes nobody else lists") loses the information which client needs which class - when the
        # other client later drops a code, the alias this client still raises disappears from the union
        from rules._memo import name_closure

        for s_ in [x for x in key_ok if isinstance(x, ast.Assign)]:
            clo = name_closure(upd.node, {x.id for x in ast.walk(s_.value) if isinstance(x, ast.Name)})
            codes_params = [p_ for p_ in upd.params if p_ not in ("self", "cls") and p_ != (s_.targets[0].slice.id if isinstance(s_.targets[0].slice, ast.Name) else "")]
            subo = sub0 + " own entry"
            if (clo & aliases) or reg in clo:
                rep.violation("R11.1", subo, f"{upd.fq}|own-entry-depends-on-others",
                              f"`{norm(s_)[:80]}`: the codes recorded for this client are computed from the other clients' entries as well; the registry no longer says which "
                              "client declares which status, and a later change of one client removes exception classes another client still imports", upd.loc(s_))
            elif not (clo & set(codes_params)):
                rep.violation("R11.1", subo, f"{upd.fq}|own-entry-not-from-codes", f"`{norm(s_)[:80]}` does not store the codes handed to _update_registry", upd.loc(s_))
            else:
                rep.ok("R11.1", subo, f"`{norm(s_)[:60]}`: this client's entry is exactly its own status codes", upd.loc(s_))
        # the load must be guarded only by the existence of the file
        cfg = CFG(upd.node)
        # every return is the union over all values
        from sa.match import Locals as _Locals

        UL = _Locals(upd.node)

        def over_all(e: ast.AST) -> bool:
            """the expression ranges over every entry of the registry: contains <reg>.values() / <reg>.items() (not a single lookup)"""
            return any(isinstance(x, ast.Call) and isinstance(x.func, ast.Attribute) and x.func.attr in ("values", "items") and norm(x.func.value) == reg and not x.args
                       for x in ast.walk(e))

        union_vars: Set[str] = set()
        for lp in [n for n in own_nodes(upd.node) if isinstance(n, ast.For)]:
            if over_all(UL.inline(lp.iter)):
                tnames = {x.id for x in ast.walk(lp.target) if isinstance(x, ast.Name)}
                for c in calls_in(lp):
                    if isinstance(c.func, ast.Attribute) and c.func.attr in ("update", "extend", "add", "append") and isinstance(c.func.value, ast.Name) \
                            and c.args and any(isinstance(x, ast.Name) and x.id in tnames for x in ast.walk(c.args[0])):
                        union_vars.add(c.func.value.id)
                for a in [x for x in ast.walk(lp) if isinstance(x, ast.AugAssign) and isinstance(x.target, ast.Name)]:
                    if any(isinstance(x, ast.Name) and x.id in tnames for x in ast.walk(a.value)):
                        union_vars.add(a.target.id)
        for n in own_nodes(upd.node):
            if isinstance(n, ast.Assign) and isinstance(n.targets[0], ast.Name) and over_all(n.value):
                union_vars.add(n.targets[0].id)
            if isinstance(n, ast.AnnAssign) and isinstance(n.target, ast.Name) and n.value is not None and over_all(n.value):
                union_vars.add(n.target.id)
        rets = [n for n in own_nodes(upd.node) if isinstance(n, ast.Return)]
        rep.require(bool(rets), "R11.1: _update_registry has no return")
        prov = Provenance(upd)
        for r in rets:
            names = {x.id for x in ast.walk(r.value) if isinstance(x, ast.Name)} if r.value is not None else set()
            # follow one level of local definitions
            derived = set(names)
            for nm in list(names):
                for d in prov.defs.get(nm, []):
                    derived |= {x.id for x in ast.walk(d) if isinstance(x, ast.Name)}
            subr = f"{sub0} return value"
            if derived & union_vars or (r.value is not None and over_all(r.value)):
                # and it must come after the write-back on every path
                rep.ok("R11.1", subr, f"returns the union over all clients ({sorted(derived & union_vars)})", upd.loc(r))
            else:
                rep.violation("R11.1", subr, f"{upd.fq}|return-not-union",
                              f"`{norm(r)}` does not return the union over all registered clients: exception_aliases.py is regenerated "
                              "without the classes other clients import", upd.loc(r))
        # the dump happens on every path to a return (the registry always records this client)
        dn = {n.id for n in cfg.nodes if n.kind == "stmt" and n.ast is not None and any(c is dumps[0] for c in calls_in(n.ast))}
        w = cfg.must_pass(cfg.entry, dn)
        unchanged_skip = w is not None and any(
            cfg.nodes[x].kind == "test" and isinstance(cfg.nodes[x].ast, ast.Compare) and isinstance(cfg.nodes[x].ast.ops[0], ast.Eq)
            and reg in norm(cfg.nodes[x].ast) and any(p in norm(cfg.nodes[x].ast) for p in upd.params[1:]) for x in w)
        if w is None:
            rep.ok("R11.1", sub0 + " always persisted", "every path to a return writes the registry back", upd.loc(dumps[0]))
        elif unchanged_skip:
            rep.ok("R11.1", sub0 + " always persisted", "the only path that skips the write is guarded by `entry == new codes` (nothing to persist)", upd.loc(dumps[0]))
        else:
            rep.violation("R11.1", sub0 + " always persisted", f"{upd.fq}|dump-bypassed|{cfg.describe_path(w)}",
                          f"a path returns without writing the registry ({cfg.describe_path(w)})", upd.loc(dumps[0]))

    check_emit_regeneration(repo, rep)

    # registry key at the call sites in the generator
    from rules.c10 import generation_function as _genfn

    gen = _genfn(repo)
    from sa.match import Locals as _Locals2

    GL = _Locals2(gen.node)
    n_sites = 0
    for c in calls_in(gen.node):
        if isinstance(c.func, ast.Attribute) and c.func.attr == "emit" and isinstance(c.func.value, ast.Name) and any(
                isinstance(v, ast.Call) and (dotted(v.func) or "").split(".")[-1] == "ExceptionsEmitter" for _, v, _ in GL.defs.get(c.func.value.id, []) if v is not None):
            n_sites += 1
            kw = {k.arg: k.value for k in c.keywords}
            key = kw.get("client_package_name") or (c.args[2] if len(c.args) > 2 else None)
            sub = f"{gen.module.relpath}:generate ExceptionsEmitter.emit call #{n_sites} registry key"
            if key is not None and isinstance(key, ast.Name) and key.id == "output_package":
                rep.ok("R11.1", sub, "the client's full dotted package name (unique per client)", gen.loc(c))
            else:
                rep.violation("R11.1", sub, f"{gen.fq}|registry-key|{norm(key) if key is not None else 'missing'}",
                              f"registry key `{norm(key) if key is not None else 'missing'}` is not the full dotted output package: two clients can share one "
                              "registry slot (or the registry is skipped)", gen.loc(c))
    rep.require(n_sites == 2, f"R11.1: expected 2 ExceptionsEmitter.emit call sites in generate(), found {n_sites}")

    # ---------------------------------------------------------------- R11.4 imports of the regenerated alias file cover the union
    # For a shared core the class bodies are re-rendered for the union of all clients' codes (_generate_for_codes) while the import
    # header comes from the context filled by ExceptionVisitor.visit for the *current* spec: every base class the union can need must
    # therefore be imported unconditionally there.
    from rules._imports import import_names

    from sa.resolve import follow_delegation as _fd

    gfc = _fd(repo, repo.func(f"{EE}:ExceptionsEmitter._generate_for_codes"))
    from sa.flatten import flatten as _flatten

    bases = sorted({c.value for n in own_nodes(_flatten(gfc).node) if isinstance(n, (ast.Assign, ast.Return)) and n.value is not None for c in ast.walk(n.value)
                    if isinstance(c, ast.Constant) and c.value in ("ClientError", "ServerError", "HTTPError")})
    rep.require(len(bases) >= 2, f"R11.4: base classes used by _generate_for_codes not found ({bases})")
    ev0 = repo.func("visit.exception_visitor:ExceptionVisitor.visit")
    from sa.match import Locals as _Locals3
    from sa.report import with_flatten_fallback as _wff4

    def _imports_body(ev, r_) -> None:
        VL = _Locals3(ev.node)
        vcfg = CFG(ev.node)
        for b in bases:
            regs = {n.id for n in vcfg.nodes if n.kind == "stmt" and n.ast is not None and any(
                isinstance(c.func, ast.Attribute) and c.func.attr == "add_import" and b in import_names(c, VL) for c in calls_in(n.ast))}
            sub = f"{ev0.module.relpath}:ExceptionVisitor.visit imports `{b}` on every path"
            w = vcfg.must_pass(vcfg.entry, regs) if regs else [vcfg.entry]
            if regs and w is None:
                r_.ok("R11.4", sub, f"`{b}` is imported unconditionally, so classes regenerated for other clients' codes find their base class", ev0.loc())
            else:
                r_.violation("R11.4", sub, f"{ev0.fq}|base-import-conditional|{b}",
                             f"`{b}` is imported only when the current spec needs it ({vcfg.describe_path(w or [])}), but exception_aliases.py is regenerated for the "
                             f"union of all clients: a class derived from `{b}` for another client's status raises NameError when the core is imported", ev0.loc())

    _wff4(rep, ev0, _imports_body)  # the registrations may sit in a helper of the visitor (`self._register_base_imports(context)`)

    # ---------------------------------------------------------------- R11.2 shared predicate over layouts
    # The predicate is whatever guards the registry update in emit besides "a client name was given": a call of a predicate method of the
    # class (its body is interpreted with the call's arguments bound) and / or conditions written in place.
    from sa.match import Locals as _L112, conjuncts as _cj112

    ecfg = CFG(emit.node)
    edom = ecfg.dominators()
    ucall_nodes = [n for n in ecfg.nodes if n.kind == "stmt" and n.ast is not None and not n.copy and any(dotted(c.func) == "self._update_registry" for c in calls_in(n.ast))]
    rep.require(len(ucall_nodes) == 1, f"R11.2: expected one self._update_registry(...) call in emit, found {len(ucall_nodes)}")
    EL2 = _L112(emit.node)
    pred_conjs: List[ast.AST] = []
    if ucall_nodes:
        for d in edom[ucall_nodes[0].id]:
            t = ecfg.nodes[d]
            if t.kind != "test":
                continue
            for cj in _cj112(t.ast, EL2, stop=tuple(EL2.params)):
                if isinstance(cj, ast.Name) and cj.id in emit.params:
                    continue
                pred_conjs.append(cj)
    rep.require(bool(pred_conjs), "R11.2: the registry update in emit is not guarded by a shared-core condition (anchor)")

    def _emit_env(lay) -> Dict[str, Any]:
        env: Dict[str, Any] = {"self.overall_project_root": lay["root"], "None": None}
        for p_ in emit.params:
            if "dir" in p_ or "path" in p_:
                env[p_] = lay["core_dir"]
            elif "package" in p_ or "client" in p_:
                env[p_] = lay["client_pkg"]
        return env

    def _eval_conj(cj: ast.AST, lay) -> Any:
        env = _emit_env(lay)
        if isinstance(cj, ast.Call) and isinstance(cj.func, ast.Attribute) and isinstance(cj.func.value, ast.Name) and cj.func.value.id == "self" and cj.func.attr in cls.methods:
            h = cls.methods[cj.func.attr]
            hp = [p_ for p_ in h.params if p_ != "self"]
            henv: Dict[str, Any] = {"self.overall_project_root": lay["root"], "None": None}
            pa = PathAlgebra(env)
            for i_, a_ in enumerate(cj.args):
                if i_ < len(hp):
                    henv[hp[i_]] = pa.ev(a_)
            for k_ in cj.keywords:
                if k_.arg in hp:
                    henv[k_.arg] = pa.ev(k_.value)
            return PathAlgebra(henv, dict(cls.methods)).run(h.node)
        return PathAlgebra(env, dict(cls.methods)).ev(cj)

    n_eval = 0
    fails = []
    unsupported = None
    for lay in layouts():
        try:
            res = all(_eval_conj(cj, lay) for cj in pred_conjs)
        except _Unsupported as e:
            unsupported = str(e)
            break
        n_eval += 1
        # embedded cores count too: the default core of one client (billing.core) becomes a shared core as soon as a later
        # client is generated with core_package="billing.core"; if the first client never registered, that generation
        # rebuilds the alias file without its codes (witness: /verif/known_findings.json fixed entry 8d04ce6)
        if not res:
            fails.append(lay)
    rep.count("R11.2:layouts_evaluated", n_eval)
    anchor_fn = shared if shared is not None else emit
    sub2 = f"{mod.relpath}:ExceptionsEmitter._is_shared_core"
    if unsupported:
        rep.error(f"R11.2: the shared-core predicate uses a construct the path-algebra interpreter does not model: {unsupported}")
    elif pred_conjs:
        seen_kinds = set()
        for lay in layouts():
            if lay["kind"] in seen_kinds:
                continue
            seen_kinds.add(lay["kind"])
            bad = [f for f in fails if f["kind"] == lay["kind"]]
            subk = f"{sub2} layout {lay['kind']}"
            if bad:
                b = bad[0]
                rep.violation("R11.2", subk, f"{(shared.fq if shared is not None else emit.fq.replace('.emit', '._is_shared_core'))}|not-shared|{lay['kind']}",
                              f"core at {'/'.join(b['core_dir'])} with client package {b['client_pkg']} is not recognised as shared: the registry is "
                              "skipped and generating a second client "
                              + ("that re-uses this embedded core " if lay["kind"] == "embedded" else "")
                              + "removes the first client's exception classes", anchor_fn.loc())
            else:
                rep.ok("R11.2", subk, "predicate is true for every client depth 1..3", anchor_fn.loc())

    _guarded(rep, rule_cleanup_keeps_registry, repo, rep, "R11.5")
    _guarded(rep, rule_registry_file_name_agrees, repo, rep, "R11.6")
    # R11.7: the client package's __init__.py (which is the core's own __init__.py when core and client package coincide) is written as lines  [= R1.20]
    from rules.c01 import rule_lines_joined_with_newline

    _guarded(rep, rule_lines_joined_with_newline, repo, rep, "R11.7")
    # ---------------------------------------------------------------- R11.3 additive
    for spec in (f"{EE}:ExceptionsEmitter.emit", f"{EE}:ExceptionsEmitter._update_registry", "emitters.core_emitter:CoreEmitter.emit"):
        fn = repo.func(spec)
        dels = [c for c in calls_in(fn.node) if (dotted(c.func) or "") in ("os.remove", "os.unlink", "shutil.rmtree", "os.rmdir", "shutil.move", "os.rename", "os.replace")
                or (isinstance(c.func, ast.Attribute) and c.func.attr in ("unlink", "rmdir", "rmtree"))]
        sub = f"{fn.module.relpath}:{fn.qualname} additive"
        if dels:
            rep.violation("R11.3", sub, f"{fn.fq}|deletes|{norm(dels[0])}", f"`{norm(dels[0])}` removes files from a core other clients use", fn.loc(dels[0]))
        else:
            rep.ok("R11.3", sub, "no delete/rename operation", fn.loc())


# ------------------------------------------------------------------------------------------------ R11.5 clean-up keeps the registry
def rule_cleanup_keeps_registry(repo: Repo, rep, rule: str = "R11.5") -> None:
    """`generate()` removes the whole output package before a forced regeneration.  A core embedded in that package can be the shared
    core of other clients (see R11.2), and their status codes are recorded only in its registry file: on every way from the
    `rmtree` to the exception emitter the registry must have been read before and be written back after the removal."""
    from rules.c10 import generation_function as _genfn

    gen = _genfn(repo)
    from sa.cfg import CFG
    from sa.flatten import flatten as _fl115, inline_module_constants as _imc115
    from sa.match import Locals as _L

    # helpers of the generator that read / write / copy files for it are written out; module-level file-name constants are read as their text
    gen = _imc115(_fl115(gen, select=lambda h: any(isinstance(c.func, ast.Attribute) and c.func.attr in (
        "read_bytes", "read_text", "write_bytes", "write_text", "copyfile", "copy", "copy2", "rmtree") for c in calls_in(h.node))))
    cfg = CFG(gen.node)
    GL = _L(gen.node)
    REG = ".exception_registry.json"

    def mentions_registry(e: ast.AST) -> bool:
        return REG in norm(GL.inline(e, stop=tuple(GL.params)))

    def calls_of(n) -> List[ast.Call]:
        return list(calls_in(n.ast)) if n.kind == "stmt" and n.ast is not None and not n.copy else []

    rm, reads, writes, emits = [], [], [], []
    for n in cfg.nodes:
        for c in calls_of(n):
            d = dotted(c.func) or ""
            attr = c.func.attr if isinstance(c.func, ast.Attribute) else ""
            if d == "shutil.rmtree" or attr == "rmtree":
                rm.append(n)
            if attr in ("read_bytes", "read_text") and mentions_registry(c.func.value):
                reads.append(n)
            if attr in ("write_bytes", "write_text") and mentions_registry(c.func.value):
                writes.append(n)
            if d in ("shutil.copy", "shutil.copy2", "shutil.copyfile") and len(c.args) == 2:
                if mentions_registry(c.args[0]):
                    reads.append(n)
                if mentions_registry(c.args[1]):
                    writes.append(n)
            if d == "open" and c.args and mentions_registry(c.args[0]):
                mode = const_str(c.args[1]) if len(c.args) > 1 else "r"
                (writes if mode and mode[0] in "wa" else reads).append(n)
            if attr == "emit" and any(k.arg == "client_package_name" for k in c.keywords):
                emits.append(n)
            # a helper of the class that reads / writes the path it is handed (`self._read_embedded_registry(registry_path, ...)`)
            gcls = gen.module.classes.get(gen.qualname.split(".")[0]) if "." in gen.qualname else None
            hf = gcls.methods.get(attr) if gcls is not None and attr else None
            if hf is not None and hf is not gen:
                hparams = [p_ for p_ in hf.params if p_ not in ("self", "cls")]
                for i_, a_ in enumerate(c.args):
                    if i_ < len(hparams) and mentions_registry(a_):
                        for hc in calls_in(hf.node):
                            if isinstance(hc.func, ast.Attribute) and isinstance(hc.func.value, ast.Name) and hc.func.value.id == hparams[i_]:
                                if hc.func.attr in ("read_bytes", "read_text"):
                                    reads.append(n)
                                if hc.func.attr in ("write_bytes", "write_text"):
                                    writes.append(n)
    rep.count(f"{rule}:rmtree_sites", len(rm))
    rep.require(bool(emits), f"{rule}: the ExceptionsEmitter.emit call (client_package_name=...) was not found in generate (anchor)")
    n_armed = 0
    for r in rm:
        after = cfg.reachable(r.id)
        es = [e for e in emits if e.id in after]
        if not es:
            continue  # a removal that is not followed by exception emission (temp-dir clean-up)
        n_armed += 1
        sub = f"{gen.module.relpath}:generate `{norm(r.ast)[:50]}` before the exception emitter"
        saved = [s for s in reads if r.id in cfg.reachable(s.id)]
        restored = [w for w in writes if w.id in after and any(e.id in cfg.reachable(w.id) for e in es)]
        # the save must happen for *every* position of the core inside the removed directory (the removal is recursive): the path
        # conditions guarding the read are evaluated for a core 0..3 levels below the output directory
        narrow = None
        if saved and restored:
            from sa.cfg import guards as _guards

            dom5 = cfg.dominators()
            out_names = [x.id for x in ast.walk(r.ast) if isinstance(x, ast.Name) and x.id not in ("shutil", "str", "os")]
            reg_defs = [v for k, v, _ in GL.defs.get(next((x.id for x in ast.walk(saved[0].ast) if isinstance(x, ast.Name) and mentions_registry(x)), ""), []) if v is not None]
            core_names = [x.left.id for v in reg_defs for x in ast.walk(v) if isinstance(x, ast.BinOp) and isinstance(x.op, ast.Div) and isinstance(x.left, ast.Name)]
            if out_names and core_names:
                on, cn = out_names[0], core_names[0]
                for g, pol in _guards(cfg, saved[0].id, dom5):
                    if g.kind != "test" or pol is not True:
                        continue
                    for cj in (g.ast.values if isinstance(g.ast, ast.BoolOp) and isinstance(g.ast.op, ast.And) else [g.ast]):
                        nm = {x.id for x in ast.walk(cj) if isinstance(x, ast.Name)}
                        if not ({on, cn} <= nm):
                            continue
                        for depth in range(0, 4):
                            env = {on: ("R", "out"), cn: ("R", "out") + tuple(f"d{i}" for i in range(depth))}
                            try:
                                if not PathAlgebra(env).ev(cj):
                                    narrow = (norm(cj), depth)
                                    break
                            except _Unsupported as e_:
                                rep.error(f"{rule}: the condition `{norm(cj)[:60]}` guarding the registry save is outside the path algebra ({e_})")
                                break
        if saved and restored and narrow is not None:
            rep.violation(rule, sub, f"{gen.fq}|registry-save-too-narrow|depth={narrow[1]}",
                          f"the registry is saved only when `{narrow[0][:70]}` - false for a core {narrow[1]} level(s) below the removed directory "
                          f"(e.g. core_package=\"<client>.{'.'.join(['x'] * max(narrow[1] - 1, 0) + ['core'])}\"): that core is wiped with its registry and the other clients' "
                          "exception classes disappear from the regenerated aliases", gen.loc(r.ast))
        elif saved and restored:
            rep.ok(rule, sub, f"the registry is read before the removal (L{saved[0].ast.lineno}) and written back before the emitter runs (L{restored[0].ast.lineno})", gen.loc(r.ast))
        else:
            rep.violation(rule, sub, f"{gen.fq}|cleanup-drops-registry|saved={bool(saved)}|restored={bool(restored)}",
                          "the output package is removed and regenerated without carrying over core/.exception_registry.json: when the package embeds a core "
                          "that another client re-uses (core_package=\"<this client>.core\"), that client's exception classes disappear from the regenerated "
                          "exception_aliases.py", gen.loc(r.ast))
    if not n_armed:
        rep.ok(rule, f"{gen.module.relpath}:generate clean-up", "no directory removal precedes the exception emitter", gen.loc())


# ------------------------------------------------------------------------------------------------ R11.6 one name for the registry file
def _registry_names(tree: ast.AST, mod=None) -> List[Tuple[str, ast.AST]]:
    """String constants that name the exception registry file (`*registry*.json`), docstrings excepted; module-level constants are followed."""
    doc = set()
    for n in ast.walk(tree):
        if isinstance(n, (ast.Module, ast.ClassDef, ast.FunctionDef, ast.AsyncFunctionDef)) and n.body and isinstance(n.body[0], ast.Expr) \
                and isinstance(n.body[0].value, ast.Constant) and isinstance(n.body[0].value.value, str):
            doc.add(id(n.body[0].value))
    out = []
    for n in ast.walk(tree):
        if isinstance(n, ast.Constant) and isinstance(n.value, str) and id(n) not in doc and "registry" in n.value and n.value.endswith(".json") and "/" not in n.value and " " not in n.value:
            out.append((n.value, n))
    return out


def rule_registry_file_name_agrees(repo: Repo, rep, rule: str = "R11.6") -> None:
    """The exceptions emitter keeps the clients' status codes in a registry file inside the core; the generator rescues that file around the
    removal of the output package and seeds the compare-only tree with it.  Both sides spell the file name out: they must spell the same
    name, otherwise the rescue finds nothing (its `is_file()` guard is silently false), the registry of an embedded core is deleted with the
    package and the other clients' exception classes disappear."""
    em = repo.module("emitters.exceptions_emitter")
    gm = repo.module("generator.client_generator")
    en = _registry_names(em.tree)
    gn = _registry_names(gm.tree)
    rep.count(f"{rule}:emitter_mentions", len(en))
    rep.count(f"{rule}:generator_mentions", len(gn))
    rep.require(len(en) >= 1, f"{rule}: the exceptions emitter no longer names its registry file with a string constant (anchor)")
    rep.require(len(gn) >= 1, f"{rule}: the generator no longer names the registry file it rescues / seeds (anchor, {len(gn)} mention(s))")
    if not en or not gn:
        return
    names_e = sorted({v for v, _ in en})
    sub = f"{gm.relpath} / {em.relpath} name of the exception registry file"
    other = [(v, n) for v, n in gn if v not in names_e]
    if len(names_e) > 1:
        rep.violation(rule, sub, f"registry-file-name|emitter-uses-several|{names_e}", f"the emitter itself uses several registry file names: {names_e}", f"{em.relpath}:{en[0][1].lineno}")
    elif other:
        v, n = other[0]
        rep.violation(rule, sub, f"registry-file-name|{names_e[0]}|{v}",
                      f"the emitter reads and writes `{names_e[0]}`, the generator rescues / seeds `{v}`: the rescue around `rmtree(out_dir)` never finds the file, a forced "
                      "regeneration of the client that hosts the core deletes the registry, and the exception classes of the other clients are no longer generated "
                      "(their endpoint modules fail to import)", f"{gm.relpath}:{n.lineno}")
    else:
        rep.ok(rule, sub, f"`{names_e[0]}` on both sides ({len(en)} + {len(gn)} mentions)", f"{em.relpath}:{en[0][1].lineno}")
