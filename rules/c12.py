"""C12 - generated clients are self-contained.

R12.1  every import statement of the 8 RUNTIME_FILES payload modules is stdlib / httpx / cattrs / relative
R12.2  closure: relative imports of runtime files target other runtime files or files the emitters generate;
       every RUNTIME_FILES source exists
R12.3  verbatim copy: in CoreEmitter.emit the value written is the unmodified `f.read()` result
R12.6  the post-processor never receives the runtime copies (file lists are filtered against RUNTIME_FILES, both sides resolved)
R12.7  RenderContext never "completes" a module path of the core package (root or sub-module) into the client package       [= R1.11]
R12.8  the post-processor's tools are given files, never directories (a directory would take the runtime copies with it)          [= R10.7]
R12.9  the non-force comparison covers every generated file, the runtime copies included                                          [= R9.4]
R12.10 no call in a runtime file takes a string naming the generator (`importlib.metadata.version("pyopenapi-gen")`, `import_module(...)`, `resources.files(...)`)
R12.4  import registrations (add_import & co.): module argument never names the generator or a foreign package
R12.5  import statements embedded in templates obey the same allow-list
"""
from __future__ import annotations

import ast
import os
import re
import sys
from typing import Dict, List, Optional, Set, Tuple

from sa.cfg import CFG
from sa.model import AnalysisError, Function, Module, Repo, calls_in, const_str, dotted, norm, own_nodes, parent
from sa.report import Report

ALLOWED_THIRD_PARTY = {"httpx", "cattrs"}
STDLIB = set(sys.stdlib_module_names)
REG_METHODS = {"add_import", "add_plain_import", "add_relative_import", "add_conditional_import", "add_typing_import"}
GENERATED_CORE_FILES = {"config", "exception_aliases"}  # written by CoreEmitter / ExceptionsEmitter
# logical (package-relative) roots of the emitted package itself, as used in registration arguments
OWN_SUBPACKAGES = {"endpoints", "models", "mocks", "client", "core"}


def runtime_files(repo: Repo) -> List[Tuple[str, str, str, int]]:
    ce = repo.module("emitters.core_emitter")
    for st in ce.tree.body:
        if isinstance(st, ast.Assign) and any(isinstance(t, ast.Name) and t.id == "RUNTIME_FILES" for t in st.targets):
            out = []
            if not isinstance(st.value, (ast.List, ast.Tuple)):
                raise AnalysisError("RUNTIME_FILES is not a literal list")
            for el in st.value.elts:
                if not (isinstance(el, ast.Tuple) and len(el.elts) == 3 and all(const_str(x) is not None for x in el.elts)):
                    raise AnalysisError(f"RUNTIME_FILES entry is not a literal 3-tuple of strings: {norm(el)}")
                out.append((const_str(el.elts[0]), const_str(el.elts[1]), const_str(el.elts[2]), el.lineno))
            return out
    raise AnalysisError("anchor vanished: RUNTIME_FILES in emitters/core_emitter.py")


def classify_module(name: str) -> Tuple[bool, str]:
    top = name.split(".")[0]
    if name.startswith("."):
        return True, "relative"
    if top == "__future__" or top in STDLIB:
        return True, "stdlib"
    if top in ALLOWED_THIRD_PARTY:
        return True, f"runtime dependency {top}"
    if top == "pyopenapi_gen":
        return False, "imports the generator itself"
    if top in OWN_SUBPACKAGES:
        return True, "sub-package of the emitted package itself"
    return False, f"third-party module `{top}` is not a documented runtime dependency"


def _docstring_ids(tree: ast.AST) -> Set[int]:
    out = set()
    for n in ast.walk(tree):
        if isinstance(n, (ast.Module, ast.ClassDef, ast.FunctionDef, ast.AsyncFunctionDef)) and n.body:
            b = n.body[0]
            if isinstance(b, ast.Expr) and isinstance(b.value, ast.Constant) and isinstance(b.value.value, str):
                out.add(id(b.value))
    return out


def _in_optional_import_guard(node: ast.AST) -> bool:
    """Inside a `try` body whose handlers catch ImportError/ModuleNotFoundError."""
    p = parent(node)
    child = node
    while p is not None:
        if isinstance(p, ast.Try) and child in p.body:
            for h in p.handlers:
                names = []
                if h.type is None:
                    return True
                ts = h.type.elts if isinstance(h.type, ast.Tuple) else [h.type]
                names = [dotted(t) for t in ts]
                if any(n in ("ImportError", "ModuleNotFoundError", "Exception") for n in names):
                    return True
        child, p = p, parent(p)
    return False


IMPORT_LINE = re.compile(r"^[ \t]*(?:from[ \t]+(\S+)[ \t]+import\b|import[ \t]+([^\s#;]+))", re.M)
HOLE = "\x00"


def _local_def(fn_node: Optional[ast.AST], name: str) -> List[ast.AST]:
    if fn_node is None:
        return []
    out = []
    for n in own_nodes(fn_node):
        if isinstance(n, ast.Assign) and any(isinstance(t, ast.Name) and t.id == name for t in n.targets):
            out.append(n.value)
        elif isinstance(n, ast.AnnAssign) and isinstance(n.target, ast.Name) and n.target.id == name and n.value is not None:
            out.append(n.value)
    return out


def _core_rooted(e: ast.AST, fn_node: Optional[ast.AST], depth: int = 0) -> bool:
    """Does expression e denote the designated core package (possibly + suffix)?"""
    d = dotted(e)
    if d is not None and "core_package" in d.split(".")[-1]:
        return True
    if isinstance(e, ast.JoinedStr) and e.values:
        v0 = e.values[0]
        return isinstance(v0, ast.FormattedValue) and _core_rooted(v0.value, fn_node, depth)
    if isinstance(e, ast.Name) and depth < 3:
        defs = _local_def(fn_node, e.id)
        if defs:
            return all(_core_rooted(x, fn_node, depth + 1) for x in defs)
        # a parameter of a private helper: what every call site in the same module passes for it
        if isinstance(fn_node, (ast.FunctionDef, ast.AsyncFunctionDef)) and e.id in [a.arg for a in fn_node.args.args + fn_node.args.kwonlyargs]:
            root = fn_node
            while parent(root) is not None:
                root = parent(root)  # type: ignore[assignment]
            params = [a.arg for a in fn_node.args.args if a.arg not in ("self", "cls")]
            sites = []
            for c in ast.walk(root):
                if isinstance(c, ast.Call) and ((isinstance(c.func, ast.Attribute) and c.func.attr == fn_node.name) or (isinstance(c.func, ast.Name) and c.func.id == fn_node.name)):
                    arg = None
                    if e.id in params and params.index(e.id) < len(c.args):
                        arg = c.args[params.index(e.id)]
                    for k in c.keywords:
                        if k.arg == e.id:
                            arg = k.value
                    sites.append((arg, _enclosing_fn(c)))
            return bool(sites) and all(a is not None and _core_rooted(a, f_, depth + 1) for a, f_ in sites)
        return False
    if isinstance(e, ast.BinOp) and isinstance(e.op, ast.Add):
        return _core_rooted(e.left, fn_node, depth)
    if isinstance(e, ast.IfExp):
        return _core_rooted(e.body, fn_node, depth) and _core_rooted(e.orelse, fn_node, depth)
    return False


def _enclosing_fn(node: ast.AST) -> Optional[ast.AST]:
    p = parent(node)
    while p is not None and not isinstance(p, (ast.FunctionDef, ast.AsyncFunctionDef)):
        p = parent(p)
    return p


def run(repo: Repo, rep: Report, tier: str) -> None:
    from sa.report import guarded as _guarded

    live = repo.import_closure(["generator.client_generator"])
    rts = runtime_files(repo)
    rep.count("runtime_files", [f"{m}/{f}" for m, f, _, _ in rts])
    rep.require(len(rts) >= 8, f"R12.1: RUNTIME_FILES has {len(rts)} entries (confirmed floor 8)")

    rt_modules: Dict[str, Module] = {}
    for modname, filename, dst, line in rts:
        dotted_name = f"{modname}.{filename[:-3]}"
        sub = f"RUNTIME_FILES entry {modname}/{filename}"
        if dotted_name not in repo.modules:
            rep.violation("R12.2", sub, f"runtime-source-missing|{dotted_name}",
                          "listed runtime file does not exist in the generator package: CoreEmitter prints a warning and skips it, "
                          "the emitted core lacks the module", f"src/pyopenapi_gen/emitters/core_emitter.py:{line}")
            continue
        rep.ok("R12.2", sub, "source exists", f"src/pyopenapi_gen/emitters/core_emitter.py:{line}")
        rt_modules[dotted_name] = repo.modules[dotted_name]
        # destination agrees with source layout below core/
        want = "core/" + dotted_name.split("pyopenapi_gen.core.", 1)[-1].replace(".", "/") + ".py"
        if dst != want:
            rep.violation("R12.2", sub + " destination", f"runtime-dst|{dotted_name}|{dst}",
                          f"destination {dst!r} differs from the source layout {want!r}: relative imports between runtime files break",
                          f"src/pyopenapi_gen/emitters/core_emitter.py:{line}")
        else:
            rep.ok("R12.2", sub + " destination", f"copied to {dst}", f"src/pyopenapi_gen/emitters/core_emitter.py:{line}")

    # ---------------------------------------------------------------- R12.10 the payload never looks the generator up by name
    # `importlib.metadata.version("pyopenapi-gen")`, `importlib.resources.files("pyopenapi_gen.core")`, `import_module("pyopenapi_gen...")`,
    # `find_spec(...)`: no import statement names the generator, yet the call fails (PackageNotFoundError / ModuleNotFoundError) in an
    # interpreter where only the emitted package is installed.  Decided: no call in a runtime file takes a string constant naming the generator.
    n_rt_calls = 0
    for name, mod in sorted(rt_modules.items()):
        hits = []
        for c in ast.walk(mod.tree):
            if not isinstance(c, ast.Call):
                continue
            n_rt_calls += 1
            for a_ in list(c.args) + [k.value for k in c.keywords]:
                v = const_str(a_)
                if v is not None and re.match(r"^pyopenapi[-_]gen(\b|$)", v.strip().lower()):
                    hits.append((c, v))
        sub = f"{mod.relpath} calls that name the generator distribution / package"
        if hits:
            c, v = hits[0]
            rep.violation("R12.10", sub, f"{mod.name}|generator-looked-up-by-name|{(dotted(c.func) or '?').split('.')[-1]}",
                          f"`{norm(c)[:70]}`: the shipped runtime module asks for `{v}` at run time - in an interpreter where only the emitted package (httpx, cattrs) is installed "
                          "this raises and the request / import fails, although no import statement mentions the generator", f"{mod.relpath}:{c.lineno}")
        else:
            rep.ok("R12.10", sub, "no call argument names the generator", f"{mod.relpath}:1")
    rep.require(n_rt_calls >= 100, f"R12.10: only {n_rt_calls} calls found in the runtime files (floor 100)")

    # ---------------------------------------------------------------- R12.1 / R12.2 imports of payload
    n_imports = 0
    rt_names = set(rt_modules)
    for name, mod in sorted(rt_modules.items()):
        for n in ast.walk(mod.tree):
            if isinstance(n, ast.Import):
                targets = [(a.name, 0) for a in n.names]
            elif isinstance(n, ast.ImportFrom):
                targets = [(("." * n.level) + (n.module or ""), n.level)]
            else:
                continue
            for modtxt, level in targets:
                n_imports += 1
                sub = f"{mod.relpath} `{norm(n)[:70]}`"
                ok, why = classify_module(modtxt)
                loc = f"{mod.relpath}:{n.lineno}"
                if not ok:
                    guard = " (inside try/except ImportError: optional)" if _in_optional_import_guard(n) else ""
                    rep.violation("R12.1", sub, f"{mod.name}|import|{modtxt}", f"runtime payload {why}{guard}", loc)
                    continue
                rep.ok("R12.1", sub, why, loc)
                if level:
                    # closure: the target must be shipped too
                    base = mod.name.split(".")[:-1]
                    if level > 1:
                        base = base[: len(base) - (level - 1)]
                    tgt = ".".join(base + ([n.module] if n.module else []))
                    cands = [tgt] + [f"{tgt}.{a.name}" for a in n.names]
                    shipped = any(c in rt_names for c in cands) or tgt.split(".")[-1] in GENERATED_CORE_FILES or any(
                        c.rsplit(".", 1)[0] in rt_names for c in cands if "." in c and c.rsplit(".", 1)[0] == tgt)
                    in_core = tgt.startswith("pyopenapi_gen.core")
                    if tgt in rt_names or (in_core and tgt.split(".")[-1] in GENERATED_CORE_FILES):
                        rep.ok("R12.2", sub + " closure", f"target {tgt} is shipped with the core", loc)
                    elif any(f"{tgt}.{a.name}" in rt_names for a in n.names):
                        rep.ok("R12.2", sub + " closure", f"target submodule of {tgt} is shipped with the core", loc)
                    else:
                        rep.violation("R12.2", sub + " closure", f"{mod.name}|closure|{tgt}",
                                      f"relative import targets {tgt}, which is neither in RUNTIME_FILES nor generated into the core", loc)
    rep.count("R12.1:import_statements_in_payload", n_imports)
    rep.require(n_imports >= 25, f"R12.1: only {n_imports} import statements found in runtime payload (floor 25)")

    # ---------------------------------------------------------------- R12.3 verbatim copy
    from sa.flatten import flatten as _fl12

    emit0 = repo.func("emitters.core_emitter:CoreEmitter.emit")
    # the copy loop may have been moved into a helper of the emitter (`self._copy_runtime_files(core_dir)`): the function that holds the
    # loop over RUNTIME_FILES is examined (it must be a function of this module that emit reaches)
    holders = [f for f in emit0.module.functions.values() if any(isinstance(n, ast.For) and "RUNTIME_FILES" in norm(n.iter) for n in own_nodes(f.node))]
    holder = emit0
    if holders and emit0 not in holders:
        called = {c.func.attr if isinstance(c.func, ast.Attribute) else c.func.id if isinstance(c.func, ast.Name) else None for c in calls_in(emit0.node)}
        holders = [f for f in holders if f.name in called]
        if len(holders) == 1:
            holder = holders[0]
    emit = _fl12(holder)  # reading the packaged file may live in a helper
    loops = [n for n in own_nodes(emit.node) if isinstance(n, ast.For) and "RUNTIME_FILES" in norm(n.iter)]
    rep.require(len(loops) == 1, f"R12.3: expected exactly one loop over RUNTIME_FILES in CoreEmitter.emit, found {len(loops)}")
    for lp in loops:
        writes = [c for c in calls_in(lp) if isinstance(c.func, ast.Attribute) and c.func.attr in ("write_file", "write", "write_text")]
        rep.require(bool(writes), "R12.3: no write call in the RUNTIME_FILES loop")
        from sa.match import Locals as _Locals

        EL = _Locals(emit.node)
        tnames = [e.id for e in lp.target.elts if isinstance(e, ast.Name)] if isinstance(lp.target, ast.Tuple) else []
        if len(tnames) < 2:
            raise AnalysisError("R12.3: the RUNTIME_FILES loop does not unpack (module, filename, destination)")
        t_mod, t_file = tnames[0], tnames[1]

        def is_resource(e: ast.AST) -> bool:
            """importlib.resources.files(<module>) joined with <filename> (joinpath or `/`)"""
            has_files = any(isinstance(x, ast.Call) and (dotted(x.func) or "").split(".")[-1] == "files" and x.args and isinstance(x.args[0], ast.Name) and x.args[0].id == t_mod
                            for x in ast.walk(e))
            has_name = any((isinstance(x, ast.Call) and isinstance(x.func, ast.Attribute) and x.func.attr == "joinpath" and x.args and isinstance(x.args[0], ast.Name) and x.args[0].id == t_file)
                           or (isinstance(x, ast.BinOp) and isinstance(x.op, ast.Div) and isinstance(x.right, ast.Name) and x.right.id == t_file) for x in ast.walk(e))
            return has_files and has_name

        # file handles opened on the resource (with ... open(...) as f)
        handles = {}
        for wnode in [n for n in own_nodes(lp) if isinstance(n, ast.With)]:
            for it in wnode.items:
                ce = it.context_expr
                if isinstance(it.optional_vars, ast.Name) and isinstance(ce, ast.Call) and isinstance(ce.func, ast.Attribute) and ce.func.attr == "open" and is_resource(EL.inline(ce.func.value)):
                    mode = const_str(ce.args[0]) if ce.args else next((const_str(k.value) for k in ce.keywords if k.arg == "mode"), "r")
                    handles[it.optional_vars.id] = mode

        def verbatim(v: ast.AST) -> Optional[str]:
            """why the value is the unmodified text of the resource, or None"""
            if isinstance(v, ast.Call) and isinstance(v.func, ast.Attribute) and v.func.attr == "read" and not v.args and isinstance(v.func.value, ast.Name) \
                    and handles.get(v.func.value.id) in ("r", "rt"):
                return f"`{norm(v)}` on the resource opened in text mode"
            if isinstance(v, ast.Call) and isinstance(v.func, ast.Attribute) and v.func.attr == "read_text" and not v.args and is_resource(EL.inline(v.func.value)):
                return f"`read_text()` of the resource"
            return None

        for w in writes:
            content = w.args[1] if len(w.args) > 1 else (w.args[0] if w.args else None)
            sub = f"{emit.module.relpath}:CoreEmitter.emit runtime file content written"
            okv = False
            why = "content argument is not a plain variable or a direct read"
            if isinstance(content, ast.Name):
                defs = [n for n in own_nodes(lp) if isinstance(n, ast.Assign) and any(isinstance(t, ast.Name) and t.id == content.id for t in n.targets)]
                augs = [n for n in own_nodes(lp) if isinstance(n, ast.AugAssign) and isinstance(n.target, ast.Name) and n.target.id == content.id]
                reads = [d for d in defs if verbatim(d.value) is not None]
                if len(defs) == 1 and len(reads) == 1 and not augs:
                    okv = True
                    why = f"`{content.id}` has exactly one definition in the loop ({verbatim(defs[0].value)}) and no other write"
                else:
                    why = f"`{content.id}` is defined {len(defs)}x / augmented {len(augs)}x in the loop: " + "; ".join(norm(d) for d in defs + augs)
            elif content is not None and verbatim(content) is not None:
                okv, why = True, str(verbatim(content))
            if okv:
                rep.ok("R12.3", sub, why + "; source is importlib.resources.files(<module>)/<filename>", emit.loc(w))
            else:
                rep.violation("R12.3", sub, f"{emit.fq}|verbatim",
                              "runtime file content is transformed (or taken from elsewhere) between read and write: " + why, emit.loc(w))

    # every iteration of the copy loop writes (no "skip if it already exists": stale runtime files would survive)
    for lp in loops:
        cfg = CFG(emit.node)
        hdr = [n.id for n in cfg.nodes if n.kind == "iter" and n.stmt is lp]
        wnodes = {n.id for n in cfg.nodes if n.kind == "stmt" and n.ast is not None and _inside_stmt(n.ast, lp) and any(
            isinstance(c.func, ast.Attribute) and c.func.attr in ("write_file", "write_text", "write") for c in calls_in(n.ast))}
        sub = f"{emit.module.relpath}:CoreEmitter.emit every runtime file is (re)written"
        if hdr and wnodes:
            starts = [m for m, lab in cfg.succ[hdr[0]] if lab == "loop"]
            witness = None
            for st0 in starts:
                if st0 in wnodes:
                    continue
                witness = witness or cfg.must_pass(st0, wnodes, {hdr[0], cfg.exit})
            if witness is None:
                rep.ok("R12.3", sub, "every normal path through one iteration of the RUNTIME_FILES loop reaches the write", emit.loc(lp))
            else:
                rep.violation("R12.3", sub, f"{emit.fq}|copy-skipped|{cfg.describe_path(witness)}",
                              f"an iteration of the RUNTIME_FILES loop can finish without writing the file ({cfg.describe_path(witness)}): an existing, "
                              "different runtime module in the core is left as it is (not byte-for-byte the shipped one)", emit.loc(lp))
        else:
            rep.error("R12.3: could not locate the RUNTIME_FILES loop header / write in the CFG")

    # ---------------------------------------------------------------- R12.4 registrations
    # producers of *relative* module paths (their result may start with "."): such a value may only feed add_relative_import - passed to
    # add_import it is emitted verbatim as `from ...core.x import y`, which can climb above the top-level package
    rc = repo.module("context.render_context").classes.get("RenderContext")
    REL: Set[str] = set()
    if rc is not None:
        def _rel_literal(e: ast.AST) -> bool:
            if isinstance(e, ast.BinOp) and isinstance(e.op, ast.Add) and isinstance(e.left, ast.Constant) and isinstance(e.left.value, str) and e.left.value.startswith("."):
                return True
            if isinstance(e, ast.JoinedStr) and e.values and isinstance(e.values[0], ast.Constant) and str(e.values[0].value).startswith("."):
                return True
            if isinstance(e, ast.BinOp) and isinstance(e.op, ast.Mult) and any(isinstance(x, ast.Constant) and x.value == "." for x in (e.left, e.right)):
                return True
            return False
        for _ in range(4):
            for mname, m in rc.methods.items():
                if mname in REL:
                    continue
                for n in own_nodes(m.node):
                    if isinstance(n, (ast.Return, ast.Assign)) and n.value is not None:
                        if any(_rel_literal(x) for x in ast.walk(n.value)):
                            REL.add(mname)
                        if isinstance(n, ast.Return) and any(isinstance(x, ast.Call) and isinstance(x.func, ast.Attribute) and x.func.attr in REL for x in ast.walk(n.value)):
                            REL.add(mname)
    rep.count("R12.4:relative_path_producers", sorted(REL))
    n_sites = 0
    for mn in live:
        mod = repo.modules[mn]
        if mn in rt_names and mn != "pyopenapi_gen.core.utils":
            continue
        for fn in mod.functions.values():
            if "<locals>" in fn.qualname:
                continue
            for c in calls_in(fn.node, include_nested_defs=True):
                if not (isinstance(c.func, ast.Attribute) and c.func.attr in REG_METHODS):
                    continue
                if c.func.attr == "add_typing_import":
                    continue
                # module argument: first positional, or keyword module/logical_module; conditional: second
                arg = None
                pos = 1 if c.func.attr == "add_conditional_import" else 0
                if len(c.args) > pos:
                    arg = c.args[pos]
                for kw in c.keywords:
                    if kw.arg in ("module", "logical_module", "relative_module"):
                        arg = kw.value
                if arg is None:
                    continue
                n_sites += 1
                from sa.match import Locals as _L12

                ai = _L12(fn.node).inline(arg) if not isinstance(fn.node, ast.Lambda) else arg
                relp = [x.func.attr for x in ast.walk(ai) if isinstance(x, ast.Call) and isinstance(x.func, ast.Attribute) and x.func.attr in REL]
                if relp and c.func.attr in ("add_import", "add_plain_import", "add_conditional_import"):
                    rep.violation("R12.4", f"{fn.module.relpath}:{fn.qualname} `{c.func.attr}` fed by a relative-path producer", f"{fn.fq}|relative-path-into-absolute-import|{relp[0]}",
                                  f"`{norm(c)[:80]}`: `{relp[0]}()` can return a dot-relative path, which `{c.func.attr}` emits verbatim: for a sibling core the "
                                  "generated module says `from ...core.x import y` and fails with 'attempted relative import beyond top-level package'", fn.loc(c))
                    continue
                _check_module_expr(rep, "R12.4", fn, c, arg)
    rep.count("R12.4:registration_sites", n_sites)
    rep.require(n_sites >= 150, f"R12.4: only {n_sites} import-registration call sites found (floor 150)")

    # ---------------------------------------------------------------- R12.5 template-embedded imports
    n_tmpl = 0
    passthrough = {"pyopenapi_gen.context.import_collector", "pyopenapi_gen.context.render_context"}
    for mn in live:
        mod = repo.modules[mn]
        if mn in rt_names:
            continue
        docs = _docstring_ids(mod.tree)
        seen_const: Set[int] = set()
        for n in ast.walk(mod.tree):
            if isinstance(n, ast.JoinedStr):
                holes: List[ast.AST] = []
                txt = ""
                for v in n.values:
                    if isinstance(v, ast.Constant):
                        txt += str(v.value)
                        seen_const.add(id(v))
                    else:
                        holes.append(v.value)  # type: ignore[attr-defined]
                        txt += HOLE
                items = _import_lines(txt, holes)
            elif isinstance(n, ast.Constant) and isinstance(n.value, str) and id(n) not in docs and id(n) not in seen_const:
                if isinstance(parent(n), ast.JoinedStr):
                    continue
                items = _import_lines(n.value, [])
            else:
                continue
            for modtxt, hole_expr in items:
                n_tmpl += 1
                fnn = _enclosing_fn(n)
                sub = f"{mod.relpath}:{getattr(fnn, 'name', '<module>')} template `{modtxt.replace(HOLE, '{…}')}`"
                loc = f"{mod.relpath}:{n.lineno}"
                if modtxt.startswith(HOLE):
                    if mn in passthrough:
                        rep.ok("R12.5", sub, "generic import renderer: module text comes from registrations (checked by R12.4)", loc)
                    elif hole_expr is not None and _core_rooted(hole_expr, fnn):
                        rep.ok("R12.5", sub, f"rooted at the designated core package `{norm(hole_expr)}`", loc)
                    else:
                        rep.violation("R12.5", sub, f"{mn}|template-import|{norm(hole_expr) if hole_expr is not None else '?'}|{modtxt.replace(HOLE, '{}')}",
                                      "template import whose module is a dynamic value not rooted at the core package", loc)
                    continue
                ok, why = classify_module(modtxt.replace(HOLE, "x"))
                if modtxt.split(".")[0] in ("myapi", "my_client", "my_api_client"):
                    # usage examples inside generated docstrings/comments
                    rep.ok("R12.5", sub, "documentation example inside a generated docstring", loc)
                elif ok:
                    rep.ok("R12.5", sub, why, loc)
                else:
                    rep.violation("R12.5", sub, f"{mn}|template-import|{modtxt.replace(HOLE, '{}')}", f"template {why}", loc)
    rep.count("R12.5:template_import_statements", n_tmpl)
    rep.require(n_tmpl >= 30, f"R12.5: only {n_tmpl} template-embedded import statements found (floor 30)")
    _guarded(rep, rule_postprocess_skips_runtime_copies, repo, rep, "R12.6")
    # R12.7: imports of the core are rendered against core_package_name for the package itself and for its sub-modules   [= R1.11]
    from rules.c01 import rule_completion_spares_core

    _guarded(rep, rule_completion_spares_core, repo, rep, "R12.7")
    # R12.8: the in-place rewriting tools never get a directory (a directory target reformats the runtime copies below it)     [= R10.7]
    from rules.c10 import rule_postprocess_targets_are_files

    _guarded(rep, rule_postprocess_targets_are_files, repo, rep, "R12.8")
    # R12.9: a non-force run that succeeds has compared the runtime copies too (no generated file is left out of the comparison)  [= R9.4]
    from rules.c09 import rule_show_diffs_compares_all

    _guarded(rep, rule_show_diffs_compares_all, repo, rep, "R12.9")


def _inside_stmt(node: ast.AST, anc: ast.AST) -> bool:
    p = node
    while p is not None:
        if p is anc:
            return True
        p = parent(p)
    return False


def _import_lines(txt: str, holes: List[ast.AST]) -> List[Tuple[str, Optional[ast.AST]]]:
    out = []
    for m in IMPORT_LINE.finditer(txt):
        modtxt = m.group(1) or m.group(2)
        if modtxt is None:
            continue
        hole_expr = None
        if HOLE in modtxt:
            idx = txt[: m.start(1) if m.group(1) else m.start(2)].count(HOLE)
            if idx < len(holes):
                hole_expr = holes[idx]
        # prose such as "import failed" is not code: require an identifier-ish module
        if not re.fullmatch(r"[\w.\x00]+", modtxt):
            continue
        out.append((modtxt, hole_expr))
    return out


def _check_module_expr(rep: Report, rule: str, fn: Function, call: ast.Call, arg: ast.AST, depth: int = 0) -> None:
    sub = f"{fn.module.relpath}:{fn.qualname} `{norm(call)[:80]}`"
    loc = fn.loc(call)
    s = const_str(arg)
    if s is not None:
        if call.func.attr == "add_relative_import" and not s.startswith("."):  # type: ignore[attr-defined]
            s = "." + s
        ok, why = classify_module(s)
        if ok:
            rep.ok(rule, sub, f"constant module `{s}`: {why}", loc)
        else:
            rep.violation(rule, sub, f"{fn.fq}|register|{s}", f"registers an import that {why}: `{s}`", loc)
        return
    if isinstance(arg, ast.JoinedStr):
        v0 = arg.values[0] if arg.values else None
        if isinstance(v0, ast.Constant):
            ok, why = classify_module(str(v0.value).split(".")[0] or ".")
            if ok:
                rep.ok(rule, sub, f"f-string with constant root `{v0.value}`: {why}", loc)
            else:
                rep.violation(rule, sub, f"{fn.fq}|register|{v0.value}", f"registers an import that {why}", loc)
            return
        rep.ok(rule, sub, f"dynamic module rooted at `{norm(v0.value) if v0 is not None else ''}` (package-relative/core path computed at run time)", loc)  # type: ignore[union-attr]
        return
    if isinstance(arg, ast.Name) and depth < 2:
        defs = _local_def(fn.node, arg.id)
        consts = [d for d in defs if const_str(d) is not None]
        if consts and len(consts) == len(defs):
            for d in consts:
                ok, why = classify_module(const_str(d) or "")
                if not ok:
                    rep.violation(rule, sub, f"{fn.fq}|register|{const_str(d)}", f"registers an import that {why}: `{const_str(d)}`", loc)
                    return
            rep.ok(rule, sub, f"variable bound to constant(s) {[const_str(d) for d in consts]}", loc)
            return
    # any other expression: every module-name literal that can flow into it (conditional-expression arms, `or` operands, every
    # definition of the locals it mentions, values of dict displays) must pass the allow-list
    from sa.match import Locals as _Lm

    LM = _Lm(fn.node) if not isinstance(fn.node, ast.Lambda) else None
    seen_names: Set[str] = set()
    lits: List[str] = []

    def collect(e: ast.AST, d: int = 0) -> None:
        """module-name literals in *value* positions of the expression (not lookup keys, attribute names or compared literals)"""
        if isinstance(e, ast.Constant) and isinstance(e.value, str):
            if re.fullmatch(r"\.*[A-Za-z_][\w]*(\.[A-Za-z_][\w]*)*", e.value):
                lits.append(e.value)
        elif isinstance(e, ast.IfExp):
            collect(e.body, d)
            collect(e.orelse, d)
        elif isinstance(e, ast.BoolOp):
            for v in e.values:
                collect(v, d)
        elif isinstance(e, ast.JoinedStr):
            if e.values and isinstance(e.values[0], ast.Constant) and str(e.values[0].value).split(".")[0]:
                lits.append(str(e.values[0].value).split(".")[0])
        elif isinstance(e, ast.BinOp) and isinstance(e.op, ast.Add):
            collect(e.left, d)
        elif isinstance(e, ast.Name) and LM is not None and e.id not in seen_names and d < 3:
            seen_names.add(e.id)
            for _, v, _ in LM.defs.get(e.id, []):
                if v is not None:
                    collect(v, d + 1)

    collect(arg)
    badl = [(l, classify_module(l)[1]) for l in lits if not classify_module(l)[0]]
    if badl:
        rep.violation(rule, sub, f"{fn.fq}|register|{badl[0][0]}", f"the module expression `{norm(arg)[:50]}` can evaluate to `{badl[0][0]}`, which {badl[0][1]}", loc)
        return
    rep.ok(rule, sub, f"dynamic module expression `{norm(arg)[:60]}` (literals that can reach it: {sorted(set(lits)) or 'none'})", loc)


# ------------------------------------------------------------------------------------------------ R12.6 nobody rewrites the runtime copies
def rule_postprocess_skips_runtime_copies(repo: Repo, rep, rule: str = "R12.6") -> None:
    """R12.3 shows that CoreEmitter writes the runtime modules verbatim; the only other writer of generated files in `generate()` is the
    post-processor (formatters run in place).  Every list handed to `PostprocessManager(...).run(...)` must have passed a filter that
    removes the paths built from RUNTIME_FILES."""
    from rules.c10 import generation_function as _genfn

    gen = _genfn(repo)
    cls = gen.module.classes.get("ClientGenerator")
    from sa.match import Locals as _L

    GL = _L(gen.node)
    runs = [c for c in calls_in(gen.node) if isinstance(c.func, ast.Attribute) and c.func.attr == "run" and c.args
            and "PostprocessManager" in norm(GL.inline(c.func.value, stop=tuple(GL.params)))]
    rep.count(f"{rule}:postprocess_calls", len(runs))
    rep.require(len(runs) >= 1, f"{rule}: no PostprocessManager(...).run(...) call found in generate (anchor)")

    lexical: List[bool] = []

    def filters_runtime(scope: ast.AST, L) -> bool:
        """a comprehension / filter in `scope` whose condition is `<path> not in <S>` with S derived from RUNTIME_FILES"""
        for n in ast.walk(scope):
            conds: List[ast.AST] = []
            if isinstance(n, ast.comprehension):
                conds = list(n.ifs)
            elif isinstance(n, ast.If):
                conds = [n.test]
            for cnd in conds:
                for x in ast.walk(cnd):
                    if isinstance(x, ast.Compare) and len(x.ops) == 1 and isinstance(x.ops[0], ast.NotIn):
                        src = L.inline(x.comparators[0], stop=tuple(L.params)) if L is not None else x.comparators[0]
                        if isinstance(src, ast.Name):
                            # a set filled element by element (`s = set()` ... `for .. in RUNTIME_FILES: s.add(<path>)`): what is added, and from which loop
                            parts: List[ast.AST] = []
                            for c_ in ast.walk(scope):
                                if isinstance(c_, ast.Call) and isinstance(c_.func, ast.Attribute) and isinstance(c_.func.value, ast.Name) and c_.func.value.id == src.id \
                                        and c_.func.attr in ("add", "append", "update", "extend") and c_.args:
                                    parts.append(c_.args[0])
                                    lp_ = parent(c_)
                                    while lp_ is not None and not isinstance(lp_, (ast.For, ast.FunctionDef, ast.AsyncFunctionDef)):
                                        lp_ = parent(lp_)
                                    if isinstance(lp_, ast.For):
                                        parts.append(lp_.iter)
                            if parts:
                                src = ast.Tuple(elts=parts, ctx=ast.Load())
                        if "RUNTIME_FILES" in norm(src):
                            # CoreEmitter reports its destinations as join(out_dir, relpath(core_dir, out_dir), ...): for a core outside the
                            # client package those paths contain `..` and equal the plain `core_dir / name` only after resolution
                            def _phys(e: ast.AST) -> bool:
                                return any(isinstance(k, ast.Call) and ((isinstance(k.func, ast.Attribute) and k.func.attr in ("resolve", "samefile")) or
                                                                         (dotted(k.func) or "").endswith(("realpath", "normpath"))) for k in ast.walk(e))

                            lexical.append(not (_phys(x.left) and _phys(src)))
                            return True
        return False

    for c in runs:
        del lexical[:]
        arg = GL.inline(c.args[0], stop=tuple(GL.params))
        sub = f"{gen.module.relpath}:generate `{norm(c)[:60]}`"
        ok = filters_runtime(arg, GL)
        for h in [x for x in ast.walk(arg) if isinstance(x, ast.Call)]:
            hn = h.func.attr if isinstance(h.func, ast.Attribute) else h.func.id if isinstance(h.func, ast.Name) else None
            hf = (cls.methods.get(hn) if cls is not None and hn else None) or (gen.module.functions.get(hn) if hn else None)
            if hf is None and cls is not None and hn:
                # a thin class alias of a module function: `_without_runtime_copies = staticmethod(_module_function)`
                for st in cls.node.body:
                    if isinstance(st, ast.Assign) and any(isinstance(t, ast.Name) and t.id == hn for t in st.targets):
                        tgt_names = [x.id for x in ast.walk(st.value) if isinstance(x, ast.Name) and x.id in gen.module.functions]
                        if tgt_names:
                            hf = gen.module.functions[tgt_names[0]]
            if hf is None or hf is gen:
                continue
            from sa.resolve import follow_delegation as _fd126

            hf = _fd126(repo, hf)  # `_without_runtime_copies` may be a thin alias of a module function
            ok = ok or filters_runtime(hf.node, _L(hf.node))
        if ok and any(lexical):
            rep.violation(rule, sub, f"{gen.fq}|runtime-filter-compares-unresolved-paths",
                          "the filter compares the emitted paths with `core_dir / <name>` without resolving both sides: the paths CoreEmitter reports for a core outside "
                          "the client package contain `..` (`<out>/../shared_core/x.py`), never compare equal, and the formatters rewrite the verbatim runtime copies", gen.loc(c))
        elif ok:
            rep.ok(rule, sub, "the file list is filtered against the resolved paths built from RUNTIME_FILES before the formatters run: the runtime copies stay byte-for-byte", gen.loc(c))
        else:
            rep.violation(rule, sub, f"{gen.fq}|postprocess-rewrites-runtime-copies",
                          "the formatters (ruff format / isort / unused-import fixes, run in place) receive the runtime modules CoreEmitter copied verbatim: "
                          "with the target project's defaults they are re-wrapped, so the core package no longer holds the shipped runtime byte for byte", gen.loc(c))


# ------------------------------------------------------------------------------------------------ imports executed at import time (C01/R1.18)
def _import_time(node: ast.AST) -> bool:
    """Is the statement executed when the module is imported?  (not inside a function / lambda, not under `if TYPE_CHECKING`, not optional)"""
    p = parent(node)
    while p is not None:
        if isinstance(p, (ast.FunctionDef, ast.AsyncFunctionDef, ast.Lambda)):
            return False
        if isinstance(p, ast.If) and "TYPE_CHECKING" in norm(p.test) and not isinstance(p.test, ast.UnaryOp):
            return False
        p = parent(p)
    return not _in_optional_import_guard(node)


def rule_import_time_imports(repo: Repo, rep, rule: str) -> None:
    """A shipped runtime module that imports, at import time, anything but the standard library, httpx, cattrs or a sibling cannot be
    imported in an interpreter that has only the documented runtime dependencies."""
    n = 0
    for modname, filename, dst, line in runtime_files(repo):
        dn = f"{modname}.{filename[:-3]}"
        if dn not in repo.modules:
            continue
        mod = repo.modules[dn]
        bad = []
        for st in ast.walk(mod.tree):
            if isinstance(st, ast.Import):
                targets = [a.name for a in st.names]
            elif isinstance(st, ast.ImportFrom):
                targets = [("." * st.level) + (st.module or "")]
            else:
                continue
            if not _import_time(st):
                continue
            for t in targets:
                n += 1
                ok, why = classify_module(t)
                if not ok:
                    bad.append((st, t, why))
        for st, t, why in bad:
            rep.violation(rule, f"{mod.relpath} `{norm(st)[:70]}`", f"{mod.name}|import-time|{t}",
                          f"executed when the copied module is imported: {why} - the emitted core (and every module importing it) raises ModuleNotFoundError "
                          "where only httpx and cattrs are installed", f"{mod.relpath}:{st.lineno}")
        if not bad:
            rep.ok(rule, f"{mod.relpath} import-time imports", "stdlib / httpx / cattrs / relative only", f"{mod.relpath}:1")
    rep.count(f"{rule}:import_time_imports", n)
    rep.require(n >= 20, f"{rule}: only {n} import-time imports found in the runtime payload (floor 20)")
