"""C14 - union values are decoded as the right variant, never lossily.

R14.1  the discriminated path is exact: a present discriminator with a mapped value structures exactly that variant and a
       failure is raised (never falls through to the sequential loop); an unmapped value raises; the presence test is
       `property in data` (a null discriminator is a value, not absence)
R14.2  first-success loops are lossless only if extra keys are rejected                      [finding on the pinned tree]
R14.3  Union[...] is rendered in spec order with order-preserving de-duplication
R14.10 the IR's discriminator mapping is the document's mapping, unfiltered (bare-name values and foreign refs included)
R14.9  every loop of _structure_union that tries variants iterates them in the order of get_args(union) (no sorted / reversed / set view)
R14.8  DiscriminatorEnumCollector consults the discriminator mapping on every path to 'skip this variant' (must-pass-through)
R14.7  named union / array members are expanded to their underlying type only when they are primitive aliases (decision evaluated over the `type` domain)
R14.6  no function of the converter memoises (functools cache / table keyed by the type) data derived from the member order of a typing construct
R14.5  the generated get_mapping() has one entry per discriminator value (written from the spec's mapping itself)
R14.11 the discriminator metadata is read from the type as it was handed in (parameter never re-bound before the lookup), and no member
       of the union is replaced by its own type arguments (an Annotated member keeps its metadata)
R14.12 a variant rejects what it does not describe: `required` is merged from every allOf component and a required field has no default,
       so that first-match decoding cannot capture a later variant's payload                                  [= R2.3 / R2.4]
R14.4  discriminated aliases keep their metadata for every Union spelling the type service can produce
R14.13 the dataclass hook factories resolve field types with include_extras=True: a discriminated union field keeps its metadata next to a quoted self reference  [= R16.13]
R14.15 a JSON scalar is decoded into the primitive variant of its own type: the coercing first-success loop over the non-dataclass variants is
       entered only after the candidates were narrowed by `type(data)` / `isinstance(data, ...)` (Union[int, str] never turns "007" into 7)
R14.14 a discriminator without explicit mapping is dispatched through a mapping built from the union's members (implicit mapping)
"""
from __future__ import annotations

import ast
from typing import List, Optional, Set

from sa.cfg import CFG, guards
from sa.model import full, AnalysisError, Repo, calls_in, const_str, dotted, norm, own_nodes, parent
from sa.match import Locals, conjuncts, match, names_in
from sa.report import Report


_R146_EXAMPLE = '''
from functools import lru_cache

@lru_cache(maxsize=None)
def classify(union_type):
    return tuple(a for a in get_args(union_type) if a is not type(None))
'''


def _order_memo_hazards(tree: ast.AST, imports=None):
    """Functions that memoise (functools cache decorator, or a table keyed by the parameter) a result derived from the *member order*
    of a typing construct given as parameter (`get_args(param)`): typing.Union compares and hashes without regard to member order
    (Union[A, B] == Union[B, A]), so the first spelling's answer is served for the other one."""
    out = []
    n_fn = 0
    for fn in ast.walk(tree):
        if not isinstance(fn, (ast.FunctionDef, ast.AsyncFunctionDef)):
            continue
        n_fn += 1
        params = [a.arg for a in fn.args.posonlyargs + fn.args.args + fn.args.kwonlyargs]
        ordered = [p for p in params if any(
            isinstance(c, ast.Call) and (dotted(c.func) or "").split(".")[-1] == "get_args" and any(isinstance(x, ast.Name) and x.id == p for a in c.args for x in ast.walk(a))
            for c in ast.walk(fn))]
        if not ordered:
            continue
        # only results that keep an order: a sequence (tuple/list display, comprehension, tuple()/list() call, a list that is appended to);
        # order-free answers (any()/all()/bool tests, sets) are safe to share between Union[A, B] and Union[B, A]
        appended = {c.func.value.id for c in ast.walk(fn) if isinstance(c, ast.Call) and isinstance(c.func, ast.Attribute) and c.func.attr in ("append", "extend", "insert")
                    and isinstance(c.func.value, ast.Name)}
        def _seq(e: ast.AST) -> bool:
            for x in ast.walk(e):
                if isinstance(x, (ast.Tuple, ast.List, ast.ListComp)):
                    return True
                if isinstance(x, ast.Call) and isinstance(x.func, ast.Name) and x.func.id in ("tuple", "list") and x.args:
                    return True
                if isinstance(x, ast.Name) and x.id in appended:
                    return True
            return False
        if not any(isinstance(r, ast.Return) and r.value is not None and _seq(r.value) for r in ast.walk(fn)):
            continue
        def _deco_name(d: ast.AST) -> str:
            nm = dotted(d.func if isinstance(d, ast.Call) else d) or ""
            tgt = (imports or {}).get(nm.split(".")[0])
            if tgt and tgt[1] and "." not in nm:
                return tgt[1]  # `from functools import lru_cache as _lru`
            return nm.split(".")[-1]
        deco = [d for d in fn.decorator_list if _deco_name(d) in ("lru_cache", "cache", "cached_property")]
        if deco:
            out.append((fn, ordered[0], deco[0], "functools cache"))
            continue
        for st in ast.walk(fn):
            if isinstance(st, ast.Assign) and len(st.targets) == 1 and isinstance(st.targets[0], ast.Subscript) and isinstance(st.targets[0].slice, ast.Name) and st.targets[0].slice.id in ordered \
                    and isinstance(st.targets[0].value, (ast.Name, ast.Attribute)) and any(
                        isinstance(r, ast.Compare) and isinstance(r.ops[0], (ast.In, ast.NotIn)) and norm(r.comparators[0]) == norm(st.targets[0].value) for r in ast.walk(fn)):
                out.append((fn, st.targets[0].slice.id, st, f"table `{norm(st.targets[0].value)}`"))
    return out, n_fn


def run(repo: Repo, rep: Report, tier: str) -> None:
    from sa.report import guarded as _guarded

    conv = repo.module("core.cattrs_converter")
    # ---------------------------------------------------------------- R14.6 no order-blind memo of a union's members
    hz, _ = _order_memo_hazards(ast.parse(_R146_EXAMPLE))
    rep.require(len(hz) == 1, "R14.6: the built-in positive example is no longer recognised - the rule is broken")
    hz, n_fn = _order_memo_hazards(conv.tree, conv.imports)
    rep.count("R14.6:functions", n_fn)
    for fn, p, node, how in hz:
        rep.violation("R14.6", f"{conv.relpath}:{fn.name} memoised by `{p}`", f"{conv.name}:{fn.name}|order-blind-memo|{how.split()[0]}",
                      f"`{fn.name}` derives ordered data from `get_args({p})` and is memoised per `{p}` ({how}): typing.Union ignores member order in == and hash, so "
                      "Union[A, B] and Union[B, A] share one entry and the second union is decoded in the first one's variant order", f"{conv.relpath}:{node.lineno}")
    if not hz:
        rep.ok("R14.6", f"{conv.relpath} memoised functions", f"{n_fn} functions: none memoises data derived from the member order of a type parameter", f"{conv.relpath}:1")
    su = conv.functions.get("_structure_union")
    if su is None:
        raise AnalysisError("anchor vanished: _structure_union")
    if not any(isinstance(c, ast.Call) and (dotted(c.func) or "").endswith("is_dataclass") for c in ast.walk(su.node)):
        from sa.flatten import flatten as _fl14u

        su = _fl14u(su)  # the variant classification was moved into a helper (`a, b, c = _partition_union_variants(args)`)
    cfg = CFG(su.node)
    dom = cfg.dominators()
    L = Locals(su.node)
    sub0 = f"{conv.relpath}:_structure_union"
    # the discriminated region: `for <m> in <union>.__metadata__`
    def _meta_loops(fn_, L_):
        return [n for n in own_nodes(fn_.node) if isinstance(n, ast.For) and isinstance(n.target, ast.Name)
                and any((isinstance(x, ast.Attribute) and x.attr == "__metadata__") or (
                    isinstance(x, ast.Call) and dotted(x.func) == "getattr" and len(x.args) >= 2 and const_str(x.args[1]) == "__metadata__") for x in ast.walk(L_.inline(n.iter)))]

    mloops = _meta_loops(su, L)
    if not mloops and not getattr(su, "flattened", False):
        from sa.flatten import flatten as _fl14m

        su = _fl14m(su)  # the discriminated lookup was moved into a helper of the module
        cfg = CFG(su.node)
        dom = cfg.dominators()
        L = Locals(su.node)
        mloops = _meta_loops(su, L)
    rep.require(len(mloops) == 1, f"R14.1: expected one loop over <union>.__metadata__, found {len(mloops)}")
    if not mloops:
        return
    mloop = mloops[0]
    mvar = mloop.target.id
    inside = {id(x) for x in ast.walk(mloop)}

    def is_structure_return(a: ast.AST) -> bool:
        return isinstance(a, ast.Return) and a.value is not None and any(
            isinstance(c, ast.Call) and isinstance(c.func, ast.Attribute) and c.func.attr == "structure" for c in ast.walk(a.value))

    mapped = [n for n in cfg.nodes if n.kind == "stmt" and not n.copy and is_structure_return(n.ast) and id(n.ast) in inside]
    rep.require(len(mapped) == 1, f"R14.1: expected one mapped-variant structure call inside the metadata loop, found {len(mapped)}")
    # sequential first-success loops: loops outside the metadata loop whose body returns `<converter>.structure(...)`
    seq_stmts = [n for n in own_nodes(su.node) if isinstance(n, ast.For) and id(n) not in inside and any(is_structure_return(x) for x in ast.walk(n))]
    seq_loops = [n.id for n in cfg.nodes if n.kind == "iter" and n.stmt in seq_stmts]
    rep.require(len(seq_loops) >= 2, f"R14.1: sequential variant loops not found ({len(seq_loops)})")
    map_vars = {name for name, _, _ in L.bound_from("ANY_m.get_mapping()")}
    for mnode in mapped:
        # exceptional edge from the mapped structure must only reach raises (never a sequential loop)
        exc_succ = [m for m, lab in cfg.succ[mnode.id] if lab == "exc"]
        reach: Set[int] = set()
        for m in exc_succ:
            reach |= cfg.reachable(m)
        if exc_succ and not (reach & set(seq_loops)) and cfg.exit not in reach:
            rep.ok("R14.1", sub0 + " mapped variant failure", "a failure while structuring the mapped variant can only leave through `raise` (no retry as another variant)", su.loc(mnode.ast))
        else:
            rep.violation("R14.1", sub0 + " mapped variant failure", f"{su.fq}|mapped-failure-falls-through",
                          "when the mapped variant fails to decode control can reach the sequential first-success loop (the payload is retried as another variant)", su.loc(mnode.ast))
        # presence: every positive guard conjunct that looks at <m>.property_name must be the key-presence test `<m>.property_name in <payload>`
        conj: List[ast.AST] = []
        def _neg(e: ast.AST) -> ast.AST:
            if isinstance(e, ast.UnaryOp) and isinstance(e.op, ast.Not):
                return e.operand
            if isinstance(e, ast.Compare) and len(e.ops) == 1 and isinstance(e.ops[0], (ast.In, ast.NotIn)):
                return ast.copy_location(ast.Compare(left=e.left, ops=[ast.NotIn() if isinstance(e.ops[0], ast.In) else ast.In()], comparators=e.comparators), e)
            return ast.copy_location(ast.UnaryOp(op=ast.Not(), operand=e), e)

        for g, pol in guards(cfg, mnode.id, dom):
            if g.kind != "test" or pol is None or id(g.ast) not in inside:
                continue
            if pol is True:
                conj += conjuncts(g.ast, L, stop=(mvar,) + tuple(L.params))
            else:
                # guard-and-continue style: on the false branch of `A or B` both `not A` and `not B` hold
                t = g.ast
                while isinstance(t, ast.UnaryOp) and isinstance(t.op, ast.Not) and isinstance(t.operand, ast.UnaryOp) and isinstance(t.operand.op, ast.Not):
                    t = t.operand.operand
                if isinstance(t, ast.UnaryOp) and isinstance(t.op, ast.Not):
                    conj += conjuncts(t.operand, L, stop=(mvar,) + tuple(L.params))
                elif isinstance(t, ast.BoolOp) and isinstance(t.op, ast.Or):
                    conj += [_neg(v) for v in t.values]
                else:
                    conj.append(_neg(t))
        stop = (mvar,) + tuple(L.params)

        def presence_like(c: ast.AST) -> Optional[bool]:
            """True: key-presence test; False: a value-based test of the discriminator (get / truthiness); None: unrelated."""
            ci = L.inline(c, stop=stop)
            if match("VAR_m.property_name in ANY_d", ci) is not None:
                return True
            for x in ast.walk(ci):
                if isinstance(x, ast.Call) and isinstance(x.func, ast.Attribute) and x.func.attr == "get" and x.args and match("VAR_m.property_name", x.args[0]) is not None:
                    return False
            if isinstance(ci, ast.Subscript) and match("VAR_m.property_name", ci.slice) is not None:
                return False  # `if data[<m>.property_name]:` - truthiness of the value
            return None

        about = [c for c in conj if presence_like(c) is not None]
        okp = bool(about) and all(presence_like(c) for c in about)
        if okp:
            rep.ok("R14.1", sub0 + " discriminator presence test", f"`{norm(about[0])}`: a present discriminator (even null) takes the exact path", su.loc(about[0]))
        else:
            rep.violation("R14.1", sub0 + " discriminator presence test", f"{su.fq}|presence|{[norm(c)[:60] for c in about]}",
                          "the discriminated path is entered on something other than key presence: a payload whose discriminator is present but null/falsy is "
                          "guessed by first-success instead of being rejected as unmapped", su.loc(mnode.ast))
    # unmapped value raises: a raise inside the metadata loop (not in a handler) guarded by a test on the mapping
    unm = []
    for n in cfg.nodes:
        if isinstance(n.ast, ast.Raise) and not n.copy and id(n.ast) in inside and not any(isinstance(a, ast.ExceptHandler) for a in _ancestors(n.ast)):
            gs = [g for g, pl in guards(cfg, n.id, dom) if g.kind == "test" and id(g.ast) in inside]
            if any(set(names_in(g.ast)) & map_vars for g in gs):
                unm.append(n)
    if unm:
        rep.ok("R14.1", sub0 + " unmapped value", "a discriminator value absent from a non-empty mapping raises ValueError", su.loc(unm[0].ast))
    else:
        rep.violation("R14.1", sub0 + " unmapped value", f"{su.fq}|unmapped-not-raised", "an unmapped discriminator value no longer raises", su.loc())

    # ---------------------------------------------------------------- R14.2 first-success loops
    # the dataclass-variant list = the list that receives `.append(x)` under an `is_dataclass(x)` test
    dc_lists = set()
    for n in cfg.nodes:
        if n.kind == "stmt" and n.ast is not None:
            for c in calls_in(n.ast):
                if isinstance(c.func, ast.Attribute) and c.func.attr == "append" and isinstance(c.func.value, ast.Name):
                    if any(pl is True and "is_dataclass(" in norm(g.ast) for g, pl in guards(cfg, n.id, dom) if g.kind == "test"):
                        dc_lists.add(c.func.value.id)
    rep.require(len(dc_lists) >= 1, "R14.2: the list of dataclass variants was not found")
    for loop in seq_stmts:
        if not (isinstance(loop.iter, ast.Name) and L.root(loop.iter.id) in dc_lists):
            continue
        body_txt = full(loop)
        rejects_extra = "forbid_extra_keys" in body_txt or "fields(" in body_txt and "keys()" in body_txt
        sub = sub0 + " sequential loop over dataclass variants"
        if rejects_extra:
            rep.ok("R14.2", sub, "a variant is accepted only if it accounts for every payload key", su.loc(loop))
        else:
            rep.violation("R14.2", sub, f"{su.fq}|first-success-ignores-extra-keys",
                          "the first dataclass variant that structures wins, and dataclass structuring ignores unknown keys: a payload of a later variant whose "
                          "required fields are a superset of an earlier one's is decoded as the earlier variant and its extra keys are dropped", su.loc(loop))

    # ---------------------------------------------------------------- R14.15 exact JSON type before coercion
    # cattrs structures int / float / bool / str by calling the type (`int("007")`, `str(404)`, `bool("false")`): in a first-success loop the first
    # *coercible* primitive wins, not the one the value is.  The loop over the non-dataclass variants must therefore run on candidates that were
    # narrowed by the run-time type of the payload (an assignment to the iterated list, or a guard inside the loop, that depends on
    # `type(<data>)` / `isinstance(<data>, ...)`).
    from rules._memo import name_closure

    a_ = su.node.args  # type: ignore[attr-defined]
    data_p = (a_.posonlyargs + a_.args)[0].arg if (a_.posonlyargs + a_.args) else None
    if data_p is None:
        raise AnalysisError("R14.15: _structure_union has no payload parameter (anchor)")

    def _typed(e: ast.AST) -> bool:
        for x in ast.walk(e):
            if isinstance(x, ast.Call) and isinstance(x.func, ast.Name) and x.func.id in ("type", "isinstance") and x.args and isinstance(x.args[0], ast.Name) and x.args[0].id == data_p:
                return True
        return False

    typed_names = {t.id for st in own_nodes(su.node) if isinstance(st, (ast.Assign, ast.AnnAssign)) and st.value is not None and _typed(st.value)
                   for t in (st.targets if isinstance(st, ast.Assign) else [st.target]) if isinstance(t, ast.Name)}
    n_other = 0
    for loop in seq_stmts:
        if not isinstance(loop.iter, ast.Name) or L.root(loop.iter.id) in dc_lists:
            continue
        n_other += 1
        v = loop.iter.id
        narrowed = False
        for st in own_nodes(su.node):
            if isinstance(st, ast.Assign) and any(isinstance(t, ast.Name) and t.id == v for t in st.targets) and not isinstance(st.value, (ast.List, ast.Constant)) \
                    and getattr(st, "lineno", 0) < loop.lineno:
                deps = name_closure(su.node, {x.id for x in ast.walk(st.value) if isinstance(x, ast.Name)})
                p_ = parent(st)
                gtests = []
                while p_ is not None and p_ is not su.node:
                    if isinstance(p_, ast.If):
                        gtests.append(p_.test)
                    p_ = parent(p_)
                for g in gtests:
                    deps |= name_closure(su.node, {x.id for x in ast.walk(g) if isinstance(x, ast.Name)})
                if _typed(st.value) or any(_typed(g) for g in gtests) or (deps & typed_names):
                    narrowed = True
        # or: inside the loop, a guard in front of the structure call that compares the variant with the payload's type
        for x in ast.walk(loop):
            if isinstance(x, ast.If) and _typed(x.test) and any(isinstance(y, (ast.Continue,)) or is_structure_return(y) for y in ast.walk(x)):
                narrowed = True
        sub = sub0 + " sequential loop over the other (primitive / hooked / generic) variants"
        # JSON has one number type: an integral number (`20`) conforms to a `number` variant (float) when the union has no `integer` variant - the narrowing
        # must say so somewhere (`(int, float) if type(data) is int else ...`, `isinstance(data, int) and float in ...`), else `Union[str, float]` turns 10 into "10"
        int_as_float = False
        for x in ast.walk(su.node):
            tests = []
            if isinstance(x, ast.IfExp):
                tests = [(x.test, x)]
            elif isinstance(x, ast.If):
                tests = [(x.test, x)]
            for t_, whole in tests:
                about_int = any(isinstance(c, ast.Compare) and any(isinstance(y, ast.Name) and y.id == "int" for y in ast.walk(c)) and _typed(c) for c in ast.walk(t_)) or any(
                    isinstance(c, ast.Call) and isinstance(c.func, ast.Name) and c.func.id == "isinstance" and c.args and isinstance(c.args[0], ast.Name) and c.args[0].id == data_p
                    and any(isinstance(y, ast.Name) and y.id == "int" for y in ast.walk(c.args[1])) for c in ast.walk(t_))
                if about_int and any(isinstance(y, ast.Name) and y.id == "float" for y in ast.walk(whole)):
                    int_as_float = True
        if narrowed and not int_as_float:
            rep.violation("R14.15", sub, f"{su.fq}|integral-number-not-a-float",
                          "the candidates are narrowed by the exact Python type of the payload only: an integral JSON number (`10`) is an `int`, so for a union with a `number` variant but no "
                          "`integer` variant nothing matches exactly and the first coercible variant wins - `oneOf: [string, number]` decodes 10 as \"10\"", su.loc(loop))
        elif narrowed:
            rep.ok("R14.15", sub, "the candidates are narrowed by the payload's own JSON type before the coercing first-success loop", su.loc(loop))
        else:
            rep.violation("R14.15", sub, f"{su.fq}|primitive-variants-tried-by-coercion",
                          "the non-dataclass variants are tried in order with converter.structure, and cattrs structures a primitive by calling the type: `Union[int, str]` decodes "
                          "\"007\" as 7, `Union[str, int]` decodes 404 as \"404\", `Union[int, float]` decodes 2.5 as 2 - the payload does not re-encode to itself", su.loc(loop))
    rep.require(n_other >= 1, "R14.15: the sequential loop over the non-dataclass variants was not found (anchor)")

    # ---------------------------------------------------------------- R14.3 order-preserving de-dup in the resolver
    sr = repo.module("types.resolvers.schema_resolver")
    for mname in ("_resolve_one_of", "_resolve_any_of"):
        fn = sr.classes["OpenAPISchemaResolver"].methods.get(mname)
        if fn is None:
            raise AnalysisError(f"anchor vanished: {mname}")
        from sa.flatten import flatten as _fl14

        fn = _fl14(fn)  # oneOf / anyOf may share one implementation (`return self._resolve_union_of(schema.one_of, ...)`)
        FL = Locals(fn.node)
        loops = [n for n in own_nodes(fn.node) if isinstance(n, ast.For)]
        spec_loops = [l for l in loops if isinstance(FL.inline(l.iter), ast.Attribute) and FL.inline(l.iter).attr in ("one_of", "any_of")]
        spec_order = bool(spec_loops)
        # the list(s) filled in the variant loop
        filled = {c.func.value.id for l in spec_loops for c in calls_in(l) if isinstance(c.func, ast.Attribute) and c.func.attr == "append" and isinstance(c.func.value, ast.Name)}
        uses_set = any(isinstance(c.func, ast.Name) and c.func.id in ("set", "frozenset", "sorted") and c.args and (set(names_in(c.args[0])) & filled)
                       for c in calls_in(fn.node)) or any(isinstance(c.func, ast.Attribute) and c.func.attr == "sort" and isinstance(c.func.value, ast.Name)
                                                          and c.func.value.id in filled for c in calls_in(fn.node))
        ordered = not uses_set
        sub = f"{sr.relpath}:{mname} variant order"
        if ordered and not uses_set and spec_order:
            rep.ok("R14.3", sub, "variants are taken in spec order and de-duplicated order-preservingly (dict.fromkeys)", fn.loc())
        else:
            rep.violation("R14.3", sub, f"{fn.fq}|order|ordered={ordered}|set={uses_set}|spec={spec_order}",
                          "Union variants are not rendered in spec order with order-preserving de-duplication: first-success decoding then depends on hashing/sorting", fn.loc())

    _mapping_entries_rule(repo, rep)
    _guarded(rep, rule_underlying_only_for_primitives, repo, rep, "R14.7")
    _guarded(rep, rule_mapping_fallback, repo, rep, "R14.8")
    _guarded(rep, rule_declared_order, repo, rep, "R14.9")
    _guarded(rep, rule_mapping_parsed_whole, repo, rep, "R14.10")
    _guarded(rep, rule_metadata_from_the_given_type, repo, rep, "R14.11")
    _guarded(rep, rule_implicit_mapping, repo, rep, "R14.14")
    from rules import _converter as _cv1413

    _cv1413.rule_field_types_resolved(repo, rep, "R14.13")

    # R14.12: sequential first-match decoding is only as exact as the variants' required fields (rules of C02)
    from rules._reuse import reuse as _reuse1412

    _reuse1412(repo, rep, "c02", {"R2.3": "R14.12", "R2.4": "R14.12"})
    # ---------------------------------------------------------------- R14.4 alias keeps discriminator metadata
    ra = repo.func("core.writers.python_construct_renderer:PythonConstructRenderer.render_alias")
    AL = Locals(ra.node)

    def union_test(c: ast.AST) -> bool:
        return match("VAR_t.startswith('Union[')", AL.inline(c, stop=tuple(AL.params))) is not None

    tests = [n for n in own_nodes(ra.node) if isinstance(n, ast.If) and any(union_test(c) for c in (
        n.test.values if isinstance(n.test, ast.BoolOp) and isinstance(n.test.op, ast.And) else [n.test]))]
    rep.require(len(tests) == 1, f"R14.4: expected one `<target>.startswith('Union[')` test in render_alias, found {len(tests)}")
    for t in tests:
        conj = t.test.values if isinstance(t.test, ast.BoolOp) and isinstance(t.test.op, ast.And) else [t.test]

        def plain(c: ast.AST) -> bool:
            c = AL.inline(c, stop=tuple(AL.params))
            return union_test(c) or (isinstance(c, ast.Name) and AL.is_param(c.id)) or match("VAR_p is not None", c) is not None

        extra = [norm(c) for c in conj if not plain(c)]
        sub = f"{ra.module.relpath}:render_alias discriminator metadata condition"
        if not extra:
            rep.ok("R14.4", sub, "metadata is attached whenever a discriminator exists and the target is a Union[...] (incl. `Union[...] | None`)", ra.loc(t))
        else:
            rep.violation("R14.4", sub, f"{ra.fq}|metadata-condition|{len(extra)}",
                          f"discriminator metadata is attached only under the extra condition(s) {extra}: e.g. a nullable discriminated union "
                          "(`Union[A, B] | None`) silently falls back to first-success decoding", ra.loc(t))


def _mapping_entries_rule(repo: Repo, rep: Report) -> None:
    """R14.5: the generated get_mapping() has one entry per discriminator *value*: the loop that writes the `value: Class` entries walks the
    spec's mapping itself.  Re-keying it (e.g. by target schema, to avoid duplicate imports) silently drops all but one value of a schema
    that several values select."""
    from sa.report import with_flatten_fallback

    with_flatten_fallback(rep, repo.func("core.writers.python_construct_renderer:PythonConstructRenderer.render_alias"), _mapping_entries_body)


def _mapping_entries_body(ra, rep) -> None:
    L = Locals(ra.node)
    n_loops = 0
    for lp in [n for n in own_nodes(ra.node) if isinstance(n, ast.For)]:
        entry_writes = [c for c in calls_in(lp) if isinstance(c.func, ast.Attribute) and c.func.attr == "write_line" and c.args and isinstance(c.args[0], ast.JoinedStr)
                        and any(isinstance(v, ast.Constant) and isinstance(v.value, str) and v.value.strip().startswith(":") for v in c.args[0].values)]
        if not entry_writes:
            continue
        n_loops += 1
        it = L.inline(lp.iter, stop=tuple(L.params))
        while isinstance(it, ast.Call) and dotted(it.func) in ("sorted", "list", "tuple") and it.args:
            it = it.args[0]
        def _direct(x: ast.AST) -> bool:
            while isinstance(x, ast.Call) and dotted(x.func) in ("sorted", "list", "tuple") and x.args:
                x = x.args[0]
            return isinstance(x, ast.Call) and isinstance(x.func, ast.Attribute) and x.func.attr == "items" and isinstance(x.func.value, ast.Attribute) \
                and x.func.value.attr == "mapping"

        # the mapping itself, or a *sequence* computed from it item by item (a list keeps one element per discriminator value; a dict
        # comprehension re-keys and can merge entries)
        direct = _direct(it) or (isinstance(it, (ast.ListComp, ast.GeneratorExp)) and len(it.generators) == 1 and not it.generators[0].ifs and _direct(it.generators[0].iter))
        if not direct and isinstance(it, ast.Name):
            # a list filled with exactly one `append` per item of the mapping (`entries = []; for v, ref in mapping.items(): entries.append(..)`)
            nm = it.id
            inits = [st for st in own_nodes(ra.node) if isinstance(st, (ast.Assign, ast.AnnAssign)) and isinstance(st.targets[0] if isinstance(st, ast.Assign) else st.target, ast.Name)
                     and (st.targets[0] if isinstance(st, ast.Assign) else st.target).id == nm]
            uses = [c for c in calls_in(ra.node) if isinstance(c.func, ast.Attribute) and isinstance(c.func.value, ast.Name) and c.func.value.id == nm]
            fills = [f for f in own_nodes(ra.node) if isinstance(f, ast.For) and _direct(L.inline(f.iter, stop=tuple(L.params)))
                     and any(isinstance(st, ast.Expr) and st.value in uses for st in f.body)]
            direct = len(inits) == 1 and isinstance(inits[0].value, ast.List) and not inits[0].value.elts and len(fills) == 1 and len(uses) == 1 \
                and uses[0].func.attr == "append" and not any(isinstance(x, (ast.Continue, ast.Break)) for x in ast.walk(fills[0]))
        sub = f"{ra.module.relpath}:render_alias get_mapping() entries (loop #{n_loops})"
        if direct:
            rep.ok("R14.5", sub, "one `value: Class` entry per item of the spec's discriminator mapping", ra.loc(lp))
        else:
            rep.violation("R14.5", sub, f"{ra.fq}|mapping-rekeyed",
                          f"the entries are written from `{norm(it)[:70]}`, not from the discriminator mapping itself: when two values select one schema only one of "
                          "them is emitted and payloads carrying the other are rejected as unknown", ra.loc(lp))
    rep.require(n_loops >= 1, "R14.5: the loop writing the get_mapping() entries was not found in render_alias (anchor)")


def _ancestors(n: ast.AST):
    from sa.model import parent as _p

    x = _p(n)
    while x is not None:
        yield x
        x = _p(x)


# ------------------------------------------------------------------------------------------------ R14.7 only primitive aliases are expanded
def rule_underlying_only_for_primitives(repo: Repo, rep: Report, rule: str = "R14.7") -> None:
    """A named member of a union / array is rendered by *name* (so that `Pet`'s Annotated discriminator metadata is kept) unless it is a
    primitive type alias, in which case its underlying type is inlined.  Every copy of that decision in the schema resolver - a
    conjunction that mentions `resolve_underlying` and tests the member's `type` - is evaluated over the possible `type` values: it may
    hold for string / integer / number / boolean only (a named oneOf has `type None`, an array alias `array`)."""
    sr = repo.module("types.resolvers.schema_resolver")
    DOMAIN_T = ["string", "integer", "number", "boolean", "object", "array", None]
    PRIMS = {"string", "integer", "number", "boolean"}
    n = 0
    for q, fn in sr.functions.items():
        for node in own_nodes(fn.node):
            if not (isinstance(node, ast.BoolOp) and isinstance(node.op, ast.And)) or isinstance(parent(node), ast.BoolOp):
                continue
            if not any(isinstance(x, ast.Name) and x.id == "resolve_underlying" for v in node.values for x in ast.walk(v)):
                continue
            type_conj = [v for v in node.values if any(
                (isinstance(x, ast.Constant) and x.value == "type") or (isinstance(x, ast.Attribute) and x.attr == "type") for x in ast.walk(v))]
            if not type_conj:
                continue
            n += 1
            sub = f"{sr.relpath}:{q} expand-the-alias decision `{norm(node)[:50]}…`"

            def ev(e: ast.AST, t):
                if isinstance(e, ast.Constant):
                    return e.value
                # a constant of the class / the module (`self._PRIMITIVE_ALIAS_TYPES`, `_PRIMITIVE_TYPES`): its literal value
                cname = e.attr if isinstance(e, ast.Attribute) and isinstance(e.value, ast.Name) and e.value.id in ("self", "cls", fn.cls.name if fn.cls else "") else (
                    e.id if isinstance(e, ast.Name) else None)
                if cname is not None:
                    bodies = ([fn.cls.node.body] if fn.cls is not None else []) + [sr.tree.body]
                    for body in bodies:
                        for st in body:
                            tg = st.targets[0] if isinstance(st, ast.Assign) and len(st.targets) == 1 else getattr(st, "target", None) if isinstance(st, ast.AnnAssign) else None
                            if isinstance(tg, ast.Name) and tg.id == cname and isinstance(getattr(st, "value", None), (ast.Tuple, ast.List, ast.Set, ast.Constant)):
                                return ev(st.value, t)
                if isinstance(e, ast.Call) and isinstance(e.func, ast.Name) and e.func.id == "getattr" and len(e.args) >= 2 and const_str(e.args[1]) == "type":
                    return t
                if isinstance(e, ast.Attribute) and e.attr == "type":
                    return t
                if isinstance(e, (ast.Tuple, ast.List, ast.Set)):
                    return [ev(x, t) for x in e.elts]
                if isinstance(e, ast.UnaryOp) and isinstance(e.op, ast.Not):
                    return not ev(e.operand, t)
                if isinstance(e, ast.BoolOp):
                    vs = [ev(v, t) for v in e.values]
                    return all(vs) if isinstance(e.op, ast.And) else any(vs)
                if isinstance(e, ast.Compare) and len(e.ops) == 1:
                    a, b = ev(e.left, t), ev(e.comparators[0], t)
                    op = e.ops[0]
                    if isinstance(op, ast.In):
                        return a in b
                    if isinstance(op, ast.NotIn):
                        return a not in b
                    if isinstance(op, ast.Eq):
                        return a == b
                    if isinstance(op, ast.NotEq):
                        return a != b
                    if isinstance(op, ast.Is):
                        return a is b
                    if isinstance(op, ast.IsNot):
                        return a is not b
                raise AnalysisError(f"{rule}: cannot evaluate `{norm(e)[:60]}` in the expand-the-alias decision of {q}")

            wrong = [t for t in DOMAIN_T if all(bool(ev(c, t)) for c in type_conj) and t not in PRIMS]
            if wrong:
                rep.violation(rule, sub, f"{fn.fq}|expands-non-primitive|{wrong}",
                              f"a named member whose `type` is {wrong} is expanded to its underlying type as well: `PetList = List[Pet]` becomes `List[Union[Cat, Dog]]`, "
                              "the Annotated discriminator metadata of `Pet` is lost and the payload is decoded by first-success instead of by its discriminator", fn.loc(node))
            else:
                rep.ok(rule, sub, "holds for string / integer / number / boolean members only", fn.loc(node))
    rep.count(f"{rule}:decision_copies", n)
    rep.require(n >= 1, f"{rule}: no expand-the-alias decision (a conjunction over `resolve_underlying` and the member's type) found in schema_resolver (anchor)")


# ------------------------------------------------------------------------------------------------ R14.8 the mapping fallback is always consulted
def rule_mapping_fallback(repo: Repo, rep: Report, rule: str = "R14.8") -> None:
    """DiscriminatorEnumCollector re-types every variant's discriminator property with one unified enum.  A variant whose own property
    yields no values must still contribute the value the discriminator *mapping* gives it - otherwise the unified enum lacks the value the
    mapping routes to that variant and a conforming payload is rejected.  Every path from the initialisation of the per-variant value list
    to the statement that skips the variant passes through the test that consults the table built from `discriminator.mapping`."""
    from sa.match import Locals as _L

    col = None
    for m in repo.modules.values():
        if "DiscriminatorEnumCollector" in m.classes:
            col = m.classes["DiscriminatorEnumCollector"]
    if col is None:
        raise AnalysisError("anchor vanished: DiscriminatorEnumCollector")
    done = False
    from sa.flatten import flatten as _fl148

    for fn0 in col.methods.values():
        fn = _fl148(fn0)  # parts of the per-variant work may be helpers of the collector: written out
        L = _L(fn.node)
        # the table built from discriminator.mapping: a dict local filled inside a loop over `<…>.mapping.items()` - or a dict comprehension over it
        tables = set()
        for st in own_nodes(fn.node):
            if isinstance(st, (ast.Assign, ast.AnnAssign)) and isinstance((st.targets[0] if isinstance(st, ast.Assign) else st.target), ast.Name) and st.value is not None:
                for dc in [x for x in ast.walk(st.value) if isinstance(x, ast.DictComp)]:
                    it = dc.generators[0].iter
                    if isinstance(it, ast.Call) and isinstance(it.func, ast.Attribute) and it.func.attr == "items" and isinstance(it.func.value, ast.Attribute) and it.func.value.attr == "mapping":
                        tables.add((st.targets[0] if isinstance(st, ast.Assign) else st.target).id)
        for lp in own_nodes(fn.node):
            if isinstance(lp, ast.For) and isinstance(lp.iter, ast.Call) and isinstance(lp.iter.func, ast.Attribute) and lp.iter.func.attr == "items" \
                    and isinstance(lp.iter.func.value, ast.Attribute) and lp.iter.func.value.attr == "mapping":
                for st in ast.walk(lp):
                    if isinstance(st, ast.Assign) and isinstance(st.targets[0], ast.Subscript) and isinstance(st.targets[0].value, ast.Name):
                        tables.add(st.targets[0].value.id)
        if not tables:
            continue
        # the per-variant value list: the local iterated to fill the collected values, initialised in the variant loop
        cfg = CFG(fn.node)
        cands = [lp.iter.id for lp in own_nodes(fn.node) if isinstance(lp, ast.For) and isinstance(lp.iter, ast.Name) and len(L.defs.get(lp.iter.id, [])) >= 2]
        # ... also when the filling loop is written as `collected.extend(f(v) for v in <values>)` / a comprehension
        cands += [g.iter.id for x in own_nodes(fn.node) if isinstance(x, (ast.GeneratorExp, ast.ListComp, ast.SetComp)) for g in x.generators
                  if isinstance(g.iter, ast.Name) and len(L.defs.get(g.iter.id, [])) >= 2]
        for r in sorted(set(cands)):
            inits = [n for n in cfg.nodes if n.kind == "stmt" and not n.copy and isinstance(n.ast, (ast.Assign, ast.AnnAssign)) and n.ast.value is not None
                     and isinstance(n.ast.value, ast.Constant) and n.ast.value.value is None
                     and any(isinstance(t, ast.Name) and t.id == r for t in (n.ast.targets if isinstance(n.ast, ast.Assign) else [n.ast.target]))]
            skips = [n for n in cfg.nodes if n.kind == "test" and not n.copy and isinstance(n.ast, ast.UnaryOp) and isinstance(n.ast.op, ast.Not)
                     and isinstance(n.ast.operand, ast.Name) and n.ast.operand.id == r]
            def consults(e: Optional[ast.AST]) -> bool:
                return e is not None and any(isinstance(x, ast.Name) and x.id in tables for x in ast.walk(L.inline(e, stop=tuple(L.params))))

            fallback = {n.id for n in cfg.nodes if (n.kind == "test" and consults(n.ast)) or (
                n.kind == "stmt" and isinstance(n.ast, (ast.Assign, ast.AnnAssign)) and any(
                    isinstance(x, ast.Compare) and isinstance(x.ops[0], (ast.In, ast.NotIn)) and isinstance(x.comparators[0], ast.Name) and x.comparators[0].id in tables
                    for x in ast.walk(n.ast)))}
            if not inits or not skips:
                continue
            done = True
            sub = f"{fn.module.relpath}:{fn.qualname} mapping fallback for `{r}`"
            if not fallback:
                rep.violation(rule, sub, f"{fn.fq}|mapping-fallback|absent", "the table built from discriminator.mapping is never consulted for a variant without own enum values", fn.loc())
                continue
            w = None
            for s in skips:
                w = w or cfg.must_pass(inits[0].id, fallback, {s.id})
            if w is None:
                rep.ok(rule, sub, "every path from the initialisation to the skip decision consults the mapping table", fn.loc(skips[0].ast))
            else:
                rep.violation(rule, sub, f"{fn.fq}|mapping-fallback|bypassed",
                              f"a variant can reach the 'no enum values - skip variant' decision without the mapping having been consulted ({cfg.describe_path(w)}): e.g. its "
                              "discriminator property refers to a named string schema without enum. The unified enum then lacks the value the mapping routes to this "
                              "variant, and a conforming payload fails with 'Failed to deserialize … (discriminator …)'", fn.loc(skips[0].ast))
    rep.require(done, f"{rule}: the per-variant value list / mapping table of DiscriminatorEnumCollector was not found (anchor)")


# ------------------------------------------------------------------------------------------------ R14.9 variants are tried in declared order
def rule_declared_order(repo: Repo, rep: Report, rule: str = "R14.9") -> None:
    """Without a usable discriminator the variant of a union is "the first one that decodes, in declared order".  In `_structure_union`
    the order of `get_args(union)` - and of the lists filled from it by one `append` per member - is therefore the order of every loop
    that tries variants: none of them iterates a `sorted(...)` / `reversed(...)` / `set(...)` view, and none of those lists is sorted or
    reversed in place."""
    from sa.flatten import flatten

    su0 = repo.func("core.cattrs_converter:_structure_union")
    su = flatten(su0)
    order_vars: Set[str] = set()
    for st in own_nodes(su.node):
        if isinstance(st, ast.Assign) and isinstance(st.targets[0], ast.Name) and any(isinstance(c, ast.Call) and (dotted(c.func) or "").split(".")[-1] == "get_args" for c in ast.walk(st.value)):
            order_vars.add(st.targets[0].id)
    if not order_vars:
        raise AnalysisError(f"{rule}: no `<args> = get_args(<union>)` found in _structure_union (anchor)")
    changed = True
    while changed:
        changed = False
        for lp in [x for x in own_nodes(su.node) if isinstance(x, ast.For)]:
            roots = {n for n in names_in(lp.iter)}
            if not (roots & order_vars):
                continue
            for c in calls_in(lp):
                if isinstance(c.func, ast.Attribute) and c.func.attr == "append" and isinstance(c.func.value, ast.Name) and c.func.value.id not in order_vars:
                    order_vars.add(c.func.value.id)
                    changed = True
    n = 0
    for lp in [x for x in own_nodes(su.node) if isinstance(x, (ast.For, ast.comprehension))]:
        it = lp.iter
        if not ({n_ for n_ in names_in(it)} & order_vars):
            continue
        n += 1
        reorder = [c for c in ast.walk(it) if isinstance(c, ast.Call) and (dotted(c.func) in ("sorted", "reversed", "set", "frozenset") or (
            isinstance(c.func, ast.Attribute) and c.func.attr in ("sort", "reverse")))]
        neg_slice = [s for s in ast.walk(it) if isinstance(s, ast.Slice) and s.step is not None]
        sub = f"{su0.module.relpath}:_structure_union loop over `{norm(it)[:40]}`"
        if reorder or neg_slice:
            rep.violation(rule, sub, f"{su0.fq}|variants-reordered|{dotted(reorder[0].func) if reorder else 'slice'}",
                          f"the variants are tried in the order of `{norm(it)[:60]}`, not in the order the union declares them: for a document that several "
                          "variants accept, a different variant than the first declared one is chosen (and its extra keys are dropped)", su0.loc(it))
        else:
            rep.ok(rule, sub, "iterates the members in the order of get_args(union)", su0.loc(it))
    for c in calls_in(su.node):
        if isinstance(c.func, ast.Attribute) and c.func.attr in ("sort", "reverse") and isinstance(c.func.value, ast.Name) and c.func.value.id in order_vars:
            rep.violation(rule, f"{su0.module.relpath}:_structure_union `{norm(c)[:40]}`", f"{su0.fq}|variants-reordered|{c.func.attr}",
                          f"`{norm(c)[:60]}` re-orders the variant list in place: variants are no longer tried in declared order", su0.loc(c))
    rep.require(n >= 3, f"{rule}: only {n} loops over the union members found in _structure_union (floor 3)")


# ------------------------------------------------------------------------------------------------ R14.10 the parsed mapping is the spec's mapping
def rule_mapping_parsed_whole(repo: Repo, rep: Report, rule: str = "R14.10") -> None:
    """The discriminator mapping of the IR is the document's mapping, entry for entry: OpenAPI allows a mapping value to be a `$ref` *or*
    a bare schema name, and values may point at schemas that are not spelled identically in `oneOf`.  Wherever `IRDiscriminator(mapping=...)`
    is built, the value is a copy of `<discriminator node>["mapping"]` - no filtering comprehension, no key/value test: a dropped entry
    turns "variant chosen by the value" into first-match guessing and makes its value look unmapped."""
    n = 0
    live = set(repo.import_closure(["generator.client_generator"]))
    for mn in sorted(live):
        if not mn.startswith(("pyopenapi_gen.core.parsing", "pyopenapi_gen.core.loader")):
            continue
        mod = repo.modules[mn]
        for q, fn in mod.functions.items():
            for c in calls_in(fn.node):
                if (dotted(c.func) or "").split(".")[-1] != "IRDiscriminator":
                    continue
                mv = next((k.value for k in c.keywords if k.arg == "mapping"), None)
                if mv is None:
                    continue
                n += 1
                L = Locals(fn.node)
                vals = [mv]
                if isinstance(mv, ast.Name):
                    vals = [v for k, v, _ in L.defs.get(mv.id, []) if v is not None and not (isinstance(v, ast.Constant) and v.value is None)]
                sub = f"{mod.relpath}:{q} IRDiscriminator(mapping=…)"
                bad = None
                for v in vals:
                    vi = L.inline(v, stop=tuple(L.params))
                    filt = [x for x in ast.walk(vi) if isinstance(x, ast.comprehension) and x.ifs] or [x for x in ast.walk(vi) if isinstance(x, ast.Call) and dotted(x.func) == "filter"]
                    from_doc = any(isinstance(x, ast.Subscript) and const_str(x.slice) == "mapping" for x in ast.walk(vi)) or any(
                        isinstance(x, ast.Call) and isinstance(x.func, ast.Attribute) and x.func.attr == "get" and x.args and const_str(x.args[0]) == "mapping" for x in ast.walk(vi))
                    if filt:
                        bad = f"`{norm(v)[:70]}` filters the entries"
                    elif not from_doc:
                        bad = f"`{norm(v)[:70]}` is not taken from the discriminator node's `mapping`"
                if bad:
                    rep.violation(rule, sub, f"{fn.fq}|mapping-not-whole", f"{bad}: a discriminator value whose entry is dropped is decoded by first-match guessing (or rejected as unmapped) "
                                  "instead of as the variant the document maps it to - e.g. every entry written as a bare schema name", fn.loc(c))
                else:
                    rep.ok(rule, sub, "the IR mapping is a copy of the document's `discriminator.mapping` (no entry is filtered out)", fn.loc(c))
    rep.require(n >= 1, f"{rule}: no IRDiscriminator(mapping=...) construction found in the parser (anchor)")


# ------------------------------------------------------------------------------------------------ R14.11 / R14.12 the union's metadata and members are used as given
def rule_metadata_from_the_given_type(repo: Repo, rep, rule: str = "R14.11") -> None:
    """The generator renders a discriminated oneOf as `Annotated[Union[...], <Discriminator>()]`: the discriminator exists only in the
    Annotated metadata of the type handed to _structure_union.  The lookup must therefore read `__metadata__` from that very object:
    (a) the name whose `__metadata__` is iterated is the type parameter and no assignment to it reaches the lookup (unwrapping the
    Annotated *into the same variable* loses the discriminator: the hasattr test is then always false and decoding silently falls back
    to first-success); (b) the loop that classifies the members never replaces a member by its own first type argument
    (`arg = get_args(arg)[0]`): an `Annotated[Union[...], disc]` *member* (optional discriminated union: `Optional[Annotated[...]]`) would
    lose its discriminator before it is structured."""
    conv = repo.module("core.cattrs_converter")
    su = conv.functions.get("_structure_union")
    if su is None:
        raise AnalysisError("anchor vanished: _structure_union")
    from sa.flatten import flatten

    fn = su
    def meta_reads(f):
        out = []
        for x in own_nodes(f.node):
            if isinstance(x, ast.Attribute) and x.attr == "__metadata__" and isinstance(x.value, ast.Name):
                out.append((x, x.value.id))
            if isinstance(x, ast.Call) and dotted(x.func) in ("getattr", "hasattr") and len(x.args) >= 2 and const_str(x.args[1]) == "__metadata__" and isinstance(x.args[0], ast.Name):
                out.append((x, x.args[0].id))
        return out

    reads = meta_reads(fn)
    if not reads:
        fn = flatten(su)
        reads = meta_reads(fn)
    if not reads:
        raise AnalysisError(f"{rule}: no read of `<type>.__metadata__` in _structure_union (anchor)")
    L = Locals(fn.node)
    if len(fn.params) < 2:
        raise AnalysisError(f"{rule}: _structure_union(data, union_type) signature changed (anchor)")
    p_type = fn.params[1]
    cfg = CFG(fn.node)
    sub = f"{conv.relpath}:_structure_union discriminator metadata is read from the type as given"
    bad = None
    for x, name in reads:
        root = L.root(name)
        if root != p_type:
            # a local: it must be (an alias of) the parameter - anything derived by get_args()/[0] has no metadata of the parameter
            defs = [v for k, v, _ in L.defs.get(name, []) if v is not None]
            if defs and all(isinstance(v, ast.Name) and L.root(v.id) == p_type for v in defs):
                continue
            bad = bad or (x, f"`{name}` is not the type parameter `{p_type}`")
            continue
        # stores to the parameter anywhere in the function (a re-binding reaches the lookup on some path: the lookup follows the unwrapping)
        stores = [st for st in own_nodes(fn.node) if isinstance(st, (ast.Assign, ast.AnnAssign, ast.AugAssign)) and any(
            isinstance(t, ast.Name) and t.id in (name, p_type) for t in (st.targets if isinstance(st, ast.Assign) else [st.target]))]
        # `alias = <the parameter>` is the alias itself, not a re-binding
        stores = [st for st in stores if not (name != p_type and isinstance(st, (ast.Assign, ast.AnnAssign)) and isinstance(st.value, ast.Name) and st.value.id == p_type
                                              and any(isinstance(t, ast.Name) and t.id == name for t in (st.targets if isinstance(st, ast.Assign) else [st.target])))]
        stores = [st for st in stores if getattr(st, "lineno", 0) < getattr(x, "lineno", 0)]
        if stores:
            bad = bad or (x, f"`{name}` is re-bound before the lookup (`{norm(stores[0])[:60]}`)")
    if bad:
        rep.violation(rule, sub, f"{su.fq}|metadata-read-from-derived-type",
                      f"{bad[1]}: the Annotated metadata (the discriminator) of the type that was passed in is gone when `__metadata__` is consulted - a "
                      "discriminated union is decoded by first-success and a payload of a later variant comes back as an earlier one", fn.loc(bad[0]))
    else:
        rep.ok(rule, sub, f"`{p_type}.__metadata__` - the parameter is never re-bound before the lookup", fn.loc(reads[0][0]))
    # (b) members stay whole
    sub2 = f"{conv.relpath}:_structure_union members are classified and structured as given"
    hit = None
    n_loops = 0
    for lp in own_nodes(fn.node):
        if not (isinstance(lp, ast.For) and isinstance(lp.target, ast.Name)):
            continue
        it = L.inline(lp.iter, stop=tuple(L.params))
        if not any(isinstance(c, ast.Call) and (dotted(c.func) or "").endswith("get_args") for c in ast.walk(it)) and not (
                isinstance(lp.iter, ast.Name) and any(isinstance(c, ast.Call) and (dotted(c.func) or "").endswith("get_args")
                                                      for _, v, _ in L.defs.get(lp.iter.id, []) if v is not None for c in ast.walk(v))):
            continue
        n_loops += 1
        v = lp.target.id
        for st in ast.walk(lp):
            if isinstance(st, ast.Assign) and any(isinstance(t, ast.Name) and t.id == v for t in st.targets):
                val = st.value
                unwrap = any((isinstance(c, ast.Call) and (dotted(c.func) or "").endswith("get_args") and c.args and isinstance(c.args[0], ast.Name) and c.args[0].id == v)
                             or (isinstance(c, ast.Attribute) and c.attr in ("__args__", "__origin__") and isinstance(c.value, ast.Name) and c.value.id == v)
                             for c in ast.walk(val))
                if unwrap:
                    hit = hit or st
    if n_loops == 0:
        # the classification loop was moved into a helper that receives the members (`a, b, c = _partition_union_variants(args)`)
        def _from_get_args(e: ast.AST) -> bool:
            ei = L.inline(e, stop=tuple(L.params))
            if any(isinstance(c, ast.Call) and (dotted(c.func) or "").endswith("get_args") for c in ast.walk(ei)):
                return True
            def _is_members_call(c: ast.AST) -> bool:
                if not isinstance(c, ast.Call):
                    return False
                if (dotted(c.func) or "").endswith("get_args"):
                    return True
                h0 = conv.functions.get(c.func.id) if isinstance(c.func, ast.Name) else None  # a helper that returns the members (`return get_args(...)`)
                rets = [r for r in own_nodes(h0.node) if isinstance(r, ast.Return) and r.value is not None] if h0 is not None else []
                return bool(rets) and all(isinstance(r.value, ast.Call) and (dotted(r.value.func) or "").endswith("get_args") for r in rets)

            return isinstance(e, ast.Name) and any(_is_members_call(c) for _, v, _ in L.defs.get(e.id, []) if v is not None for c in ast.walk(v))

        for c in calls_in(fn.node):
            h = conv.functions.get(c.func.id) if isinstance(c.func, ast.Name) else None
            if h is None or h is su:
                continue
            for i_, a_ in enumerate(c.args):
                if i_ < len(h.params) and _from_get_args(a_):
                    hp = h.params[i_]
                    for lp in own_nodes(h.node):
                        if isinstance(lp, ast.For) and isinstance(lp.target, ast.Name) and isinstance(lp.iter, ast.Name) and lp.iter.id == hp:
                            n_loops += 1
                            v = lp.target.id
                            for st in ast.walk(lp):
                                if isinstance(st, ast.Assign) and any(isinstance(t, ast.Name) and t.id == v for t in st.targets) and any(
                                        (isinstance(x, ast.Call) and (dotted(x.func) or "").endswith("get_args") and x.args and isinstance(x.args[0], ast.Name) and x.args[0].id == v)
                                        or (isinstance(x, ast.Attribute) and x.attr in ("__args__", "__origin__") and isinstance(x.value, ast.Name) and x.value.id == v) for x in ast.walk(st.value)):
                                    hit = hit or st
    rep.require(n_loops >= 1, f"{rule}: no loop over the members (`get_args(...)`) of the union found in _structure_union (anchor)")
    if hit is not None:
        rep.violation(rule, sub2, f"{su.fq}|member-unwrapped",
                      f"`{norm(hit)[:70]}`: a member written as `Annotated[T, meta]` is replaced by `T` before it is structured - for an optional discriminated union "
                      "(`Optional[Annotated[Union[A, B], Disc()]]`) the discriminator is dropped and the value is decoded by first-success", fn.loc(hit))
    elif n_loops:
        rep.ok(rule, sub2, f"{n_loops} loop(s) over the members: none replaces a member by its own type arguments", fn.loc())


    # (c) the entry point hands the type on as it received it: a response whose body *is* the union arrives as the Annotated alias, and the
    # discriminator lives in that alias' metadata only - "normalising" the parameter (`cls = <unwrap>(cls)`) before `converter.structure` drops it
    sfd = conv.functions.get("structure_from_dict")
    if sfd is None:
        raise AnalysisError(f"{rule}: anchor vanished: structure_from_dict")
    if len(sfd.params) < 2:
        raise AnalysisError(f"{rule}: structure_from_dict(data, cls) signature changed (anchor)")
    p_cls = sfd.params[1]
    scalls = [c for c in calls_in(sfd.node) if isinstance(c.func, ast.Attribute) and c.func.attr == "structure" and len(c.args) >= 2]
    if not scalls:
        raise AnalysisError(f"{rule}: structure_from_dict no longer calls <converter>.structure(data, <type>) (anchor)")
    sub3 = f"{conv.relpath}:structure_from_dict structures into the type as given"
    SL = Locals(sfd.node)
    bad3 = None
    for c in scalls:
        a1 = c.args[1]
        if not (isinstance(a1, ast.Name) and SL.root(a1.id) == p_cls):
            bad3 = bad3 or (c, f"`{norm(a1)[:40]}` is not the type parameter `{p_cls}`")
            continue
        stores = [st for st in own_nodes(sfd.node) if isinstance(st, (ast.Assign, ast.AnnAssign, ast.AugAssign)) and getattr(st, "lineno", 0) < c.lineno and any(
            isinstance(t, ast.Name) and t.id in (a1.id, p_cls) for t in (st.targets if isinstance(st, ast.Assign) else [st.target]))]
        stores = [st for st in stores if not (isinstance(st, (ast.Assign, ast.AnnAssign)) and isinstance(st.value, ast.Name) and st.value.id == p_cls)]
        if stores:
            bad3 = bad3 or (c, f"`{p_cls}` is re-bound before it is structured (`{norm(stores[0])[:60]}`)")
    if bad3:
        rep.violation(rule, sub3, f"{sfd.fq}|entry-point-rebinds-type",
                      f"{bad3[1]}: a response body that is itself a discriminated union is passed as `Annotated[Union[...], Disc()]`; with the metadata stripped the union hook "
                      "finds no discriminator and decodes by first-success - keys of the real variant are dropped, an undecodable mapped payload is accepted as another variant", sfd.loc(bad3[0]))
    else:
        rep.ok(rule, sub3, f"`converter.structure(data, {p_cls})` - the parameter is never re-bound", sfd.loc(scalls[0]))


# ------------------------------------------------------------------------------------------------ R14.14 a discriminator without mapping is still a discriminator
def rule_implicit_mapping(repo: Repo, rep, rule: str = "R14.14") -> None:
    """`discriminator: {propertyName: petType}` without `mapping` is the common spelling; OpenAPI defines its mapping implicitly (the value is
    the variant's schema name).  The generated `get_mapping()` returns None in that case.  If `_structure_union` only dispatches `if mapping`,
    the discriminator is ignored: the payload is decoded as the first variant that accepts it, and an unknown value is guessed.  On the way
    from `get_mapping()` to the dispatch there must be a replacement for an empty mapping that is built from the union's members."""
    conv = repo.module("core.cattrs_converter")
    su = conv.functions.get("_structure_union")
    if su is None:
        raise AnalysisError(f"{rule}: anchor vanished: _structure_union")
    from sa.flatten import flatten

    fn = su
    gm = [st for st in own_nodes(fn.node) if isinstance(st, ast.Assign) and any(isinstance(c, ast.Call) and isinstance(c.func, ast.Attribute) and c.func.attr == "get_mapping" for c in ast.walk(st.value))]
    if not gm:
        fn = flatten(su)
        gm = [st for st in own_nodes(fn.node) if isinstance(st, ast.Assign) and any(isinstance(c, ast.Call) and isinstance(c.func, ast.Attribute) and c.func.attr == "get_mapping" for c in ast.walk(st.value))]
    if not gm or not isinstance(gm[0].targets[0], ast.Name):
        raise AnalysisError(f"{rule}: `<mapping> = <metadata>.get_mapping()` was not found in _structure_union (anchor)")
    mv = gm[0].targets[0].id
    sub = f"{conv.relpath}:_structure_union discriminator without explicit mapping"
    # a second definition of the mapping variable (or an `or` default on the first) that is derived from the members of the union
    L = Locals(fn.node)
    alts = [v for _, v, st in L.defs.get(mv, []) if v is not None and st is not gm[0]]
    inline_default = isinstance(gm[0].value, ast.BoolOp) and isinstance(gm[0].value.op, ast.Or)
    from_members = any(any(isinstance(x, ast.Attribute) and x.attr in ("__name__", "__qualname__") for x in ast.walk(v)) or any(
        isinstance(c, ast.Call) and (dotted(c.func) or "").endswith("get_args") for c in ast.walk(v)) or any(isinstance(x, ast.Name) and x.id == "args" for x in ast.walk(v))
        for v in alts + ([gm[0].value] if inline_default else []))
    # ... or filled in a loop: `mapping = {}` and `mapping[<member>.__name__] = <member>`
    if not from_members:
        for st in own_nodes(fn.node):
            if isinstance(st, ast.Assign) and any(isinstance(t, ast.Subscript) and isinstance(t.value, ast.Name) and t.value.id == mv and any(
                    isinstance(x, ast.Attribute) and x.attr in ("__name__", "__qualname__") for x in ast.walk(t.slice)) for t in st.targets):
                from_members = True
    if from_members:
        rep.ok(rule, sub, "an empty mapping is replaced by one built from the union's member classes (implicit mapping by schema name)", fn.loc(gm[0]))
    else:
        rep.violation(rule, sub, f"{su.fq}|discriminator-without-mapping-ignored",
                      f"`{mv}` is only what `get_mapping()` returns, and that is None when the document gives no `mapping`: the dispatch `if {mv} ...` never runs, "
                      "`{petType: Dog}` is decoded as the first variant that accepts it (keys of the real variant are dropped) and an unknown value is guessed instead of rejected",
                      fn.loc(gm[0]))
