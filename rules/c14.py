"""C14 - union values are decoded as the right variant, never lossily.

R14.1  the discriminated path is exact: a present discriminator with a mapped value structures exactly that variant and a
       failure is raised (never falls through to the sequential loop); an unmapped value raises; the presence test is
       `property in data` (a null discriminator is a value, not absence)
R14.2  first-success loops are lossless only if extra keys are rejected                      [finding on the pinned tree]
R14.3  Union[...] is rendered in spec order with order-preserving de-duplication
R14.4  discriminated aliases keep their metadata for every Union spelling the type service can produce
"""
from __future__ import annotations

import ast
from typing import Set

from sa.cfg import CFG, guards
from sa.model import full, AnalysisError, Repo, calls_in, const_str, dotted, norm, own_nodes
from sa.report import Report


def run(repo: Repo, rep: Report, tier: str) -> None:
    conv = repo.module("core.cattrs_converter")
    su = conv.functions.get("_structure_union")
    if su is None:
        raise AnalysisError("anchor vanished: _structure_union")
    cfg = CFG(su.node)
    dom = cfg.dominators()
    sub0 = f"{conv.relpath}:_structure_union"
    # the mapped-variant structure call
    mapped = [n for n in cfg.nodes if n.kind == "stmt" and isinstance(n.ast, ast.Return) and not n.copy and "converter.structure(data, variant)" in norm(n.ast)
              and any("mapping" in norm(g.ast) and p is True for g, p in guards(cfg, n.id, dom))]
    rep.require(len(mapped) == 1, f"R14.1: expected one mapped-variant structure call, found {len(mapped)}")
    seq_loops = [n.id for n in cfg.nodes if n.kind == "iter" and norm(n.ast) in ("dataclass_variants", "other_variants")]
    rep.require(len(seq_loops) >= 2, f"R14.1: sequential variant loops not found ({len(seq_loops)})")
    for mnode in mapped:
        # exceptional edge from the mapped structure must only reach raises (never a sequential loop)
        exc_succ = [m for m, lab in cfg.succ[mnode.id] if lab == "exc"]
        reach: Set[int] = set()
        for m in exc_succ:
            reach |= cfg.reachable(m)
        if exc_succ and not (reach & set(seq_loops)) and cfg.exit not in reach:
            rep.ok("R14.1", sub0 + " mapped variant failure", "a failure while structuring the mapped variant can only leave through `raise` (no retry as another variant)", su.loc(mnode.ast))
        else:
            rep.violation("R14.1", sub0 + " mapped variant failure", f"{su.fq}|mapped-failure-falls-through",
                          "when the mapped variant fails to decode control can reach the sequential first-success loop (the payload is retried as another variant)", su.loc(mnode.ast))
        gs = guards(cfg, mnode.id, dom)
        presence = [g for g, p in gs if p is True and "property_name" in norm(g.ast) and ("in data" in norm(g.ast) or "data.get" in norm(g.ast))]
        okp = bool(presence) and all(f"metadata.property_name in data" in norm(g.ast) for g in presence)
        if okp:
            rep.ok("R14.1", sub0 + " discriminator presence test", "`metadata.property_name in data`: a present discriminator (even null) takes the exact path", su.loc(presence[0].ast))
        else:
            rep.violation("R14.1", sub0 + " discriminator presence test", f"{su.fq}|presence|{[norm(g.ast)[:60] for g in presence]}",
                          "the discriminated path is entered on something other than key presence: a payload whose discriminator is present but null/falsy is "
                          "guessed by first-success instead of being rejected as unmapped", su.loc(mnode.ast))
    # unmapped value raises
    unm = [n for n in cfg.nodes if isinstance(n.ast, ast.Raise) and "Unknown discriminator value" in norm(n.ast)]
    if unm and any("mapping" in norm(g.ast) for g, p in guards(cfg, unm[0].id, dom)):
        rep.ok("R14.1", sub0 + " unmapped value", "a discriminator value absent from a non-empty mapping raises ValueError", su.loc(unm[0].ast))
    else:
        rep.violation("R14.1", sub0 + " unmapped value", f"{su.fq}|unmapped-not-raised", "an unmapped discriminator value no longer raises", su.loc())

    # ---------------------------------------------------------------- R14.2 first-success loops
    for lid in seq_loops:
        loop = cfg.nodes[lid].stmt
        if norm(cfg.nodes[lid].ast) != "dataclass_variants":
            continue
        body_txt = full(loop)
        rejects_extra = "forbid_extra_keys" in body_txt or "fields(" in body_txt and "keys()" in body_txt
        sub = sub0 + " sequential loop over dataclass variants"
        if rejects_extra:
            rep.ok("R14.2", sub, "a variant is accepted only if it accounts for every payload key", su.loc(loop))
        else:
            rep.violation("R14.2", sub, f"{su.fq}|first-success-ignores-extra-keys",
                          "the first dataclass variant that structures wins, and dataclass structuring ignores unknown keys: a payload of a later variant whose "
                          "required fields are a superset of an earlier one's is decoded as the earlier variant and its extra keys are dropped", su.loc(loop))

    # ---------------------------------------------------------------- R14.3 order-preserving de-dup in the resolver
    sr = repo.module("types.resolvers.schema_resolver")
    for mname in ("_resolve_one_of", "_resolve_any_of"):
        fn = sr.classes["OpenAPISchemaResolver"].methods.get(mname)
        if fn is None:
            raise AnalysisError(f"anchor vanished: {mname}")
        txt = full(fn.node)
        uses_set = any(isinstance(c.func, ast.Name) and c.func.id in ("set", "frozenset", "sorted") and c.args and "type" in norm(c.args[0]) for c in calls_in(fn.node))
        ordered = "dict.fromkeys(" in txt or (not uses_set and "seen" in txt)
        loops = [n for n in own_nodes(fn.node) if isinstance(n, ast.For)]
        spec_order = any(norm(l.iter) in ("schema.one_of", "schema.any_of") for l in loops)
        sub = f"{sr.relpath}:{mname} variant order"
        if ordered and not uses_set and spec_order:
            rep.ok("R14.3", sub, "variants are taken in spec order and de-duplicated order-preservingly (dict.fromkeys)", fn.loc())
        else:
            rep.violation("R14.3", sub, f"{fn.fq}|order|ordered={ordered}|set={uses_set}|spec={spec_order}",
                          "Union variants are not rendered in spec order with order-preserving de-duplication: first-success decoding then depends on hashing/sorting", fn.loc())

    # ---------------------------------------------------------------- R14.4 alias keeps discriminator metadata
    ra = repo.func("core.writers.python_construct_renderer:PythonConstructRenderer.render_alias")
    tests = [n for n in own_nodes(ra.node) if isinstance(n, ast.If) and "discriminator" in norm(n.test) and "Union[" in norm(n.test)]
    rep.require(len(tests) == 1, f"R14.4: expected one discriminator/Union test in render_alias, found {len(tests)}")
    for t in tests:
        conj = t.test.values if isinstance(t.test, ast.BoolOp) and isinstance(t.test.op, ast.And) else [t.test]
        extra = [norm(c) for c in conj if not (norm(c) == "discriminator" or norm(c) == "target_type.startswith('Union[')")]
        sub = f"{ra.module.relpath}:render_alias discriminator metadata condition"
        if not extra:
            rep.ok("R14.4", sub, "metadata is attached whenever a discriminator exists and the target is a Union[...] (incl. `Union[...] | None`)", ra.loc(t))
        else:
            rep.violation("R14.4", sub, f"{ra.fq}|metadata-condition|{extra}",
                          f"discriminator metadata is attached only under the extra condition(s) {extra}: e.g. a nullable discriminated union "
                          "(`Union[A, B] | None`) silently falls back to first-success decoding", ra.loc(t))
