"""Rules on the bundled converter (core/cattrs_converter.py, core/utils.DataclassSerializer) shared by C03, C14, C16."""
from __future__ import annotations

import ast
from typing import Dict, List, Optional, Set, Tuple

from sa.cfg import CFG, guards
from sa.model import full, AnalysisError, Function, Module, Repo, calls_in, const_str, dotted, enclosing_stmt, norm, own_nodes, parent
from sa.match import Locals, match, walk_own
from sa.report import Report

CONV = "core.cattrs_converter"
# leaf types cattrs structures/unstructures natively (frozen table, one-line reasons)
CATTRS_NATIVE = {
    "str": "primitive passthrough", "int": "primitive passthrough", "float": "primitive passthrough", "bool": "primitive passthrough",
    "Any": "passthrough", "None": "NoneType passthrough", "object": "treated like Any",
}
# inverse families: decoding call -> the encoding call that inverts it
INVERSES = {
    "base64.b64decode": "base64.b64encode", "base64.urlsafe_b64decode": "base64.urlsafe_b64encode",
    "base64.standard_b64decode": "base64.standard_b64encode", "base64.b32decode": "base64.b32encode", "base64.b16decode": "base64.b16encode",
    "datetime.fromisoformat": ".isoformat", "date.fromisoformat": ".isoformat", "time.fromisoformat": ".isoformat",
    "UUID": "str",
}


def _table_rows(it: ast.AST, mod: Module) -> Optional[List[ast.AST]]:
    """rows of a literal table: a tuple / list display, or a module-level name bound once to one"""
    if isinstance(it, (ast.Tuple, ast.List)):
        return list(it.elts)
    if isinstance(it, ast.Name):
        hits = [st for st in mod.tree.body if isinstance(st, (ast.Assign, ast.AnnAssign)) and getattr(st, "value", None) is not None
                and isinstance((st.targets[0] if isinstance(st, ast.Assign) else st.target), ast.Name)
                and (st.targets[0] if isinstance(st, ast.Assign) else st.target).id == it.id]
        if len(hits) == 1 and isinstance(hits[0].value, (ast.Tuple, ast.List)):
            return list(hits[0].value.elts)
    return None


def hook_registrations(mod: Module) -> Dict[str, Dict[str, Tuple[str, ast.AST]]]:
    """type name -> {'structure': (function name, node), 'unstructure': (...)} for module-level converter.register_*_hook(T, fn)."""
    out: Dict[str, Dict[str, Tuple[str, ast.AST]]] = {}
    for c in walk_own(mod.tree):
        if isinstance(c, ast.Call) and isinstance(c.func, ast.Attribute) and c.func.attr in ("register_structure_hook", "register_unstructure_hook"):
            if len(c.args) == 2 and isinstance(c.args[1], ast.Name) and isinstance(c.args[0], (ast.Name, ast.Attribute)) \
                    and not isinstance(parent(enclosing_stmt(c)), (ast.For, ast.While)):
                t = norm(c.args[0]).split(".")[-1]
                kind = "structure" if c.func.attr == "register_structure_hook" else "unstructure"
                out.setdefault(t, {})[kind] = (c.args[1].id, c)
            elif len(c.args) == 2 and all(isinstance(a, ast.Name) for a in c.args) and isinstance(parent(enclosing_stmt(c)), ast.For) \
                    and isinstance(parent(enclosing_stmt(c)).target, ast.Tuple) and _table_rows(parent(enclosing_stmt(c)).iter, mod) is not None:  # type: ignore[union-attr]
                # table-driven registration: `for t, s, u in ((UUID, structure_uuid, unstructure_uuid), ...): register(t, s)` - the table
                # written in the loop header or bound once to a module-level name
                loop = parent(enclosing_stmt(c))
                names = [e.id if isinstance(e, ast.Name) else None for e in loop.target.elts]  # type: ignore[union-attr]
                kind = "structure" if c.func.attr == "register_structure_hook" else "unstructure"
                for row in _table_rows(loop.iter, mod) or []:  # type: ignore[union-attr]
                    if not (isinstance(row, (ast.Tuple, ast.List)) and len(row.elts) == len(names)):
                        raise AnalysisError(f"hook registration table row `{norm(row)[:60]}` does not match the loop target")
                    env = dict(zip(names, row.elts))
                    t_e, f_e = env.get(c.args[0].id), env.get(c.args[1].id)  # type: ignore[union-attr]
                    if not (isinstance(t_e, (ast.Name, ast.Attribute)) and isinstance(f_e, ast.Name)):
                        raise AnalysisError(f"hook registration table row `{norm(row)[:60]}` is not (<Type>, <function>, ...)")
                    out.setdefault(norm(t_e).split(".")[-1], {})[kind] = (f_e.id, c)
            else:
                # registration through a loop / table: the recogniser cannot name type and function - fail closed, not a finding
                raise AnalysisError(f"hook registration `{norm(c)[:70]}` is not of the form register_*_hook(<Type>, <function>) at module level")
    return out


def string_format_table(rs: Function) -> List[Tuple[str, str, ast.AST]]:
    """(format, python type, node) pairs of the string-format dispatch of `_resolve_string`: a dict display `{"date": "date", ...}`,
    or a `match <format>:` whose cases bind one variable to a type literal (`case "date": python_type = "date"`), or an if/elif chain
    comparing the format with literals."""
    out: List[Tuple[str, str, ast.AST]] = []
    for n in own_nodes(rs.node):
        if isinstance(n, (ast.Assign, ast.AnnAssign)) and isinstance(getattr(n, "value", None), ast.Dict) and any(
                const_str(k) in ("date-time", "uuid", "date") for k in n.value.keys if k is not None):
            for k, v in zip(n.value.keys, n.value.values):
                if const_str(k) is not None and const_str(v) is not None:
                    out.append((const_str(k) or "", const_str(v) or "", v))
    if out:
        return out
    # the table as a module-level constant the method reads (`_FORMATS.get(fmt, "str")`)
    used = {n.id for n in own_nodes(rs.node) if isinstance(n, ast.Name)}
    for st in rs.module.tree.body:
        tg = st.targets[0] if isinstance(st, ast.Assign) else getattr(st, "target", None)
        if isinstance(st, (ast.Assign, ast.AnnAssign)) and isinstance(tg, ast.Name) and tg.id in used and isinstance(getattr(st, "value", None), ast.Dict) and any(
                const_str(k) in ("date-time", "uuid", "date") for k in st.value.keys if k is not None):
            for k, v in zip(st.value.keys, st.value.values):
                if const_str(k) is not None and const_str(v) is not None:
                    out.append((const_str(k) or "", const_str(v) or "", v))
    if out:
        return out
    for n in own_nodes(rs.node):
        if isinstance(n, ast.Match):
            for case in n.cases:
                fmts = [x.value for x in ast.walk(case.pattern) if isinstance(x, ast.Constant) and isinstance(x.value, str)]
                tys = [(const_str(st.value), st.value) for st in case.body if isinstance(st, (ast.Assign, ast.AnnAssign)) and getattr(st, "value", None) is not None
                       and const_str(st.value) is not None]
                tys += [(const_str(k.value), k.value) for st in case.body for c in ast.walk(st) if isinstance(c, ast.Call) and dotted(c.func) == "ResolvedType"
                        for k in c.keywords if k.arg == "python_type" and const_str(k.value) is not None]
                for f in fmts:
                    for t, node in tys[:1]:
                        out.append((f, t or "", node))
    if out and any(f in ("date-time", "uuid", "date") for f, _, _ in out):
        return out
    return []


def generator_leaf_types(repo: Repo) -> Dict[str, str]:
    """Python leaf types the type resolver can emit -> where it comes from."""
    sr = repo.module("types.resolvers.schema_resolver")
    out: Dict[str, str] = {}
    rs = sr.classes["OpenAPISchemaResolver"].methods.get("_resolve_string") if "OpenAPISchemaResolver" in sr.classes else None
    if rs is None:
        raise AnalysisError("anchor vanished: OpenAPISchemaResolver._resolve_string")
    table = string_format_table(rs)
    for f_, t_, _ in table:
        out[t_] = f"format: {f_}"
    if not table:
        raise AnalysisError("anchor vanished: the format -> python type table in _resolve_string")
    # literal python_type="..." results of the primitive resolvers
    for fn in sr.functions.values():
        for c in calls_in(fn.node):
            if dotted(c.func) == "ResolvedType":
                for k in c.keywords:
                    if k.arg == "python_type" and const_str(k.value) and (const_str(k.value) or "").isidentifier():
                        out.setdefault(const_str(k.value) or "", f"{fn.qualname}")
    return out


def rule_leaf_agreement(repo: Repo, rep: Report, rule: str) -> None:
    conv = repo.module(CONV)
    regs = hook_registrations(conv)
    G = generator_leaf_types(repo)
    rep.count(f"{rule}:generator_leaf_types", G)
    rep.count(f"{rule}:converter_hook_types", {t: sorted(v) for t, v in regs.items()})
    rep.require(len(G) >= 6, f"{rule}: only {len(G)} generator leaf types found (floor 6)")
    for t, origin in sorted(G.items()):
        sub = f"leaf type `{t}` ({origin})"
        if t in CATTRS_NATIVE:
            rep.ok(rule, sub, f"cattrs native: {CATTRS_NATIVE[t]}", "")
        elif t in regs and {"structure", "unstructure"} <= set(regs[t]):
            rep.ok(rule, sub, f"converter registers {regs[t]['structure'][0]} / {regs[t]['unstructure'][0]}", f"{conv.relpath}:{regs[t]['structure'][1].lineno}")
        else:
            have = sorted(regs.get(t, {}))
            rep.violation(rule, sub, f"leaf-unsupported|{t}|{have}",
                          f"the generator renders `{origin}` as `{t}`, but the bundled converter registers {have or 'no'} hook(s) for it: "
                          "structuring a conforming document fails ('Unsupported type ... Register a structure hook')", conv.relpath)


def rule_hook_pairs(repo: Repo, rep: Report, rule: str) -> None:
    conv = repo.module(CONV)
    regs = hook_registrations(conv)
    rep.require(len(regs) >= 3, f"{rule}: only {len(regs)} hook-registered leaf types (floor 3)")
    for t, d in sorted(regs.items()):
        sub = f"{conv.relpath} hooks for `{t}`"
        if not ({"structure", "unstructure"} <= set(d)):
            rep.violation(rule, sub, f"hook-unpaired|{t}|{sorted(d)}", f"only {sorted(d)} hook registered for `{t}`: values decode but do not encode (or vice versa)", conv.relpath)
            continue
        sf, uf = conv.functions.get(d["structure"][0]), conv.functions.get(d["unstructure"][0])
        if sf is None or uf is None:
            rep.error(f"{rule}: hook function for {t} not found")
            continue
        sl, ul = Locals(sf.node), Locals(uf.node)
        s_calls = [sl.inline(c.func) for c in calls_in(sf.node)]
        u_calls = [ul.inline(c.func) for c in calls_in(uf.node)]
        dec = [dotted(c) for c in s_calls if dotted(c)]
        enc_calls = [dotted(c) or (("." + c.attr) if isinstance(c, ast.Attribute) else "") for c in u_calls]
        enc_attrs = ["." + c.attr for c in u_calls if isinstance(c, ast.Attribute)]
        # f"{x}" / format(x) are str(x)
        if any(isinstance(n, ast.JoinedStr) and len(n.values) == 1 and isinstance(n.values[0], ast.FormattedValue) and n.values[0].format_spec is None
               for n in ast.walk(uf.node)) or "format" in enc_calls:
            enc_calls.append("str")
        matched = False
        why = ""
        for dcall in dec:
            key = dcall if dcall in INVERSES else (dcall.split(".")[-2] + "." + dcall.split(".")[-1] if dcall and dcall.count(".") >= 1 else dcall)
            if dcall in INVERSES or key in INVERSES:
                want = INVERSES.get(dcall) or INVERSES.get(key)
                if want in enc_calls or want in enc_attrs or (want == "str" and "str" in enc_calls):
                    matched = True
                    why = f"{dcall} <-> {want}"
                else:
                    why = f"{sf.name} decodes with {dcall}, so {uf.name} must encode with {want}, but it calls {sorted(set(x for x in enc_calls if x))}"
        if matched:
            rep.ok(rule, sub, f"structure/unstructure use an inverse pair: {why}", sf.loc())
        elif why:
            rep.violation(rule, sub, f"hook-not-inverse|{t}|{why[:80]}", f"the two hooks are not inverse to each other: {why}", uf.loc())
        else:
            rep.ok(rule, sub, "paired (no codec call to compare)", sf.loc())


def rule_rename_plumbing(repo: Repo, rep: Report, rule: str) -> None:
    conv = repo.module(CONV)
    for fname, meta, maker in (("_make_dataclass_structure_fn", "key_transform_with_load", "make_dict_structure_fn"),
                               ("_make_dataclass_unstructure_fn", "key_transform_with_dump", "make_dict_unstructure_fn")):
        fn = conv.functions.get(fname)
        if fn is None:
            raise AnalysisError(f"anchor vanished: {fname}")
        txt = full(fn.node)
        if (f".Meta.{meta}" not in txt and f"'{meta}'" not in txt) or not any((dotted(c.func) or "").split(".")[-1] == "override" for c in calls_in(fn.node)):
            # the per-field work may have moved into helpers of the module (possibly passed around as function values):
            # look at the function with its direct helpers inlined, and read the Meta access from every module function it mentions
            from sa.flatten import flatten as _flr

            fn = _flr(fn, depth=1)
            seen_f = set()
            todo = [fn.node]
            for _ in range(3):
                nxt = []
                for nd_ in todo:
                    for x in ast.walk(nd_):
                        if isinstance(x, ast.Name) and x.id in conv.functions and x.id not in seen_f:
                            seen_f.add(x.id)
                            nxt.append(conv.functions[x.id].node)
                todo = nxt
            txt = full(fn.node) + " " + " ".join(full(conv.functions[q].node) for q in sorted(seen_f))
        L = Locals(fn.node)
        reads = f".Meta.{meta}" in txt or f"'{meta}'" in txt
        ov = [c for c in calls_in(fn.node) if (dotted(L.inline(c.func)) or "").split(".")[-1] == "override" and any(k.arg == "rename" for k in c.keywords)]
        mk = [c for c in calls_in(fn.node) if (dotted(L.inline(c.func)) or "").split(".")[-1] == maker and any(k.arg is None for k in c.keywords)]
        loops = [n for n, _ in L.loops_over("dataclasses.fields(ANY_c)") + L.loops_over("fields(ANY_c)")]
        sub = f"{conv.relpath}:{fname}"
        if reads and ov and mk and loops:
            rep.ok(rule, sub, f"reads Meta.{meta}, builds override(rename=...) per field of dataclasses.fields(cls) and passes them to {maker}", fn.loc())
        else:
            rep.violation(rule, sub, f"{fn.fq}|rename-plumbing|reads={reads}|override={bool(ov)}|maker={bool(mk)}|loop={bool(loops)}",
                          f"wire-key renames are not plumbed through (reads Meta.{meta}: {reads}, override(rename): {bool(ov)}, **overrides into {maker}: {bool(mk)})", fn.loc())


def rule_unlisted_field_keeps_its_name(repo: Repo, rep: Report, rule: str) -> None:
    """Both directions use the same wire key for a field: the one the Meta map lists, and - for a field the map does not list - the
    field's own name.  In each of the two function makers every definition of the value passed as `override(rename=...)` is therefore
    the field name itself, a key taken from the Meta map (`for jk, pf in map.items()`), or `map.get(name, name)` / `map[name]`: a key
    *derived* on one side (camel-casing, stripping a keyword suffix) makes encode and decode disagree for every unlisted field."""
    conv = repo.module(CONV)
    from sa.flatten import flatten as _flk

    for fname in ("_make_dataclass_structure_fn", "_make_dataclass_unstructure_fn"):
        fn = conv.functions.get(fname)
        if fn is None:
            raise AnalysisError(f"anchor vanished: {fname}")
        if not any((dotted(c.func) or "").split(".")[-1] == "override" for c in calls_in(fn.node)):
            fn = _flk(fn, depth=1)
        L = Locals(fn.node)
        ovs = [c for c in calls_in(fn.node) if (dotted(L.inline(c.func)) or "").split(".")[-1] == "override" and any(k.arg == "rename" for k in c.keywords)]
        if not ovs:
            rep.error(f"{rule}: no override(rename=...) found in {fname} (anchor)")
            continue
        def judge(fnode: ast.AST, own_seed: set, v: ast.AST, depth: int = 0) -> List[str]:
            """[] when every value `v` can take in function `fnode` is the field's own name or a Meta map entry; else the offending texts"""
            FL = Locals(fnode)
            own = set(own_seed)
            for st in own_nodes(fnode):
                if isinstance(st, ast.Assign) and isinstance(st.targets[0], ast.Name) and isinstance(st.value, ast.Attribute) and st.value.attr == "name":
                    own.add(st.targets[0].id)
            items_keys: set = set()
            for lp in [x for x in own_nodes(fnode) if isinstance(x, (ast.For, ast.comprehension))]:
                if isinstance(lp.iter, ast.Call) and isinstance(lp.iter.func, ast.Attribute) and lp.iter.func.attr in ("items", "keys", "values"):
                    items_keys |= {x.id for x in ast.walk(lp.target) if isinstance(x, ast.Name)}

            def is_own(e: ast.AST) -> bool:
                return (isinstance(e, ast.Name) and e.id in own) or (isinstance(e, ast.Attribute) and e.attr == "name")

            def one(v: ast.AST, d: int) -> List[str]:
                if is_own(v) or (isinstance(v, ast.Name) and v.id in items_keys):
                    return []
                if isinstance(v, ast.Name) and d < 4:
                    ds = [x for k, x, _ in FL.defs.get(v.id, []) if x is not None and k != "param"]
                    if ds:
                        return [b_ for x in ds for b_ in one(x, d + 1)]
                if isinstance(v, ast.IfExp):
                    return one(v.body, d) + one(v.orelse, d)
                if isinstance(v, ast.Call) and isinstance(v.func, ast.Attribute) and v.func.attr == "get" and len(v.args) == 2 and is_own(v.args[0]):
                    return one(v.args[1], d)
                if isinstance(v, ast.Call) and isinstance(v.func, ast.Attribute) and v.func.attr == "get" and len(v.args) == 1 and is_own(v.args[0]):
                    return []
                if isinstance(v, ast.Subscript) and is_own(v.slice):
                    return []
                if isinstance(v, ast.Call) and dotted(v.func) == "next" and any(isinstance(x, ast.Name) and x.id in items_keys for x in ast.walk(v)):
                    return one(v.args[1], d) if len(v.args) >= 2 else []
                # a helper of the module that is handed the field name: what it returns is judged in its own body
                if isinstance(v, ast.Call) and isinstance(v.func, ast.Name) and v.func.id in conv.functions and depth < 2:
                    h = conv.functions[v.func.id]
                    hp = [p_ for p_ in h.params]
                    seed = {hp[i] for i, a_ in enumerate(v.args) if i < len(hp) and is_own(a_)} | {k.arg for k in v.keywords if k.arg and is_own(k.value)}
                    if seed:
                        rets = [r.value for r in own_nodes(h.node) if isinstance(r, ast.Return) and r.value is not None]
                        if rets:
                            return [b_ for r in rets for b_ in judge(h.node, seed, r, depth + 1)]
                return [norm(v)[:60]]

            return one(v, 0)

        for ov in ovs:
            rv = next(k.value for k in ov.keywords if k.arg == "rename")
            bad = judge(fn.node, set(), rv)
            vals = [rv]
            sub = f"{conv.relpath}:{fname} wire key of a field"
            if bad:
                rep.violation(rule, sub, f"{fn.fq}|derived-wire-key|{bad[0][:30]}",
                              f"the key passed as override(rename=...) can be `{bad[0]}` - neither the field's own name nor an entry of the Meta map: for a field the map does not "
                              "list the two directions use different keys (decode expects the field name, encode writes a derived one), so decode(encode(x)) fails and "
                              "encode(decode(d)) renames keys", fn.loc(ov))
            else:
                rep.ok(rule, sub, f"every definition of the renamed key is the field name or a Meta map entry ({[norm(v)[:30] for v in vals]})", fn.loc(ov))


def rule_recursive_registration(repo: Repo, rep: Report, rule: str) -> None:
    conv = repo.module(CONV)
    from sa.flatten import flatten as _flc

    for fname in ("_register_structure_hooks_recursively", "_register_unstructure_hooks_recursively"):
        fn = conv.functions.get(fname)
        if fn is None:
            raise AnalysisError(f"anchor vanished: {fname}")
        if not any(isinstance(n, ast.For) for n in own_nodes(fn.node)):
            fn = _flc(fn, depth=1)  # the field loop was moved into a shared helper (one level: the nested-types helper stays a call)
        L = Locals(fn.node)
        loops = [n for n, _ in L.loops_over("dataclasses.fields(ANY_c)") + L.loops_over("fields(ANY_c)") if isinstance(n, ast.For)]
        if not loops:
            # `for field_type in _resolved_field_types(cls):` - a helper of the module that returns one entry per dataclass field
            # (an unfiltered comprehension over dataclasses.fields(<its parameter>))
            for lp in [n for n in own_nodes(fn.node) if isinstance(n, ast.For) and isinstance(n.iter, ast.Call) and isinstance(n.iter.func, ast.Name) and n.iter.func.id in conv.functions]:
                hf = conv.functions[lp.iter.func.id]
                rets = [r for r in own_nodes(hf.node) if isinstance(r, ast.Return) and r.value is not None]
                if rets and all(isinstance(r.value, (ast.ListComp, ast.GeneratorExp)) and len(r.value.generators) == 1 and not r.value.generators[0].ifs
                                and (dotted(getattr(r.value.generators[0].iter, "func", None) or ast.Name(id="")) or "").split(".")[-1] == "fields" for r in rets):
                    loops.append(lp)
        sub = f"{conv.relpath}:{fname} descends into every field type"
        if len(loops) != 1:
            rep.violation(rule, sub, f"{fn.fq}|field-loop|{len(loops)}", "no single loop over dataclasses.fields(cls)", fn.loc())
            continue
        cfg = CFG(fn.node)
        hdr = [n.id for n in cfg.nodes if n.kind == "iter" and n.stmt is loops[0]]
        rec = {n.id for n in cfg.nodes if n.kind == "stmt" and n.ast is not None and any(
            (dotted(c.func) in (fname, "_register_hooks_for_nested_types")) for c in calls_in(n.ast))}
        w = None
        for m, lab in cfg.succ[hdr[0]]:
            if lab == "loop" and m not in rec:
                w = w or cfg.must_pass(m, rec, {hdr[0], cfg.exit})
        if w is None:
            rep.ok(rule, sub, "every iteration recurses (directly for dataclass fields, through _register_hooks_for_nested_types otherwise)", fn.loc(loops[0]))
        else:
            rep.violation(rule, sub, f"{fn.fq}|field-skipped|{cfg.describe_path(w)}",
                          f"a field can be skipped without registering hooks for its type ({cfg.describe_path(w)}): nested models fall back to cattrs' "
                          "default and emit Python field names instead of wire keys", fn.loc(loops[0]))
    nt = conv.functions.get("_register_hooks_for_nested_types")
    if nt is None:
        raise AnalysisError("anchor vanished: _register_hooks_for_nested_types")
    cfg = CFG(nt.node)
    dom = cfg.dominators()
    L = Locals(nt.node)
    # the registrar is the parameter that is *called*; the inspected type is the parameter handed to is_dataclass()
    called_params = {c.func.id for c in calls_in(nt.node) if isinstance(c.func, ast.Name) and L.is_param(c.func.id)}
    if not called_params:
        raise AnalysisError("anchor vanished: _register_hooks_for_nested_types calls none of its parameters (registrar)")
    reg = [n for n in cfg.nodes if n.kind == "stmt" and n.ast is not None and any(isinstance(c.func, ast.Name) and c.func.id in called_params for c in calls_in(n.ast))]
    sub = f"{conv.relpath}:_register_hooks_for_nested_types"

    def allowed_conjunct(t: ast.AST) -> bool:
        t = L.inline(t)
        return (match("isinstance(VAR_t, type)", t) is not None or match("dataclasses.is_dataclass(VAR_t)", t) is not None
                or match("is_dataclass(VAR_t)", t) is not None or match("inspect.isclass(VAR_t)", t) is not None)

    okr = False
    for r in reg:
        gs = [(g, p) for g, p in guards(cfg, r.id, dom) if g.kind == "test"]
        conj: List[ast.AST] = []
        good = bool(gs)
        for g, pol in gs:
            if pol is not True:
                good = False
                break
            conj += list(g.ast.values) if isinstance(g.ast, ast.BoolOp) and isinstance(g.ast.op, ast.And) else [g.ast]
        # only allowed guards: "is a class" and "is a dataclass" of the inspected type (in one test or nested)
        if good and all(allowed_conjunct(t) for t in conj) and any("is_dataclass" in norm(L.inline(t)) for t in conj):
            okr = True
    rec_args = [n for n, _ in L.loops_over("get_args(ANY_t)") + L.loops_over("typing.get_args(ANY_t)")]
    if okr and rec_args:
        rep.ok(rule, sub, "registers every dataclass it meets (no other condition) and descends into all type arguments", nt.loc())
    else:
        rep.violation(rule, sub, f"{nt.fq}|nested-guard|reg={okr}|args={bool(rec_args)}",
                      "a dataclass found inside a generic/union field type is registered only under extra conditions (or type arguments are not descended): "
                      "some nested models never get their rename hooks", nt.loc())


def rule_string_formats(repo: Repo, rep: Report, rule: str) -> None:
    """`type: string` values travel as JSON strings.  The Python type chosen for a string *format* must therefore encode back to a
    string: `str` itself, or a leaf type whose registered unstructure hook produces text (datetime, date, UUID, bytes -> base64 ...).
    A cattrs-native number/bool type would decode "0012" and re-encode it as the JSON number 12."""
    conv = repo.module(CONV)
    regs = hook_registrations(conv)
    sr = repo.module("types.resolvers.schema_resolver")
    rs = sr.classes["OpenAPISchemaResolver"].methods.get("_resolve_string") if "OpenAPISchemaResolver" in sr.classes else None
    if rs is None:
        raise AnalysisError("anchor vanished: OpenAPISchemaResolver._resolve_string")
    n = 0
    for fmt_, ty, v in string_format_table(rs):
        n += 1
        sub = f"{sr.relpath}:_resolve_string format `{fmt_}` -> `{ty}`"
        if ty == "str" or (ty in regs and "unstructure" in regs[ty]):
            rep.ok(rule, sub, "encodes back to a JSON string" + ("" if ty == "str" else f" (hook {regs[ty]['unstructure'][0]})"), rs.loc(v))
        else:
            rep.violation(rule, sub, f"{rs.fq}|string-format-non-text|{fmt_}|{ty}",
                          f"a `type: string, format: {fmt_}` value is typed `{ty}`, which the converter writes as a JSON {'number' if ty in ('int', 'float') else 'value of another kind'}: "
                          "a conforming document (\"0012\") decodes and is re-encoded as 12 - the wire type and text change silently", rs.loc(v))
    rep.require(n >= 4, f"{rule}: only {n} entries of the string format table found (floor 4)")


# ------------------------------------------------------------------------------------------------ field types are resolved before cattrs sees the class
def rule_field_types_resolved(repo: Repo, rep, rule: str) -> None:
    """cattrs' `make_dict_structure_fn` / `make_dict_unstructure_fn` resolve an annotation only when it is a string *as a whole*, and
    then with `typing.get_type_hints(cls)` - without `include_extras`.  The generator writes a self reference inside a container as
    `List["Node"]` (a generic alias that merely contains a ForwardRef: structuring fails with "Unsupported type: ForwardRef('Node')",
    unstructuring leaves the nested instances raw), and one fully quoted field (`manager: "Employee | None"`) makes cattrs re-resolve
    *all* fields, stripping the `Annotated[..., Discriminator()]` metadata of a sibling union field.  Both dataclass hook factories must
    therefore resolve the field types themselves - `get_type_hints(cls, include_extras=True)` written back to the fields - before the
    class is handed to cattrs."""
    conv = repo.module("core.cattrs_converter")

    def resolves(f) -> bool:
        """calls get_type_hints(..., include_extras=True) and stores the result into the fields' `type`"""
        gth = [c for c in ast.walk(f.node) if isinstance(c, ast.Call) and (dotted(c.func) or "").endswith("get_type_hints")
               and any(k.arg == "include_extras" and isinstance(k.value, ast.Constant) and k.value.value is True for k in c.keywords)]
        stores = [a for a in ast.walk(f.node) if isinstance(a, ast.Assign) and any(isinstance(t, ast.Attribute) and t.attr == "type" for t in a.targets)]
        return bool(gth) and bool(stores)

    resolvers = {q for q, f in conv.functions.items() if "." not in q and resolves(f)}
    # ... and the resolver really resolves: the only way around `get_type_hints` is "this is not a dataclass" (a shortcut such as "no annotation
    # is a string" misses `List["Node"]`, whose annotation is a generic alias that merely contains the forward reference)
    from sa.cfg import CFG as _CFG, guards as _gd

    for q in sorted(resolvers):
        f = conv.functions[q]
        cfg = _CFG(f.node)
        dom = cfg.dominators()
        gnodes = {n.id for n in cfg.nodes if n.ast is not None and n.kind == "stmt" and any((dotted(c.func) or "").endswith("get_type_hints") for c in calls_in(n.ast))}
        sub = f"{conv.relpath}:{q} every dataclass reaches get_type_hints"
        bad = None
        for n in cfg.nodes:
            if n.kind == "stmt" and isinstance(n.ast, ast.Return) and not n.copy and not (dom[n.id] & gnodes):
                gs = [g for g, pol in _gd(cfg, n.id, dom) if g.kind == "test"]
                p0 = f.node.args.args[0].arg if f.node.args.args else None  # type: ignore[attr-defined]

                def harmless(t: ast.AST) -> bool:
                    """`not is_dataclass(cls)` or 'this very class was resolved before' (`cls in <record>`)"""
                    if "is_dataclass" in norm(t):
                        return True
                    while isinstance(t, ast.UnaryOp):
                        t = t.operand
                    return isinstance(t, ast.Compare) and len(t.ops) == 1 and isinstance(t.ops[0], (ast.In, ast.NotIn)) and isinstance(t.left, ast.Name) and t.left.id == p0

                if not gs or not all(harmless(g.ast) for g in gs):
                    bad = (n, [g for g in gs if not harmless(g.ast)] or gs)
        if bad is not None:
            rep.violation(rule, sub, f"{f.fq}|resolver-shortcut",
                          f"`{q}` returns without resolving under `{norm(bad[1][-1].ast)[:80] if bad[1] else 'no condition'}`: a class whose forward references sit inside containers "
                          "(`children: List['Node']` - the annotation is not a string) keeps them, cattrs fails with 'Unsupported type: ForwardRef' and leaves nested instances raw", f.loc(bad[0].ast))
        else:
            rep.ok(rule, sub, "the only return in front of get_type_hints is the not-a-dataclass guard", f.loc())
    for name, maker in (("_make_dataclass_structure_fn", "make_dict_structure_fn"), ("_make_dataclass_unstructure_fn", "make_dict_unstructure_fn")):
        fn = conv.functions.get(name)
        if fn is None:
            raise AnalysisError(f"{rule}: anchor vanished: {name}")
        makes = [c for c in calls_in(fn.node) if (dotted(c.func) or "").split(".")[-1] == maker]
        if not makes:
            raise AnalysisError(f"{rule}: {name} no longer calls cattrs' {maker} (anchor)")
        sub = f"{conv.relpath}:{name} field types resolved before `{maker}`"
        before = [c for c in calls_in(fn.node) if c.lineno < makes[0].lineno and isinstance(c.func, ast.Name) and c.func.id in resolvers]
        if before or resolves(fn):
            rep.ok(rule, sub, "`get_type_hints(cls, include_extras=True)` is written back to the fields first (nested forward references and Annotated metadata survive)", fn.loc(makes[0]))
        else:
            rep.violation(rule, sub, f"{fn.fq}|field-types-left-to-cattrs",
                          f"the class goes to `{maker}` with its annotations as written: `children: List['Node']` cannot be structured (Unsupported type: ForwardRef) and is left raw "
                          "when unstructured, and a quoted self reference next to a discriminated union field makes cattrs drop that field's discriminator (first-match decoding)",
                          fn.loc(makes[0]))
