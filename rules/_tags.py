"""Tag-grouping normal form shared by C07 and C13: how a component maps operations to tag clients."""
from __future__ import annotations

import ast
from dataclasses import dataclass
from typing import List, Optional

from sa.model import Function, Repo, calls_in, const_str, dotted, norm, own_nodes

GROUPERS = [
    ("endpoints emitter", "emitters.endpoints_emitter:EndpointsEmitter.emit"),
    ("client visitor", "visit.client_visitor:ClientVisitor.visit"),
    ("mocks emitter", "emitters.mocks_emitter:MocksEmitter._group_operations_by_tag"),
]
NAMERS = [
    ("endpoints emitter", "emitters.endpoints_emitter:EndpointsEmitter.emit"),
    ("client visitor", "visit.client_visitor:ClientVisitor.visit"),
    ("mocks emitter", "emitters.mocks_emitter:MocksEmitter.emit"),
    ("endpoint protocol", "visit.endpoint.endpoint_visitor:EndpointVisitor.generate_endpoint_protocol"),
    ("endpoint implementation", "visit.endpoint.endpoint_visitor:EndpointVisitor._generate_endpoint_implementation"),
    ("endpoint mock class", "visit.endpoint.endpoint_visitor:EndpointVisitor.generate_endpoint_mock_class"),
]


@dataclass
class Grouping:
    all_tags: bool  # iterates every tag of an operation (not only the first)
    key_fn: Optional[str]  # function applied to a tag to obtain the grouping key
    default_tag: Optional[str]
    score_dump: Optional[str]  # normalised AST of the tag_score function (canonical spelling choice)
    chooses_max_score: bool

    def normal_form(self) -> str:
        return f"all_tags={self.all_tags} key={self.key_fn} default={self.default_tag!r} canonical=max(tag_score)={self.chooses_max_score} score={hash(self.score_dump) if self.score_dump else None}"


def grouping_of(repo: Repo, fn: Function) -> Grouping:
    mod = fn.module
    consts = {}
    for st in mod.tree.body:
        if isinstance(st, ast.Assign) and isinstance(st.targets[0], ast.Name) and const_str(st.value) is not None:
            consts[st.targets[0].id] = const_str(st.value)
    all_tags = False
    key_fn = None
    default_tag = None
    for n in own_nodes(fn.node):
        # tags = op.tags or [DEFAULT]
        if isinstance(n, ast.BoolOp) and isinstance(n.op, ast.Or) and norm(n.values[0]).endswith(".tags") and isinstance(n.values[-1], ast.List) and n.values[-1].elts:
            e = n.values[-1].elts[0]
            default_tag = const_str(e) if const_str(e) is not None else consts.get(getattr(e, "id", ""), None)
        # tag = op.tags[0] if op.tags else "default"
        if isinstance(n, ast.IfExp) and norm(n.body).endswith(".tags[0]"):
            default_tag = const_str(n.orelse)
            all_tags = False
        if isinstance(n, ast.For) and isinstance(n.iter, ast.Name) and n.iter.id == "tags" and isinstance(n.target, ast.Name):
            # `tags` must be exactly `<op>.tags or [<default>]` (no slicing / filtering)
            tdefs = [a for a in own_nodes(fn.node) if isinstance(a, ast.Assign) and any(isinstance(t, ast.Name) and t.id == "tags" for t in a.targets)]
            all_tags = bool(tdefs) and all(isinstance(a.value, ast.BoolOp) and isinstance(a.value.op, ast.Or) and norm(a.value.values[0]).endswith(".tags")
                                           and isinstance(a.value.values[-1], ast.List) for a in tdefs)
            for c in calls_in(n):
                d = dotted(c.func) or ""
                if c.args and isinstance(c.args[0], ast.Name) and c.args[0].id == n.target.id and d.startswith("NameSanitizer."):
                    key_fn = d.split(".")[-1]
    score = None
    for q, f in mod.functions.items():
        if q == f"{fn.qualname}.<locals>.tag_score":
            body = [s for s in f.node.body if not isinstance(s, (ast.Import, ast.ImportFrom))]  # type: ignore[attr-defined]
            score = "|".join(ast.dump(s) for s in body)
    chooses = any(isinstance(n, ast.Call) and dotted(n.func) == "max" and any(k.arg == "key" and norm(k.value) == "tag_score" for k in n.keywords)
                  for n in own_nodes(fn.node))
    return Grouping(all_tags, key_fn, default_tag, score, chooses)


def naming_of(fn: Function) -> List[str]:
    """How class / module names are derived from the canonical tag in this function (normalised expression texts)."""
    out = set()
    for c in calls_in(fn.node, include_nested_defs=True):
        d = dotted(c.func) or ""
        if d in ("NameSanitizer.sanitize_class_name", "NameSanitizer.sanitize_module_name", "NameSanitizer.sanitize_tag_class_name",
                 "NameSanitizer.sanitize_tag_attr_name", "NameSanitizer.sanitize_filename") and c.args:
            a = norm(c.args[0])
            if "tag" in a.lower():
                out.add(d.split(".")[-1])
    return sorted(out)
