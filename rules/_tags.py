"""Tag-grouping normal form shared by C07 and C13: how a component maps operations to tag clients."""
from __future__ import annotations

import ast
from dataclasses import dataclass
from typing import Tuple, List, Optional

from sa.model import Function, Repo, calls_in, const_str, dotted, norm, own_nodes

GROUPERS = [
    ("endpoints emitter", "emitters.endpoints_emitter:EndpointsEmitter.emit"),
    ("client visitor", "visit.client_visitor:ClientVisitor.visit"),
    ("mocks emitter", "emitters.mocks_emitter:MocksEmitter._group_operations_by_tag"),
]
NAMERS = [
    ("endpoints emitter", "emitters.endpoints_emitter:EndpointsEmitter.emit"),
    ("client visitor", "visit.client_visitor:ClientVisitor.visit"),
    ("mocks emitter", "emitters.mocks_emitter:MocksEmitter.emit"),
    ("endpoint protocol", "visit.endpoint.endpoint_visitor:EndpointVisitor.generate_endpoint_protocol"),
    ("endpoint implementation", "visit.endpoint.endpoint_visitor:EndpointVisitor._generate_endpoint_implementation"),
    ("endpoint mock class", "visit.endpoint.endpoint_visitor:EndpointVisitor.generate_endpoint_mock_class"),
]


@dataclass
class Grouping:
    all_tags: bool  # iterates every tag of an operation (not only the first)
    key_fn: Optional[str]  # function applied to a tag to obtain the grouping key
    default_tag: Optional[str]
    score_dump: Optional[str]  # normalised AST of the tag_score function (canonical spelling choice)
    chooses_max_score: bool

    def normal_form(self) -> str:
        return f"all_tags={self.all_tags} key={self.key_fn} default={self.default_tag!r} canonical=max(tag_score)={self.chooses_max_score} score={hash(self.score_dump) if self.score_dump else None}"


def _alpha_dump(f: ast.AST) -> str:
    """ast.dump of a function body with parameter / local names replaced by their order of first appearance."""
    from sa.match import clone

    c = clone(f)

    class _Count(ast.NodeTransformer):
        """counting idioms in one spelling: `len([x for x in S if P])`, `len(list(<genexp>))`, `sum(1 for x in S if P)` -> __count__(<generators>)"""

        def visit_Call(self, n: ast.Call):  # noqa: N802
            self.generic_visit(n)
            gens = None
            if isinstance(n.func, ast.Name) and n.func.id == "len" and len(n.args) == 1 and not n.keywords:
                a = n.args[0]
                if isinstance(a, ast.Call) and isinstance(a.func, ast.Name) and a.func.id in ("list", "tuple") and len(a.args) == 1:
                    a = a.args[0]
                if isinstance(a, (ast.ListComp, ast.GeneratorExp)):
                    gens = a.generators
            elif isinstance(n.func, ast.Name) and n.func.id == "sum" and len(n.args) == 1 and not n.keywords and isinstance(n.args[0], (ast.GeneratorExp, ast.ListComp)) \
                    and isinstance(n.args[0].elt, ast.Constant) and n.args[0].elt.value == 1:
                gens = n.args[0].generators
            if gens is not None:
                return ast.copy_location(ast.Call(func=ast.Name(id="__count__", ctx=ast.Load()), args=[ast.GeneratorExp(elt=ast.Constant(value=1), generators=gens)], keywords=[]), n)
            return n

    c = _Count().visit(c)
    if c.args.args and c.args.args[0].arg in ("self", "cls"):  # type: ignore[attr-defined]
        c.args.args = c.args.args[1:]  # type: ignore[attr-defined]
    c.decorator_list = []  # type: ignore[attr-defined]
    names: dict = {}
    for a in c.args.posonlyargs + c.args.args + c.args.kwonlyargs:  # type: ignore[attr-defined]
        names.setdefault(a.arg, f"v{len(names)}")
        a.arg = names[a.arg]
        a.annotation = None
    stores = {n.id for n in ast.walk(c) if isinstance(n, ast.Name) and isinstance(n.ctx, ast.Store)}
    for n in ast.walk(c):
        if isinstance(n, ast.Name) and (n.id in names or n.id in stores):
            names.setdefault(n.id, f"v{len(names)}")
            n.id = names[n.id]
    body = [s for s in c.body if not isinstance(s, (ast.Import, ast.ImportFrom)) and not (isinstance(s, ast.Expr) and isinstance(s.value, ast.Constant))]  # type: ignore[attr-defined]
    return "|".join(ast.dump(s) for s in body)


def _tags_or_default(e: ast.AST, consts: dict) -> Optional[Tuple[bool, Optional[str]]]:
    """`<op>.tags or [D]` / `<op>.tags if <op>.tags else [D]` -> (all tags, D);  `<op>.tags[0] if <op>.tags else D` -> (first only, D)."""
    def is_tags(x: ast.AST) -> bool:
        return isinstance(x, ast.Attribute) and x.attr == "tags"

    def dflt(x: ast.AST) -> Optional[str]:
        if isinstance(x, (ast.List, ast.Tuple)) and len(x.elts) == 1:
            x = x.elts[0]
        return const_str(x) if const_str(x) is not None else consts.get(getattr(x, "id", ""), None)

    if isinstance(e, ast.BoolOp) and isinstance(e.op, ast.Or) and len(e.values) == 2 and is_tags(e.values[0]) and isinstance(e.values[1], (ast.List, ast.Tuple)):
        return True, dflt(e.values[1])
    if isinstance(e, ast.IfExp) and is_tags(e.test) and is_tags(e.body) and isinstance(e.orelse, (ast.List, ast.Tuple)):
        return True, dflt(e.orelse)
    if isinstance(e, ast.IfExp) and is_tags(e.test) and isinstance(e.body, ast.Subscript) and is_tags(e.body.value):
        return False, dflt(e.orelse)
    return None


def grouping_of(repo: Repo, fn: Function) -> Grouping:
    from sa.flatten import flatten
    from sa.match import Locals

    mod = fn.module
    orig = fn
    fn = flatten(fn)  # the grouping may live in a private helper of the same class / module
    L = Locals(fn.node)
    consts = {}
    # string constants of the package (a helper inlined from a sibling module keeps referring to that module's constants);
    # the function's own module wins, names bound to different values in different modules are dropped
    clash = set()
    for m_ in list(repo.modules.values()) + [mod]:
        for st in m_.tree.body:
            if isinstance(st, ast.Assign) and isinstance(st.targets[0], ast.Name) and const_str(st.value) is not None:
                nm_, v_ = st.targets[0].id, const_str(st.value)
                if m_ is mod:
                    consts[nm_] = v_
                    clash.discard(nm_)
                elif nm_ in consts and consts[nm_] != v_:
                    clash.add(nm_)
                else:
                    consts[nm_] = v_
    for nm_ in clash:
        consts.pop(nm_, None)
    all_tags = False
    key_fn = None
    default_tag = None
    seen_tag_expr = False
    # a per-operation tag expression used outside a loop (first tag only)
    for n in own_nodes(fn.node):
        if isinstance(n, ast.IfExp):
            td = _tags_or_default(n, consts)
            if td is not None and td[0] is False:
                all_tags, default_tag, seen_tag_expr = False, td[1], True
    for n in own_nodes(fn.node):
        if isinstance(n, ast.For) and isinstance(n.target, ast.Name):
            td = _tags_or_default(L.inline(n.iter), consts)
            if td is None or td[0] is False:
                continue
            all_tags, default_tag, seen_tag_expr = True, td[1], True
            for c in calls_in(n):
                d = dotted(c.func) or ""
                if c.args and isinstance(c.args[0], ast.Name) and L.root(c.args[0].id) == n.target.id and d.startswith("NameSanitizer."):
                    key_fn = d.split(".")[-1]
    if key_fn is None:
        # key function applied to a single tag variable (first-tag groupings)
        for c in calls_in(fn.node):
            d = dotted(c.func) or ""
            if d.startswith("NameSanitizer.normalize") and c.args:
                key_fn = d.split(".")[-1]
    # canonical spelling: max(<candidates>, key=<score function>)
    score = None
    chooses = False
    nested = {f.name: f for q, f in mod.functions.items() if ".<locals>." in q and q.split(".<locals>.")[0] in (orig.qualname,) + tuple(
        m.qualname for m in (orig.cls.methods.values() if orig.cls else []))}
    toplevel = {f.name: f for q, f in mod.functions.items() if "." not in q}
    methods = dict(orig.cls.methods) if orig.cls else {}
    # `pick(<candidates>)` where `pick` - a function of the package or a static method of one of its classes, found by name - is
    # `return max(<its parameter>, key=<score>)`: the choice written as a shared helper
    max_calls = [n for n in own_nodes(fn.node) if isinstance(n, ast.Call) and dotted(n.func) == "max"]
    if not max_calls:
        for n in own_nodes(fn.node):
            if not isinstance(n, ast.Call) or not n.args:
                continue
            nm = n.func.attr if isinstance(n.func, ast.Attribute) else n.func.id if isinstance(n.func, ast.Name) else None
            if nm is None:
                continue
            cands_f = [f for f in repo.all_functions() if f.name == nm and "<locals>" not in f.qualname]
            if len(cands_f) != 1:
                continue
            body_ = [s_ for s_ in cands_f[0].node.body if not (isinstance(s_, ast.Expr) and isinstance(s_.value, ast.Constant))]
            if len(body_) == 1 and isinstance(body_[0], ast.Return) and isinstance(body_[0].value, ast.Call) and dotted(body_[0].value.func) == "max":
                max_calls.append(body_[0].value)
    for n in max_calls:
        if True:
            for k in n.keywords:
                target = None
                if k.arg == "key" and isinstance(k.value, ast.Name):
                    target = nested.get(k.value.id) or toplevel.get(k.value.id)
                    if target is None:
                        # a score function shared between the emitters: imported from another module of the package
                        imp = mod.imports.get(k.value.id)
                        tm = (repo.modules.get(imp[0]) or repo.modules.get("pyopenapi_gen." + imp[0])) if imp and imp[1] else None
                        if tm is not None and imp[1] in tm.functions:
                            target = tm.functions[imp[1]]
                    if target is None:
                        # the call was inlined from a helper of another module: a package-wide unique top-level function of that name
                        cands_ = [m_.functions[k.value.id] for m_ in repo.modules.values() if k.value.id in m_.functions and "." not in m_.functions[k.value.id].qualname]
                        if len(cands_) == 1:
                            target = cands_[0]
                elif k.arg == "key" and isinstance(k.value, ast.Attribute) and isinstance(k.value.value, ast.Name) and k.value.attr in methods:
                    target = methods[k.value.attr]
                elif k.arg == "key" and isinstance(k.value, ast.Attribute) and isinstance(k.value.value, ast.Name):
                    # a static method of another class of the package (`key=NameSanitizer.tag_spelling_score`): the class is found by name
                    owners = [m_.classes[k.value.value.id] for m_ in repo.modules.values() if k.value.value.id in m_.classes]
                    if len(owners) == 1 and k.value.attr in owners[0].methods:
                        target = owners[0].methods[k.value.attr]
                if target is not None:
                    chooses = True
                    score = _alpha_dump(target.node)
                elif k.arg == "key" and isinstance(k.value, ast.Lambda):
                    chooses = True
                    score = ast.dump(k.value.body)
    return Grouping(all_tags, key_fn, default_tag, score, chooses)


def naming_of(fn: Function) -> List[str]:
    """How class / module names are derived from the canonical tag in this function (normalised expression texts)."""
    from sa.flatten import flatten

    out = set()
    for c in calls_in(flatten(fn).node, include_nested_defs=True):
        d = dotted(c.func) or ""
        if d in ("NameSanitizer.sanitize_class_name", "NameSanitizer.sanitize_module_name", "NameSanitizer.sanitize_tag_class_name",
                 "NameSanitizer.sanitize_tag_attr_name", "NameSanitizer.sanitize_filename") and c.args:
            if not isinstance(c.args[0], ast.Attribute):  # a tag spelling held in a local / subscript, not e.g. `schema.name`
                out.add(d.split(".")[-1])
    return sorted(out)
