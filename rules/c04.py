"""C04 - request fidelity: what the caller passes is what goes on the wire.

R4.1  parameter-location exhaustiveness: every location the parameter processor admits into the signature
      (path, query, header, cookie) has a consumer that sends it
R4.2  every function that emits `self._transport.request(` makes `params=` / `headers=` data-dependent on the
      operation's query / header parameters (a template with only literal `params=None` drops them)
R4.3  wire names: query/header dict keys derive from `original_name` (as an escaped literal), values from the
      sanitised argument name recorded for the parameter
R4.4  path-level / operation-level parameters are merged by (name, in) with operation-level precedence, and colliding
      argument names are de-duplicated with path parameters keeping the plain name
R4.5  optional => omitted when None: required parameters use the plain entry, optional ones the conditional unpack
R4.6  one sanitizer for URL holes and signature names
R4.12 the path template reaches the URL unchanged apart from placeholder renaming (no strip / replace / case change / inserted text)
R4.22 the content type a body is sent with is one the operation declares: every constant assigned to `primary_content_type` is tested for membership in the declared media types
R4.21 one awaited call issues exactly one request: the bundled transport sends from one site, never from a retry / replay branch            [= R6.13]
R4.13 the overload implementation selects a media type's branch by the presence of that media type's body argument
R4.14 the None-stripping pass of the body serialiser never drops an element of a list (only dict keys with a None value)
R4.15 hook registration descends into every field of a body model (no field is skipped by name)                          [= R16.7]
R4.16 the argument serialiser decides `isinstance(x, Enum)` (-> value) before its str / int shortcut (generated enums are str / int subclasses)
R4.17 a fixed local of the generated method that is bound before arguments are read is not a possible argument name        [finding: `url`]
R4.18 a raw body (`data=<bytes>`) is always sent together with a `Content-Type` header carrying the declared media type
R4.19 non-string header arguments are converted to text (in the emitted entry or when the transport merges per-request headers)
R4.20 every path argument is percent-encoded (`quote(..., safe="")`) before it is interpolated into the URL
R4.10 an object occurring twice in a body is serialised twice (visited set = recursion stack)   [= R16.2 bookkeeping instance]
R4.11 the transport forwards json/data/files/params unchanged, also when they are empty/falsy      [= R17.3]
R4.9  a supplied header parameter reaches the wire with the caller's value: in the bundled transport per-request
      headers are layered over the transport defaults (never the other way round)          [rule shared with C17]
R4.8  body dispatch: the variable each request template references is defined by the template emitted under the same
      content type, and the body is sent for every HTTP method that declares one
"""
from __future__ import annotations

import ast
import re
from typing import Dict, List, Optional, Set, Tuple

from sa.cfg import CFG, guards
from sa.model import AnalysisError, Function, Repo, calls_in, const_str, dotted, full, norm, own_nodes, parent
from sa.match import Locals, conjuncts, match, names_in
from sa.report import Report, with_flatten_fallback
from sa.templates import HOLE, template_of

LOCATIONS = ["path", "query", "header", "cookie"]
GEN = "visit.endpoint.generators"


def _emitted_lines(fn: Function) -> List[Tuple[str, ast.AST]]:
    out = []
    local_defs: Dict[str, List[ast.AST]] = {}
    for st in own_nodes(fn.node):
        if isinstance(st, ast.Assign) and len(st.targets) == 1 and isinstance(st.targets[0], ast.Name):
            local_defs.setdefault(st.targets[0].id, []).append(st.value)

    def results(e: ast.AST, depth: int = 0) -> List[str]:
        """string literals the expression can evaluate to: results of conditional expressions, and locals bound to such expressions"""
        got: List[str] = []
        for x in ast.walk(e):
            if isinstance(x, ast.Constant) and isinstance(x.value, str) and not _in_test(x, e):
                got.append(x.value)
            elif isinstance(x, ast.Name) and x.id in local_defs and depth < 2 and not _in_test(x, e):
                for v in local_defs[x.id]:
                    if isinstance(v, (ast.Constant, ast.IfExp)):
                        got += results(v, depth + 1)
        return got
    for c in calls_in(fn.node):
        if isinstance(c.func, ast.Attribute) and c.func.attr == "write_line" and c.args:
            t = template_of(c.args[0], fn.node)
            if t is not None:
                out.append((t.text, c))
        if isinstance(c.func, ast.Attribute) and c.func.attr in ("append", "extend", "insert") and c.args:
            # every literal that can become an element: `append("a=b")`, `append("a=b" if c else "a=None")`, `extend(["json=None", "data=None"])`
            for v in results(c.args[-1]):
                out.append((v, c))
    for st in own_nodes(fn.node):
        if isinstance(st, (ast.Assign, ast.AnnAssign)) and isinstance(st.value, (ast.List, ast.Tuple)):
            for el in st.value.elts:
                for v in results(el.value if isinstance(el, ast.Starred) else el):
                    out.append((v, st))
    return out


def _in_test(const: ast.AST, root: ast.AST) -> bool:
    """Is `const` part of the *condition* of a conditional expression (not one of its results)?"""
    for n in ast.walk(root):
        if isinstance(n, ast.IfExp) and any(x is const for x in ast.walk(n.test)):
            return True
    return False


def run(repo: Repo, rep: Report, tier: str) -> None:
    from sa.report import guarded as _guarded

    pp = repo.func("visit.endpoint.processors.parameter_processor:EndpointParameterProcessor.process_parameters")
    ua = repo.module(f"{GEN}.url_args_generator")
    rg = repo.module(f"{GEN}.request_generator")
    emg = repo.module(f"{GEN}.endpoint_method_generator")

    # ---------------------------------------------------------------- R4.1
    admitted = set(LOCATIONS)
    # does the processor filter/reject a location?
    for n in own_nodes(pp.node):
        if isinstance(n, ast.If) and "param_in" in norm(n.test) and any(isinstance(s, (ast.Continue, ast.Raise)) for s in n.body):
            for loc in LOCATIONS:
                if f"'{loc}'" in norm(n.test):
                    admitted.discard(loc)
    consumed: Dict[str, str] = {}
    for mod in (ua, rg, emg):
        for fn in mod.functions.values():
            if not fn.name.startswith(("_write_", "_build_")):
                continue  # only functions that emit the entries count as consumers (not mere presence tests)
            for n in own_nodes(fn.node):
                if isinstance(n, ast.Compare) and "param_in" in norm(n.left) and isinstance(n.ops[0], ast.Eq) and const_str(n.comparators[0]) in LOCATIONS:
                    consumed.setdefault(const_str(n.comparators[0]) or "", f"{mod.relpath}:{fn.qualname}")
    # path parameters are consumed by the URL builder
    if any("sanitize_method_name" in full(f.node) and "{" in full(f.node) for q, f in ua.functions.items() if q.endswith("_build_url_with_path_vars")):
        consumed.setdefault("path", f"{ua.relpath}:_build_url_with_path_vars")
    for loc in LOCATIONS:
        sub = f"parameter location `{loc}`"
        if loc not in admitted:
            rep.ok("R4.1", sub, "rejected/filtered by the parameter processor (not in the signature)", pp.loc())
        elif loc in consumed:
            rep.ok("R4.1", sub, f"admitted into the signature and consumed by {consumed[loc]}", pp.loc())
        else:
            rep.violation("R4.1", sub, f"location-not-sent|{loc}",
                          f"`in: {loc}` parameters are accepted into the method signature by process_parameters, but no request template sends them: "
                          "the caller's argument is silently dropped", pp.loc())

    # ---------------------------------------------------------------- R4.2 request templates
    n_req = 0
    for mod in (rg, emg):
        for fn in mod.functions.values():
            lines = _emitted_lines(fn)
            if not any("self._transport.request(" in t for t, _ in lines):
                continue
            n_req += 1
            for kw, what in (("params", "query"), ("headers", "header")):
                lits = sorted({t.strip().rstrip(",") for t, _ in lines if t.strip().startswith(f"{kw}=")})
                sub = f"{mod.relpath}:{fn.qualname} `{kw}=` of the transport call"
                # "dynamic": the argument mentions the dict built from the operation's parameters (`headers=headers`, `headers={..., **headers}`)
                dynamic = [l for l in lits if re.search(rf"\b{kw}\b", l.split("=", 1)[1])]
                if dynamic:
                    rep.ok("R4.2", sub, f"emits {lits}: `{kw}` carries the {what} parameters when there are any", fn.loc())
                else:
                    # identity: the class that emits the call (a private helper the block is moved into is the same defect)
                    owner = f"{mod.name}:{fn.cls.name}" if fn.cls is not None else fn.fq
                    rep.violation("R4.2", sub, f"{owner}|literal-none|{kw}",
                                  f"every request template of this function passes the literal `{kw}=None`: {what} parameters that are in the signature are "
                                  "never sent (operations with several request content types)", fn.loc())
    rep.require(n_req >= 2, f"R4.2: only {n_req} functions emitting the transport call found (floor 2)")

    # ---------------------------------------------------------------- R4.3 / R4.5 query & header templates
    for mname, loc in (("_write_query_params", "query"), ("_write_header_params", "header")):
        fn = ua.classes["EndpointUrlArgsGenerator"].methods.get(mname)
        if fn is None:
            raise AnalysisError(f"anchor vanished: {mname}")
        from sa.flatten import flatten as _fl43

        if sum(1 for c in calls_in(fn.node) if isinstance(c.func, ast.Attribute) and c.func.attr == "write_line") < 2:
            fn = _fl43(fn)  # the entry templates may live in a helper shared by the query and the header writer
        cfg = CFG(fn.node)
        dom = cfg.dominators()
        writes = [(n, c) for n in cfg.nodes if n.kind == "stmt" and n.ast is not None and not n.copy for c in calls_in(n.ast)
                  if isinstance(c.func, ast.Attribute) and c.func.attr == "write_line" and c.args]
        rep.require(len(writes) >= 2, f"R4.3: {mname} has {len(writes)} emit sites (floor 2)")
        for nd, c in writes:
            t = template_of(c.args[0], fn.node)
            if t is None or "DataclassSerializer.serialize(" not in t.text:
                continue
            holes = t.holes
            key_h, val_h = holes[0], holes[1]
            key_def = _def_text(fn, key_h)
            val_def = _def_text(fn, val_h)
            sub = f"{ua.relpath}:{mname} `{t.text.replace(HOLE, '{}').strip()[:50]}`"
            if "original_name" in key_def and "json.dumps" in key_def and "sanitize_method_name" in val_def and "['name']" in val_def:
                rep.ok("R4.3", sub, f"key = json.dumps(<p>['original_name']), value = the argument recorded for the parameter ({val_def[:50]})", fn.loc(c))
            else:
                rep.violation("R4.3", sub, f"{fn.fq}|wire-name|key={key_def[:40]}|val={val_def[:40]}",
                              f"the {loc} entry is keyed by `{key_def[:60]}` / valued by `{val_def[:60]}`: the wire name is not the spec's original name or the "
                              "value is not the parameter's own argument", fn.loc(c))
            gs = guards(cfg, nd.id, dom)
            # effective polarity of "the parameter is required" (a test written as `not p.get("required")` flips it)
            req = [(not p if isinstance(g.ast, ast.UnaryOp) and isinstance(g.ast.op, ast.Not) else p) for g, p in gs
                   if any(const_str(x) == "required" for x in ast.walk(g.ast))]
            conditional = "is not None else" in t.text
            if req and ((req[0] is True and not conditional) or (req[0] is False and conditional)):
                rep.ok("R4.5", sub + " optionality", "required -> plain entry, optional -> `**({...} if x is not None else {})`", fn.loc(c))
            else:
                rep.violation("R4.5", sub + " optionality", f"{fn.fq}|optionality|req={req}|cond={conditional}",
                              "the template does not match the parameter's required flag (optional None would be sent, or a supplied required value dropped)", fn.loc(c))

    # ---------------------------------------------------------------- R4.4 merge + de-dup
    po = repo.func("core.loader.operations.parser:parse_operations")
    from rules._params import override_merge_keys, reservation_rule

    keys = override_merge_keys(po)
    if keys == {"name", "param_in"}:
        rep.ok("R4.4", f"{po.module.relpath}:parse_operations parameter merge", "an operation-level parameter replaces the path-level one with the same (name, in)", po.loc())
    elif keys is None:
        rep.violation("R4.4", f"{po.module.relpath}:parse_operations parameter merge", f"{po.fq}|no-merge",
                      "path-level and operation-level parameters are concatenated without the (name, in) override: a parameter declared at both levels appears twice "
                      "(duplicate argument -> SyntaxError)", po.loc())
    else:
        rep.violation("R4.4", f"{po.module.relpath}:parse_operations parameter merge", f"{po.fq}|merge-keys|{sorted(keys)}",
                      f"an operation-level parameter evicts earlier parameters that agree on {sorted(keys)} only (OpenAPI identifies a parameter by name *and* "
                      "location): e.g. a path-level header `version` disappears when the operation declares a query `version`", po.loc())
    reservation_rule(pp, rep, "R4.4")

    _guarded(rep, rule_path_template_verbatim, repo, rep, "R4.12")
    _guarded(rep, rule_body_argument_selects_branch, repo, rep, "R4.13")
    # ---------------------------------------------------------------- R4.6 one sanitizer
    sites = {
        f"{ua.relpath}:_build_url_with_path_vars": ua.classes["EndpointUrlArgsGenerator"].methods.get("_build_url_with_path_vars"),
        f"{emg.relpath}:_generate_implementation_method": emg.classes["EndpointMethodGenerator"].methods.get("_generate_implementation_method"),
        f"{pp.module.relpath}:process_parameters": pp,
    }
    for label, fn in sites.items():
        if fn is None:
            raise AnalysisError(f"anchor vanished: {label}")
        sans = sorted({(dotted(c.func) or "").split(".")[-1] for c in calls_in(fn.node, include_nested_defs=True) if (dotted(c.func) or "").startswith("NameSanitizer.sanitize_")})
        site_names = {f.name for f in sites.values() if f is not None and f is not fn}
        if not sans and any(isinstance(c.func, ast.Attribute) and c.func.attr in site_names for c in calls_in(fn.node)):
            rep.ok("R4.6", f"{label} path-variable sanitizer", "delegates the URL construction to another checked site", fn.loc())
            continue
        if sans == ["sanitize_method_name"]:
            rep.ok("R4.6", f"{label} path-variable sanitizer", "sanitize_method_name", fn.loc())
        else:
            rep.violation("R4.6", f"{label} path-variable sanitizer", f"{fn.fq}|sanitizer|{sans}",
                          f"uses {sans} where the signature uses sanitize_method_name: the URL f-string refers to a variable the signature does not define", fn.loc())

    # ---------------------------------------------------------------- R4.9 the caller's header value wins over transport defaults
    from rules import c17

    c17.layering_rule(repo, _Relabel(rep, "R4.9"), "R4.9")

    # ---------------------------------------------------------------- R4.10 / R4.11 the body the caller passed is the body that is sent
    from rules._reuse import reuse as _reuse4

    # R4.10: the serialiser's visited set means "on the recursion stack" (add undone in a finally): an object that occurs twice in a body is sent twice
    _reuse4(repo, rep, "c16", {"R16.2": "R4.10"}, only=lambda subj: "visited bookkeeping" in subj)
    # R4.11: the transport forwards every caller kwarg except headers unchanged (an empty list / dict body is still a body)
    _reuse4(repo, rep, "c17", {"R17.3": "R4.11"})
    _reuse4(repo, rep, "c17", {"R17.13": "R4.23"})
    _guarded(rep, rule_primary_content_type_is_declared, repo, rep, "R4.22")
    # R4.21: one awaited call issues exactly one request - the bundled transport has one send site, outside loops / handlers   [= R6.13]
    _reuse4(repo, rep, "c06", {"R6.13": "R4.21"})
    _guarded(rep, rule_array_elements_kept, repo, rep, "R4.14")
    _guarded(rep, rule_enum_before_primitive_shortcut, repo, rep, "R4.16")
    _guarded(rep, rule_locals_do_not_shadow_arguments, repo, rep, "R4.17")
    _guarded(rep, rule_raw_body_has_content_type, repo, rep, "R4.18")
    _guarded(rep, rule_header_values_are_text, repo, rep, "R4.19")
    _guarded(rep, rule_path_arguments_are_encoded, repo, rep, "R4.20")
    # R4.15: the unstructure hooks (wire-key renaming) are registered for the type of *every* field of a body model, private storage of the
    # generated map wrappers included                                                                                   [= R16.7]
    from rules import _converter as _cv415

    from rules._reuse import _Filter as _F415

    _cv415.rule_recursive_registration(repo, _F415(rep, {"R4.15": "R4.15"}, only=lambda subj: "unstructure" in subj), "R4.15")  # the encoding side only
    # ---------------------------------------------------------------- R4.8 body dispatch
    grc = rg.classes["EndpointRequestGenerator"].methods.get("generate_request_call")
    if grc is None:
        raise AnalysisError("anchor vanished: generate_request_call")
    gua = ua.classes["EndpointUrlArgsGenerator"].methods.get("generate_url_and_args")
    if gua is None:
        raise AnalysisError("anchor vanished: generate_url_and_args")
    from sa.report import with_flatten_fallback

    with_flatten_fallback(rep, grc, lambda f, r: _rule_4_8(f, gua, rg, r))


def _rule_4_8(grc: Function, gua: Function, rg, rep) -> None:
    cfg = CFG(grc.node)
    dom = cfg.dominators()
    body_adds = []
    for nd in cfg.nodes:
        if nd.kind != "stmt" or nd.ast is None or nd.copy:
            continue
        # a keyword-argument literal of the transport call (`"json=json_body"`) appended, listed or returned by this statement
        for c in ast.walk(nd.ast):
            if isinstance(c, ast.Constant) and isinstance(c.value, str) and re.fullmatch(r"(json|data|files)=(?!None$)\w+", c.value):
                body_adds.append((nd, c))
    rep.require(len(body_adds) >= 4, f"R4.8: only {len(body_adds)} body argument emits found (floor 4)")
    want_var = {"json": "json_body", "files": "files_data"}
    for nd, c in body_adds:
        lit = c.value or ""
        gs = guards(cfg, nd.id, dom)
        GL = Locals(grc.node)
        gtxt = []
        other = []
        for g, p in gs:
            if g.kind != "test" or p is None or isinstance(g.ast, ast.Constant):
                continue  # (`while True:` of a written-out helper is no condition)
            conj = g.ast.values if p is True and isinstance(g.ast, ast.BoolOp) and isinstance(g.ast.op, ast.And) else [g.ast]
            for cj in conj:
                pj = p
                while isinstance(cj, ast.UnaryOp) and isinstance(cj.op, ast.Not):
                    cj, pj = cj.operand, not pj  # `not X` on the false branch is `X`
                gtxt.append(("" if pj else "not ") + norm(cj))
                ci = GL.inline(cj, stop=tuple(GL.params))
                # allowed conditions: "the operation declares a request body" and tests of the content type against media-type literals
                has_body = isinstance(ci, ast.Attribute) and ci.attr == "request_body"
                consts = [x.value for x in ast.walk(ci) if isinstance(x, ast.Constant) and isinstance(x.value, str)]
                media = bool(consts) and all("/" in v for v in consts) and all(GL.is_param(n) for n in names_in(ci))
                ct_params = {n for x in ast.walk(grc.node) if isinstance(x, ast.Compare) and any(
                    isinstance(y, ast.Constant) and isinstance(y.value, str) and "/" in y.value for y in ast.walk(x)) for n in names_in(x) if GL.is_param(n)}
                truthy_ct = isinstance(ci, ast.Name) and ci.id in ct_params
                # the result of a content-type lookup held in a local (`arg = TABLE.get(content_type)` ... `if arg is not None`): every
                # definition of the local is a literal or None
                probe = ci.left if isinstance(ci, ast.Compare) and len(ci.ops) == 1 and isinstance(ci.ops[0], (ast.Is, ast.IsNot)) and \
                    isinstance(ci.comparators[0], ast.Constant) and ci.comparators[0].value is None else ci
                lookup_result = isinstance(probe, ast.Name) and bool(GL.defs.get(probe.id)) and all(
                    k_ == "assign" and isinstance(v_, ast.Constant) and (v_.value is None or isinstance(v_.value, str)) for k_, v_, _ in GL.defs.get(probe.id, []))
                if not (has_body or media or truthy_ct or lookup_result):
                    other.append(("" if pj else "not ") + norm(cj))
        sub = f"{rg.relpath}:generate_request_call `{lit}`"
        if other:
            rep.violation("R4.8", sub, f"{grc.fq}|body-extra-guard|{lit}|{other}",
                          f"the request body argument is emitted only under the additional condition(s) {other}: for other operations that declare a body "
                          "(e.g. DELETE with a JSON body) it is silently not sent", grc.loc(c))
        else:
            rep.ok("R4.8", sub, f"emitted whenever the operation has a request body of that content type ({[g[:40] for g in gtxt]})", grc.loc(c))
    # the variables referenced are defined by url_args_generator under the same content type
    gtxt_all = " ".join(t for t, _ in _emitted_lines(gua))
    for _, c in body_adds:
        lit = c.value or ""
        var = lit.split("=", 1)[1]
        if not (f"{var} " in gtxt_all or f"{var}:" in gtxt_all or f"{var}=" in gtxt_all):
            rep.violation("R4.8", f"request template variable `{var}`", f"body-var-undefined|{var}",
                          f"`{lit}` refers to `{var}`, which no template of generate_url_and_args defines (NameError in the generated method)", grc.loc(c))
    for var in ("json_body", "files_data", "form_data_body", "bytes_body"):
        used = any(var in (c.value or "") for _, c in body_adds)
        defined = f"{var} " in gtxt_all or f"{var}:" in gtxt_all or f"{var}=" in gtxt_all
        sub = f"request template variable `{var}`"
        if used and defined:
            rep.ok("R4.8", sub, "referenced by generate_request_call and defined by generate_url_and_args", gua.loc())
        elif used:
            rep.violation("R4.8", sub, f"body-var-undefined|{var}", f"`{var}` is referenced in the transport call but no template defines it (NameError)", gua.loc())


def _def_text(fn: Function, e: ast.AST, depth: int = 0) -> str:
    """Text of the expression with local single-definition names expanded (two levels)."""
    if isinstance(e, ast.Name) and depth < 3:
        defs = [n for n in own_nodes(fn.node) if isinstance(n, ast.Assign) and any(isinstance(t, ast.Name) and t.id == e.id for t in n.targets)]
        if len(defs) == 1:
            inner = defs[0].value
            txt = full(inner)
            for x in ast.walk(inner):
                if isinstance(x, ast.Name) and x.id != e.id:
                    sub = _def_text(fn, x, depth + 1)
                    if sub != x.id:
                        txt = txt.replace(x.id, f"({sub})")
            return txt
    return full(e)


class _Relabel:
    def __init__(self, rep, rule):
        self.rep, self.rule = rep, rule

    def ok(self, rule, *a, **k):
        self.rep.ok(self.rule, *a, **k)

    def violation(self, rule, *a, **k):
        self.rep.violation(self.rule, *a, **k)

    def require(self, *a, **k):
        self.rep.require(*a, **k)

    def error(self, *a, **k):
        self.rep.error(*a, **k)

    def count(self, *a, **k):
        pass


# ------------------------------------------------------------------------------------------------ R4.12 the path template is not edited
STR_EDITS = {"strip", "lstrip", "rstrip", "lower", "upper", "title", "capitalize", "casefold", "replace", "removeprefix", "removesuffix", "split", "rsplit",
             "partition", "rpartition", "translate", "join", "format", "encode", "expandtabs", "swapcase", "zfill", "center", "ljust", "rjust"}


def rule_path_template_verbatim(repo: Repo, rep, rule: str = "R4.12") -> None:
    """The request URL is the base URL followed by the operation's path template with each `{variable}` renamed to the argument that
    carries it - and nothing else: `/items/` and `/items` are different resources.  In the function that builds the URL f-string the
    path parameter flows into the result only through the placeholder-renaming `re.sub` (a pattern that matches `{...}` groups only);
    no other string operation touches it, and no literal text is placed between the base-URL expression and the path."""
    ua = repo.module("visit.endpoint.generators.url_args_generator")
    fn = ua.classes["EndpointUrlArgsGenerator"].methods.get("_build_url_with_path_vars") if "EndpointUrlArgsGenerator" in ua.classes else None
    if fn is None:
        raise AnalysisError(f"{rule}: anchor vanished: EndpointUrlArgsGenerator._build_url_with_path_vars")
    path_param = next((p for p in fn.params if p != "self"), None)
    if path_param is None:
        raise AnalysisError(f"{rule}: _build_url_with_path_vars has no path parameter")
    rets = [r.value for r in own_nodes(fn.node) if isinstance(r, ast.Return) and r.value is not None]
    rep.require(bool(rets), f"{rule}: _build_url_with_path_vars returns nothing (anchor)")
    sites = [(ua, fn, path_param, r) for r in rets]
    # the multi-content-type implementation builds its URL in place, from `op.path`
    mg = repo.module("visit.endpoint.generators.endpoint_method_generator")
    for f2 in mg.functions.values():
        for c in calls_in(f2.node):
            if isinstance(c.func, ast.Attribute) and c.func.attr == "write_line" and c.args and isinstance(c.args[0], ast.JoinedStr) and "base_url" in full(c.args[0]) \
                    and any(isinstance(v, ast.FormattedValue) for v in c.args[0].values):
                sites.append((mg, f2, "__path__", c.args[0]))
    for smod, fn, path_param, rv in sites:
        L = Locals(fn.node)
        r = rv
        sub = f"{smod.relpath}:{fn.name} `{norm(rv)[:50]}`"
        e = L.inline(rv, stop=(path_param,))
        if path_param == "__path__":
            # `<op>.path` is the source: name it like a parameter
            import copy as _copy

            class _P(ast.NodeTransformer):
                def visit_Attribute(self, node):  # noqa: N802
                    if node.attr == "path" and isinstance(node.value, ast.Name) and node.value.id in fn.params:
                        return ast.copy_location(ast.Name(id="__path__", ctx=ast.Load()), node)
                    return self.generic_visit(node)

            e = _P().visit(_copy.deepcopy(e))
        problems: List[str] = []
        # (a) operations applied to a value derived from the path parameter
        for node in ast.walk(e):
            if isinstance(node, ast.Call) and isinstance(node.func, ast.Attribute) and node.func.attr in STR_EDITS and path_param in names_in(node.func.value):
                problems.append(f"`.{node.func.attr}(...)` is applied to the path")
            if isinstance(node, ast.Subscript) and path_param in names_in(node.value):
                problems.append("the path is sliced / indexed")
            if isinstance(node, ast.Call) and dotted(node.func) in ("re.sub", "re.subn") and len(node.args) >= 3 and path_param in names_in(node.args[2]):
                pat = const_str(node.args[0])
                if pat is None or not (pat.startswith("{") or pat.startswith(r"\{")) or not pat.rstrip(")").endswith("}"):
                    problems.append(f"re.sub pattern {pat!r} is not confined to `{{...}}` placeholders")
            elif isinstance(node, ast.Call) and path_param in [n_ for a in node.args for n_ in names_in(a)] and dotted(node.func) not in ("str",) \
                    and not (dotted(node.func) in ("re.sub", "re.subn")) and not (isinstance(node.func, ast.Attribute) and node.func.attr in STR_EDITS):
                problems.append(f"the path is passed through `{norm(node.func)}(...)`")
        # (b) literal text between the base-URL hole and the path hole
        if isinstance(e, ast.JoinedStr):
            vals = e.values
            for i, v in enumerate(vals):
                if isinstance(v, ast.FormattedValue) and path_param in names_in(v.value):
                    before = vals[i - 1] if i > 0 else None
                    txt = str(before.value) if isinstance(before, ast.Constant) else ""
                    if txt and not txt.endswith("}}") and not txt.endswith("}"):
                        problems.append(f"literal text {txt[-8:]!r} is inserted in front of the path")
                    after = vals[i + 1] if i + 1 < len(vals) else None
                    atxt = str(after.value) if isinstance(after, ast.Constant) else ""
                    if atxt not in ('"', "'", ""):
                        problems.append(f"literal text {atxt[:8]!r} is appended to the path")
        elif path_param in names_in(e):
            rep.error(f"{rule}: the URL template of {fn.name} is not an f-string (`{norm(e)[:60]}`): not understood")
            continue
        if not (path_param in names_in(e)):
            problems.append("the path parameter does not reach the returned template")
        if problems:
            rep.violation(rule, sub, f"{fn.fq}|path-edited|{sorted(set(problems))[0][:40]}",
                          f"the URL is not base URL + path template: {sorted(set(problems))}; e.g. a template ending in `/` (`/items/`) or containing `//` is requested under a different path", fn.loc(r))
        else:
            rep.ok(rule, sub, "the path template reaches the URL f-string through the placeholder-renaming re.sub only", fn.loc(r))


# ------------------------------------------------------------------------------------------------ R4.13 the body argument selects its own branch
def rule_body_argument_selects_branch(repo: Repo, rep, rule: str = "R4.13") -> None:
    """An operation with several request media types gets one `@overload` per media type (each with its own body parameter and its own
    `content_type` default) and a single implementation whose `content_type` default is one fixed media type.  A caller of the files /
    form variant therefore reaches the implementation with only *its* body argument set.  The `if` / `elif` chain the implementation
    emits per media type must select the branch by that argument (`<body param> is not None`); a chain keyed on `content_type` alone
    sends every call that relies on an overload default through the branch of the implementation's default - without its body."""
    mg = repo.module("visit.endpoint.generators.endpoint_method_generator")
    og = repo.module("visit.endpoint.generators.overload_generator")
    # does the implementation signature give content_type a constant default?
    const_default = False
    for f in og.functions.values():
        for c in ast.walk(f.node):
            if isinstance(c, ast.Constant) and isinstance(c.value, str) and re.match(r"content_type:\s*str\s*=\s*[\"']", c.value):
                const_default = True
    n = 0
    for fn in mg.functions.values():
        for lp in [x for x in own_nodes(fn.node) if isinstance(x, ast.For) and "content" in norm(x.iter) and "request_body" in norm(x.iter)]:
            L = Locals(fn.node)
            conds = []
            for c in calls_in(lp):
                if isinstance(c.func, ast.Attribute) and c.func.attr == "write_line" and c.args:
                    t = template_of(c.args[0], fn.node)
                    if t is not None and t.text.rstrip().endswith(":") and (re.match(r"\s*(if|elif)\b", t.text) or " is not None" in t.text or "content_type" in t.text) \
                            and not t.text.lstrip().startswith(("def ", "async ", "class ", "else", "try", "except", "for ", "while ", "with ", "#", '"')):
                        conds.append((c, t))
            if not conds:
                continue
            n += 1
            sub = f"{mg.relpath}:{fn.qualname} per-media-type dispatch"
            by_arg = [(c, t) for c, t in conds if "is not None" in t.text and any("name" in full(L.inline(h, stop=tuple(L.params))) for h in t.holes)]
            if len(by_arg) == len(conds):
                rep.ok(rule, sub, f"{len(conds)} branch condition template(s), each `<body parameter of the media type> is not None`", fn.loc(conds[0][0]))
            elif const_default:
                bad = [t.text.replace(HOLE, "{}").strip() for c, t in conds if (c, t) not in by_arg]
                rep.violation(rule, sub, f"{fn.fq}|dispatch-not-by-argument",
                              f"the branch of a media type is selected by `{bad[0]}` and not by the presence of its body argument, while the implementation's `content_type` "
                              "default is one fixed media type: a call through the files / form overload (which sets only its own argument) runs the default branch and is sent without a body",
                              fn.loc(conds[0][0]))
            else:
                rep.ok(rule, sub, "dispatch on content_type; the implementation signature gives content_type no constant default", fn.loc(conds[0][0]))
    rep.require(n >= 1, f"{rule}: the per-media-type dispatch of the overload implementation was not found (anchor)")


# ------------------------------------------------------------------------------------------------ R4.14 array elements of a body are never filtered out
_R414_EXAMPLE = '''
def _remove_none_values(obj):
    if isinstance(obj, dict):
        return {k: _remove_none_values(v) for k, v in obj.items() if v is not None}
    elif isinstance(obj, list):
        return [_remove_none_values(item) for item in obj if item is not None]
    return obj
'''


def _list_filters(fn_node: ast.AST, p: str):
    """Comprehensions / loops over the list parameter that leave elements out (an `if` clause of the comprehension, an append guarded by a
    test on the element, a `continue` under such a test).  Dict comprehensions (keys with a None value) are not elements of an array."""
    out = []
    for n in ast.walk(fn_node):
        if isinstance(n, (ast.ListComp, ast.GeneratorExp)):
            for g in n.generators:
                if isinstance(g.iter, ast.Name) and g.iter.id == p and g.ifs:
                    out.append(n)
        if isinstance(n, ast.Call) and isinstance(n.func, ast.Name) and n.func.id == "filter" and len(n.args) == 2 and isinstance(n.args[1], ast.Name) and n.args[1].id == p:
            out.append(n)
        if isinstance(n, ast.For) and isinstance(n.iter, ast.Name) and n.iter.id == p and isinstance(n.target, ast.Name):
            v = n.target.id
            for st in ast.walk(n):
                if isinstance(st, ast.If) and any(isinstance(x, ast.Name) and x.id == v for x in ast.walk(st.test)) and (
                        any(isinstance(b, ast.Continue) for b in st.body) or any(isinstance(c, ast.Call) and isinstance(c.func, ast.Attribute) and c.func.attr == "append"
                                                                                   for b in st.body for c in ast.walk(b))):
                    out.append(st)
    return out


def rule_array_elements_kept(repo: Repo, rep, rule: str = "R4.14") -> None:
    """The None-stripping pass of the body serialiser removes *keys* whose value is None (an omitted optional field).  An array element is
    data the caller supplied at a position: dropping the None elements of a list changes the array that is sent (`[20.5, None, 21.0]` ->
    `[20.5, 21.0]`, later elements shift)."""
    hz = _list_filters(ast.parse(_R414_EXAMPLE), "obj")
    rep.require(len(hz) == 1, f"{rule}: the built-in positive example is no longer recognised - the rule is broken")
    utils = repo.module("core.utils")
    ds = utils.classes.get("DataclassSerializer")
    fn = ds.methods.get("_remove_none_values") if ds is not None else None
    if fn is None:
        raise AnalysisError("anchor vanished: DataclassSerializer._remove_none_values")
    from sa.resolve import follow_delegation

    fn = follow_delegation(repo, fn) or fn
    ps = [a for a in fn.params if a not in ("self", "cls")]
    if not ps:
        raise AnalysisError(f"{rule}: _remove_none_values has no value parameter (anchor)")
    has_list = any(isinstance(c, ast.Call) and dotted(c.func) == "isinstance" and len(c.args) == 2 and "list" in norm(c.args[1]) for c in ast.walk(fn.node))
    rep.require(has_list, f"{rule}: no `isinstance(<obj>, list)` branch in {fn.qualname} (anchor)")
    hz = _list_filters(fn.node, ps[0])
    sub = f"{utils.relpath}:{fn.qualname} list branch"
    if hz:
        rep.violation(rule, sub, f"{fn.fq}|array-elements-filtered",
                      f"`{norm(hz[0])[:80]}` leaves elements of an array out: a `None` the caller put into a list of a request body is dropped and the elements after it "
                      "move up - the body on the wire is not the serialised argument", fn.loc(hz[0]))
    else:
        rep.ok(rule, sub, "every element of a list is kept (only dict keys with a None value are removed)", fn.loc())


# ------------------------------------------------------------------------------------------------ R4.16 enum arguments are sent by value
def rule_enum_before_primitive_shortcut(repo: Repo, rep, rule: str = "R4.16") -> None:
    """Generated enums are `class X(str, Enum)` / `class X(int, Enum)`: a member *is* a str / an int.  The argument serialiser the generated
    methods apply to path, query and header arguments has a shortcut that returns str / int / float / bool values unchanged; an enum member
    that takes it is later formatted into the URL or the query string as `X.MEMBER` (Enum.__str__ / __format__), not as its value.  The
    Enum test (returning `.value`) must therefore come first: it dominates the primitive shortcut."""
    from sa.cfg import CFG

    utils = repo.module("core.utils")
    ds = utils.classes.get("DataclassSerializer")
    fn = ds.methods.get("_serialize_with_tracking") if ds is not None else None
    if fn is None:
        raise AnalysisError(f"{rule}: anchor vanished: DataclassSerializer._serialize_with_tracking")
    p = [a for a in fn.params if a not in ("self", "cls")][0]
    cfg = CFG(fn.node)
    dom = cfg.dominators()

    def isinst(t: ast.AST, names) -> bool:
        for c in ast.walk(t):
            if isinstance(c, ast.Call) and dotted(c.func) == "isinstance" and len(c.args) == 2 and isinstance(c.args[0], ast.Name) and c.args[0].id == p:
                ts = c.args[1].elts if isinstance(c.args[1], ast.Tuple) else [c.args[1]]
                if any((dotted(x) or "").split(".")[-1] in names for x in ts):
                    return True
        return False

    prim = [n for n in cfg.nodes if n.kind == "test" and isinst(n.ast, ("str", "int"))]
    enum = [n for n in cfg.nodes if n.kind == "test" and isinst(n.ast, ("Enum",)) and not isinst(n.ast, ("str", "int"))]
    # the shortcut: the true branch of the primitive test returns the value as it is
    shortcuts = []
    for n in prim:
        for m, lab in cfg.succ[n.id]:
            if lab == "true":
                for k in {m} | cfg.reachable_from_without(m, set()):
                    a = cfg.nodes[k].ast
                    if isinstance(a, ast.Return) and isinstance(a.value, ast.Name) and a.value.id == p and n.id in dom[k]:
                        shortcuts.append(n)
                        break
    shortcuts = list({n.id: n for n in shortcuts}.values())
    rep.require(len(shortcuts) >= 1, f"{rule}: the primitive shortcut (`isinstance({p}, (str, int, ...))` -> `return {p}`) of _serialize_with_tracking was not found (anchor)")
    for n in shortcuts:
        sub = f"{utils.relpath}:DataclassSerializer._serialize_with_tracking primitive shortcut `{norm(n.ast)[:50]}`"
        first = [e for e in enum if e.id in dom[n.id]]
        by_value = False
        for e in first:
            for m, lab in cfg.succ[e.id]:
                if lab == "true":
                    for k in {m} | cfg.reachable_from_without(m, {n.id}):
                        a = cfg.nodes[k].ast
                        if isinstance(a, ast.Return) and a.value is not None and any(isinstance(x, ast.Attribute) and x.attr in ("value", "_value_") for x in ast.walk(a.value)):
                            by_value = True
        if by_value:
            rep.ok(rule, sub, f"`isinstance({p}, Enum)` is decided first and returns the member's value", fn.loc(first[0].ast))
        else:
            rep.violation(rule, sub, f"{fn.fq}|enum-member-takes-primitive-shortcut",
                          f"a member of a generated `(str, Enum)` / `(int, Enum)` class satisfies `{norm(n.ast)[:50]}` and is returned as it is: an enum-typed path or query argument "
                          "reaches the wire as `Status.ON` (Enum.__str__ / __format__) instead of `on`", fn.loc(n.ast))


# ------------------------------------------------------------------------------------------------ R4.17 a local of the generated method never takes an argument's place
def rule_locals_do_not_shadow_arguments(repo: Repo, rep, rule: str = "R4.17") -> None:
    """The generated endpoint method keeps its working values in locals with fixed names (`url = f"..."`).  Arguments are named by
    `sanitize_method_name(<parameter name>)`.  If a fixed local name is a possible argument name (not a keyword, not in the sanitiser's
    reserved set) and the line binding the local is emitted *before* a line that reads an argument variable, then for a parameter of that
    name the caller's value is overwritten before it is sent (a query parameter `url` goes out as the request URL).  Bindings that open a
    bracket (`params: dict[str, Any] = {`) are not judged: the entries emitted after them belong to the same statement and are evaluated
    before the name is bound."""
    import keyword as _kw
    import re as _re
    from sa.cfg import CFG
    from sa.flatten import flatten

    ua = repo.func(f"{GEN}.url_args_generator:EndpointUrlArgsGenerator.generate_url_and_args")
    fn = flatten(ua)
    utils = repo.module("core.utils")
    ns = utils.classes.get("NameSanitizer")
    smn = ns.methods.get("sanitize_method_name") if ns is not None else None
    if smn is None:
        raise AnalysisError(f"{rule}: anchor vanished: NameSanitizer.sanitize_method_name")
    # names the sanitiser refuses (gives a trailing underscore): the class-level sets it consults
    # ... in the function itself or in a helper of the class it hands the name to (`return NameSanitizer._protect_snake_case_name(method)`)
    bodies = [smn.node] + [ns.methods[c.func.attr].node for c in ast.walk(smn.node) if isinstance(c, ast.Call) and isinstance(c.func, ast.Attribute)
                           and c.func.attr in ns.methods and ns.methods[c.func.attr] is not smn]
    consulted = {x.attr for b in bodies for c in ast.walk(b) if isinstance(c, ast.Compare) and isinstance(c.ops[0], ast.In) for x in ast.walk(c.comparators[0]) if isinstance(x, ast.Attribute)}
    refused: Set[str] = set()
    for st in ns.node.body:
        if isinstance(st, (ast.Assign, ast.AnnAssign)):
            t = st.targets[0] if isinstance(st, ast.Assign) else st.target
            if isinstance(t, ast.Name) and t.id in consulted and isinstance(st.value, (ast.Set, ast.List, ast.Tuple)):
                refused |= {const_str(e) for e in st.value.elts if const_str(e)}
    rep.require(len(refused) >= 20, f"{rule}: the reserved-name set consulted by sanitize_method_name was not found (anchor)")
    cfg = CFG(fn.node)
    pv = {t.id for st in own_nodes(fn.node) if isinstance(st, ast.Assign) and isinstance(st.value, ast.Call) and isinstance(st.value.func, ast.Attribute)
          and st.value.func.attr == "sanitize_method_name" for t in st.targets if isinstance(t, ast.Name)}
    binds, reads = [], []
    for n in cfg.nodes:
        if n.kind != "stmt" or n.ast is None or n.copy:
            continue
        for c in calls_in(n.ast):
            if not (isinstance(c.func, ast.Attribute) and c.func.attr == "write_line" and c.args):
                continue
            t = template_of(c.args[0])
            if t is None or not t.parts:
                continue
            static = "".join(p if isinstance(p, str) else "\x00" for p in t.parts)
            m = _re.match(r"^\s*([a-z_][a-z0-9_]*)(: [^=]+)? = ", static)
            if m and not static.rstrip().endswith(("{", "(", "[")):
                binds.append((n, m.group(1)))
            if any(isinstance(x, ast.FormattedValue) and isinstance(x.value, ast.Name) and x.value.id in pv for x in ast.walk(c.args[0])):
                reads.append(n)
    rep.count(f"{rule}:local_bindings", sorted({b for _, b in binds}))
    rep.count(f"{rule}:argument_reads", len(reads))
    rep.require(bool(binds) and bool(reads), f"{rule}: local bindings / argument reads of generate_url_and_args not found (anchor: {len(binds)} / {len(reads)})")
    seen = set()
    for b, name in binds:
        if name in pv or name in seen:
            continue  # `<arg> = DataclassSerializer.serialize(<arg>)`: the hole *is* an argument
        later = [r for r in reads if r.id in cfg.reachable(b.id) and r.id != b.id]
        if not later:
            continue
        seen.add(name)
        sub = f"{ua.module.relpath}:generate_url_and_args local `{name}` bound before arguments are read"
        if _kw.iskeyword(name) or name in refused:
            rep.ok(rule, sub, f"`{name}` is not a possible argument name (sanitize_method_name turns it into `{name}_`)", fn.loc(b.ast))
        else:
            rep.violation(rule, sub, f"{ua.fq}|local-shadows-argument|{name}",
                          f"the line binding `{name}` is emitted before lines that read argument variables, and `{name}` is itself a possible argument name "
                          f"(sanitize_method_name('{name}') == '{name}'): for a query / header parameter called `{name}` the caller's value is overwritten first and never sent",
                          fn.loc(b.ast))


# ------------------------------------------------------------------------------------------------ R4.18 a raw body goes out with its declared media type
def rule_raw_body_has_content_type(repo: Repo, rep, rule: str = "R4.18") -> None:
    from sa.match import truthiness as truth
    """httpx derives the Content-Type of `json=`, `files=` and form `data=` bodies itself.  A raw body (`data=<bytes>`, used for every other declared
    media type: application/octet-stream, text/plain, application/xml ...) carries none: the request template that sends it must pass the
    declared media type as a `Content-Type` header - on every path from the `data=bytes_body` argument to the emitted call."""
    from sa.cfg import CFG

    fn0 = repo.func(f"{GEN}.request_generator:EndpointRequestGenerator.generate_request_call")

    def body(fn, r):
        cfg = CFG(fn.node)

        def appended(n, pred) -> bool:
            return n.kind == "stmt" and n.ast is not None and not n.copy and any(
                isinstance(c.func, ast.Attribute) and c.func.attr == "append" and c.args and pred(c.args[0]) for c in calls_in(n.ast))

        def text(e: ast.AST) -> str:
            t = template_of(e)
            return "".join(p if isinstance(p, str) else "\x00" for p in t.parts) if t is not None else ""

        raw = [n for n in cfg.nodes if appended(n, lambda a: text(a).startswith(("data=bytes", "content=")))]
        ct = {n.id for n in cfg.nodes if appended(n, lambda a: "Content-Type" in text(a) and text(a).startswith("headers="))}
        emits = {n.id for n in cfg.nodes if n.kind == "stmt" and n.ast is not None and any(
            isinstance(c.func, ast.Attribute) and c.func.attr == "write_line" and c.args and "self._transport.request(" in text(c.args[0]) for c in calls_in(n.ast))}
        if not raw or not emits:
            raise AnalysisError(f"{rule}: the `data=bytes_body` argument / the emitted request call of generate_request_call were not found (anchor: {len(raw)} / {len(emits)})")
        # a flag that is set exactly when the raw body was chosen (`v = <media type> if "data=bytes_body" in args_list else None`, or assigned next to
        # the append): branches taken when that flag is false are not ways of a raw body
        L = Locals(fn.node)
        raw_txt = {text(c.args[0]) for n in raw for c in calls_in(n.ast) if isinstance(c.func, ast.Attribute) and c.func.attr == "append" and c.args}
        flags = set()
        for name, ds in L.defs.items():
            for _, v, st in ds:
                if isinstance(v, ast.IfExp) and any(isinstance(x, ast.Constant) and x.value in raw_txt for x in ast.walk(v.test)) and isinstance(v.orelse, ast.Constant) and not v.orelse.value:
                    flags.add(name)
        for n in raw:
            blk = parent(n.ast)
            for st in getattr(blk, "body", []) + getattr(blk, "orelse", []):
                if isinstance(st, ast.Assign) and len(st.targets) == 1 and isinstance(st.targets[0], ast.Name) and any(st2 is n.ast for st2 in getattr(blk, "body", []) + getattr(blk, "orelse", [])):
                    others = [v for _, v, s2 in L.defs.get(st.targets[0].id, []) if s2 is not st]
                    if all(isinstance(v, ast.Constant) and not v.value for v in others):
                        flags.add(st.targets[0].id)

        def search(start: int):
            from collections import deque
            prev = {start: None}
            dq = deque([start])
            while dq:
                k = dq.popleft()
                if k in emits and k != start:
                    path = []
                    cur = k
                    while cur is not None:
                        path.append(cur)
                        cur = prev[cur]
                    return list(reversed(path))
                nd = cfg.nodes[k]
                for m, lab in cfg.succ[k]:
                    if m in prev or m in ct:
                        continue
                    if nd.kind == "test" and lab in ("true", "false"):
                        tv = truth(nd.ast)
                        if tv is not None and isinstance(tv[0], ast.Name) and tv[0].id in flags and ((lab == "true") != tv[1]):
                            continue  # the flag is false on this edge: not a raw body
                    prev[m] = k
                    dq.append(m)
            return None

        for n in raw:
            sub = f"{fn.module.relpath}:generate_request_call raw body `{norm(n.ast)[:50]}`"
            w = search(n.id)
            if w is None:
                r.ok(rule, sub, "every path to the emitted call adds a `headers={\"Content-Type\": <declared media type>...}` argument", fn.loc(n.ast))
            else:
                r.violation(rule, sub, f"{fn0.fq}|raw-body-without-content-type",
                            f"the call is emitted with the raw body but without a Content-Type ({cfg.describe_path(w)[:120]}): a body declared as application/octet-stream / text/plain / "
                            "application/xml goes out with no content type at all", fn.loc(n.ast))

    from sa.report import with_flatten_fallback

    with_flatten_fallback(rep, fn0, body)


# ------------------------------------------------------------------------------------------------ R4.19 header arguments reach httpx as text
def rule_header_values_are_text(repo: Repo, rep, rule: str = "R4.19") -> None:
    """httpx accepts only str / bytes header values.  The generated methods build the headers dict as
    `"X-Tenant-Id": DataclassSerializer.serialize(x_tenant_id)` and the serialiser returns int / float / bool / list values as they are, so
    an `integer`, `number`, `boolean` or `array` header parameter raises TypeError inside httpx and no request is sent.  Either the emitted
    entry converts the value to text, or the bundled transport does so when it merges the per-request headers."""
    ua = repo.module(f"{GEN}.url_args_generator")
    wh = ua.classes["EndpointUrlArgsGenerator"].methods.get("_write_header_params") if "EndpointUrlArgsGenerator" in ua.classes else None
    if wh is None:
        raise AnalysisError(f"{rule}: anchor vanished: EndpointUrlArgsGenerator._write_header_params")
    entries = [t for t, _ in _emitted_lines(wh) if "DataclassSerializer.serialize(" in t or "serialize(" in t]
    if not entries:
        from sa.flatten import flatten as _fl419

        wh = _fl419(wh)  # the entries may be written by a helper shared with the query parameters
        entries = [t for t, _ in _emitted_lines(wh) if "DataclassSerializer.serialize(" in t or "serialize(" in t]
    if not entries:
        # ... or assembled by concatenation in that helper: any string constant of the (written-out) function that carries the serialiser call
        entries = [x.value for x in ast.walk(wh.node) if isinstance(x, ast.Constant) and isinstance(x.value, str) and "serialize(" in x.value]
    rep.require(bool(entries), f"{rule}: the header entry templates of _write_header_params were not found (anchor)")
    from rules.c17 import _desugar_header_writes

    _desugar_header_writes(repo)  # the transport's case-insensitive header writes are read as the `update(...)` they stand for
    converts_in_template = bool(entries) and all(("str(" in t.split(":", 1)[-1]) for t in entries)
    ht = repo.module("core.http_transport")
    ph = ht.classes["HttpxTransport"].methods.get("_prepare_headers") if "HttpxTransport" in ht.classes else None
    if ph is None:
        raise AnalysisError(f"{rule}: anchor vanished: HttpxTransport._prepare_headers")

    def is_text_helper(name: str) -> bool:
        f = ht.functions.get(name)
        if f is None:
            return False
        return any(isinstance(c, ast.Call) and dotted(c.func) == "isinstance" and len(c.args) == 2 and "str" in norm(c.args[1]) for c in ast.walk(f.node)) and any(
            isinstance(c, ast.Call) and dotted(c.func) == "str" for c in ast.walk(f.node))

    converts_in_transport = False
    for c in calls_in(ph.node):
        if isinstance(c.func, ast.Attribute) and c.func.attr == "update" and c.args and "headers" in norm(c.args[0]):
            a = c.args[0]
            if isinstance(a, ast.DictComp) and isinstance(a.value, ast.Call) and ((isinstance(a.value.func, ast.Name) and (a.value.func.id == "str" or is_text_helper(a.value.func.id)))):
                converts_in_transport = True
    sub = f"{ua.relpath}:_write_header_params / {ht.relpath}:_prepare_headers header values are text"
    if converts_in_template or converts_in_transport:
        rep.ok(rule, sub, "non-string header arguments are converted to text " + ("in the emitted entry" if converts_in_template else "when the transport merges the per-request headers"), wh.loc())
    else:
        rep.violation(rule, sub, f"{wh.fq}|header-value-not-text",
                      f"`{entries[0].strip()[:70]}` passes the serialised value as it is and the transport merges it unchanged: for an integer / boolean / array header parameter "
                      "httpx raises `TypeError: Header value must be str or bytes` and the request is never sent", wh.loc())


# ------------------------------------------------------------------------------------------------ R4.20 a path argument stays one path segment
def rule_path_arguments_are_encoded(repo: Repo, rep, rule: str = "R4.20") -> None:
    """The URL is an f-string over the path template; httpx parses the finished string as a URL.  A path argument that is interpolated as it
    is turns its own `/`, `?`, `#`, `%` into URL syntax (`tag="c#"` requests `/tags/c`, `"ci/cd"` becomes two segments, `"a?limit=1000"`
    injects a query).  Every path argument must be percent-encoded with no safe characters before it reaches the f-string: in the line that
    re-binds the argument (`x = quote(str(...), safe="")`) or in the URL builder."""
    ua = repo.func(f"{GEN}.url_args_generator:EndpointUrlArgsGenerator.generate_url_and_args")
    from sa.flatten import flatten

    fn = flatten(ua)
    lines = [t for t, _ in _emitted_lines(fn)]
    rebinding = [t for t in lines if re.match(r"^\s*\x00 = ", t) or re.match(r"^\s*\{?\w*\}? = .*serialize\(", t)]
    bu = ua.module.classes["EndpointUrlArgsGenerator"].methods.get("_build_url_with_path_vars")
    in_builder = bu is not None and "quote(" in full(bu.node)
    encoded = [t for t in lines if "quote(" in t and re.search(r"safe\s*=\s*(\"\"|'')", t)]
    sub = f"{ua.module.relpath}:generate_url_and_args path arguments are percent-encoded"
    # the line that re-binds an argument to its serialised form: `<arg> = ...serialize(<arg>)...` (target and argument are the same hole)
    path_lines = [t for t in lines if re.match(r"^\s*\x00 = .*serialize\(\x00\)", t)]
    rep.require(bool(path_lines) or in_builder, f"{rule}: the line that serialises a path argument before URL construction was not found (anchor)")
    if in_builder or (path_lines and all(t in encoded for t in path_lines)):
        rep.ok(rule, sub, "`quote(str(...), safe=\"\")` is applied to every path argument before the URL f-string", ua.loc())
    elif path_lines:
        rep.violation(rule, sub, f"{ua.fq}|path-argument-not-encoded",
                      f"`{path_lines[0].strip()[:70]}` interpolates the argument as it is: a value containing `/`, `?`, `#` or `%` changes the path, adds a query or cuts the URL "
                      "(`tag='c#'` requests `/tags/c`)", ua.loc())


# ------------------------------------------------------------------------------------------------ R4.22 the primary content type is a declared one
def rule_primary_content_type_is_declared(repo: Repo, rep, rule: str = "R4.22") -> None:
    """`process_parameters` returns the media type the request generator builds the call for (`json=` -> httpx labels the body application/json,
    `files=`, `data=` + explicit Content-Type).  The body goes out under that label, so it must be one of the operation's declared media
    types: a constant assigned to the returned variable is acceptable only under the test `<that constant> in <declared media types>`; any
    other value must be taken from the declared collection itself.  (`application/merge-patch+json` sent as `application/json` is another
    request: servers that distinguish RFC 7386 merge patch from a full JSON document apply other semantics or answer 415.)"""
    pp = repo.func("visit.endpoint.processors.parameter_processor:EndpointParameterProcessor.process_parameters")

    def body(fn, r):
        rets = [x for x in own_nodes(fn.node) if isinstance(x, ast.Return) and isinstance(x.value, ast.Tuple) and len(x.value.elts) >= 2 and isinstance(x.value.elts[1], ast.Name)]
        if not rets:
            raise AnalysisError(f"{rule}: process_parameters no longer returns (params, <content type>, ...) (anchor)")
        var = rets[0].value.elts[1].id  # type: ignore[union-attr]
        cfg = CFG(fn.node)
        dom = cfg.dominators()
        L = Locals(fn.node)
        n_const = 0
        for nd in cfg.nodes:
            st = nd.ast
            if nd.kind != "stmt" or nd.copy or not isinstance(st, (ast.Assign, ast.AnnAssign)):
                continue
            tg = st.targets if isinstance(st, ast.Assign) else [st.target]
            if not any(isinstance(t, ast.Name) and t.id == var for t in tg) or st.value is None:
                continue
            v = st.value
            if isinstance(v, ast.Constant) and v.value is None:
                continue
            sub = f"{fn.module.relpath}:process_parameters `{var} = {norm(v)[:40]}`"
            lit = const_str(v)
            if lit is not None:
                n_const += 1
                ok = False
                for g, pol in guards(cfg, nd.id, dom):
                    if g.kind == "test" and pol is True:
                        for c in conjuncts(L.inline(g.ast, stop=tuple(L.params))) if g.ast is not None else []:
                            if isinstance(c, ast.Compare) and len(c.ops) == 1 and isinstance(c.ops[0], ast.In) and const_str(c.left) == lit:
                                ok = True
                if ok:
                    r.ok(rule, sub, f"assigned under the test `{lit!r} in <declared media types>`", fn.loc(st))
                else:
                    r.violation(rule, sub, f"{pp.fq}|content-type-constant-not-declared|{lit}",
                                f"the body is labelled `{lit}` on a path that does not establish that the operation declares `{lit}`: a body declared as another media type "
                                "(e.g. `application/merge-patch+json`, `application/vnd.api+json`) goes out with a Content-Type the document does not have", fn.loc(st))
            else:
                r.ok(rule, sub, "taken from the declared media types", fn.loc(st))
        if n_const < 3:
            raise AnalysisError(f"{rule}: only {n_const} constant content-type assignment(s) found in process_parameters (floor 3)")

    with_flatten_fallback(rep, pp, body)
