"""C10 - without force nothing is touched; writes stay contained.

R10.1  path provenance in the non-force branch of ClientGenerator.generate: nothing rooted at the real project
       root reaches an emitter, post-processing or a write; only read-only uses are allowed
R10.2  write-sink containment: every filesystem write sink of the generation path takes a path derived from the
       function's own parameters / object state (never cwd, home, environment, absolute or bare relative constants)
R10.3  destructive operations: an exact table; rmtree(out_dir) only where `force or not out_dir.exists()` holds
       (truth-table of the branch test); ancestor __init__ loops stop at project_root
R10.4  failures surface: no exception handler (or `with suppress(...)` around a write) on the generate() call graph swallows an error of an emit step
R10.7  the in-place rewriting tools of the post-processor get generated files only, never a directory obtained by climbing
R10.8  no function on the generation path that reads a file / directory / environment / URL is memoised per process                [= R9.13]
R10.9  the non-force comparison leaves no generated file out (no filtered file list, no skip in the loop)                        [= R9.4]
R10.10 both generation branches create ancestor __init__.py files for the same directories (an unchanged nested-core client matches)    [= R9.10]
R10.11 every ruff sub-process is started with `--no-cache` (no `.ruff_cache/` in the project root / current directory)
R10.12 every ruff sub-process runs `--isolated` (the temporary tree and the real tree are formatted alike)                     [= R9.14]
R10.5  temp cleanup is structural (`with tempfile.TemporaryDirectory()` encloses all temp generation) and the
       diff result raises before anything else happens
"""
from __future__ import annotations

import ast
import itertools
from typing import Dict, List, Optional, Set, Tuple

from sa.cfg import CFG
from sa.model import AnalysisError, Function, Repo, calls_in, const_str, dotted, norm, own_nodes, parent
from sa.paths import Provenance
from sa.match import match
from sa.match import Locals as _L10
from sa.report import Report
from sa.resolve import CallGraph

GEN = "generator.client_generator:ClientGenerator.generate"
LOG_CALLS = {"self._log_progress", "print", "logger.warning", "logger.info", "logger.debug", "logger.error"}
SINK_METHODS = {"write_text", "write_bytes", "mkdir", "rename", "unlink", "rmdir", "touch", "write_file", "ensure_dir", "symlink_to", "replace_file"}
SINK_FUNCS = {"os.makedirs", "os.mkdir", "os.remove", "os.unlink", "os.rename", "os.replace", "os.rmdir", "shutil.rmtree", "shutil.copy",
              "shutil.copy2", "shutil.copyfile", "shutil.copytree", "shutil.move", "json.dump"}
DESTRUCTIVE = {"shutil.rmtree", "os.remove", "os.unlink", "os.rmdir", "os.rename", "os.replace", "shutil.move"}
DESTRUCTIVE_METHODS = {"unlink", "rmdir", "rename"}


def _truth(e: ast.AST, env: Dict[str, bool]) -> Optional[bool]:
    if isinstance(e, ast.BoolOp):
        vals = [_truth(v, env) for v in e.values]
        if any(v is None for v in vals):
            return None
        return all(vals) if isinstance(e.op, ast.And) else any(vals)
    if isinstance(e, ast.UnaryOp) and isinstance(e.op, ast.Not):
        v = _truth(e.operand, env)
        return None if v is None else (not v)
    k = norm(e)
    return env.get(k)


def _atoms(e: ast.AST) -> List[str]:
    if isinstance(e, ast.BoolOp):
        out: List[str] = []
        for v in e.values:
            out += _atoms(v)
        return out
    if isinstance(e, ast.UnaryOp) and isinstance(e.op, ast.Not):
        return _atoms(e.operand)
    return [norm(e)]


def _inside(node: ast.AST, body: List[ast.stmt]) -> bool:
    p: Optional[ast.AST] = node
    while p is not None:
        if any(p is s for s in body):
            return True
        p = parent(p)
    return False


def find_mode_switch(gen: Function) -> Tuple[ast.If, List[ast.stmt], List[ast.stmt]]:
    """The `if` that separates compare-only mode from direct generation. Returns (node, diff_body, direct_body)."""
    cands = [n for n in own_nodes(gen.node) if isinstance(n, ast.If) and "force" in _atoms(n.test) and any("exists()" in a for a in _atoms(n.test))]
    if len(cands) != 1:
        raise AnalysisError(f"anchor vanished: expected one force/exists mode switch in generate(), found {len(cands)}")
    sw = cands[0]
    atoms = sorted(set(_atoms(sw.test)))
    ex = [a for a in atoms if a.endswith(".exists()")]
    return sw, atoms, ex  # type: ignore[return-value]


def _root_name(e: ast.AST) -> Optional[str]:
    """out_dir for `str(out_dir)`, `out_dir`, `Path(out_dir)`, `out_dir.resolve()` ..."""
    while True:
        if isinstance(e, ast.Call) and dotted(e.func) in ("str", "Path", "os.fspath") and len(e.args) == 1:
            e = e.args[0]
        elif isinstance(e, ast.Call) and isinstance(e.func, ast.Attribute) and e.func.attr in ("resolve", "absolute", "as_posix") and not e.args:
            e = e.func.value
        else:
            break
    return e.id if isinstance(e, ast.Name) else None


def diff_coverage(repo: Repo, rep, rule: str, gen: Function, diff_body: List[ast.stmt]) -> None:
    """Compare-only generation must compare every directory direct generation writes: the client package always, the core package
    whenever it is not contained in the client package.  The guard of the core comparison is evaluated (on its AST, by the path
    algebra of C11) over symbolic project layouts, including cores whose path *string* merely starts with the client's."""
    from rules.c11 import PathAlgebra, _Unsupported, layouts

    calls = [c for st in diff_body for c in ast.walk(st) if isinstance(c, ast.Call) and dotted(c.func) == "self._show_diffs" and c.args]
    rep.count(f"{rule}:show_diffs_calls", len(calls))
    if not calls:
        raise AnalysisError("anchor vanished: no self._show_diffs(...) call in the compare-only branch")
    # which call compares what: the directory whose ExceptionsEmitter/CoreEmitter receives it is the core
    roots = [(_root_name(c.args[0]), c) for c in calls]
    if any(r is None for r, _ in roots):
        raise AnalysisError(f"{rule}: cannot name the directory compared by `{norm(calls[0])}`")
    names = [r for r, _ in roots]
    core_names = [r for r in names if "core" in (r or "")]
    client_names = [r for r in names if r not in core_names]
    sub = f"{gen.module.relpath}:generate (compare-only branch) directories compared"
    if not client_names or not core_names:
        rep.violation(rule, sub, f"{gen.fq}|diff-coverage|{sorted(set(names))}",
                      f"compare-only generation compares only {sorted(set(names))}: " + ("the core package" if not core_names else "the client package")
                      + " is never compared, a stale or edited file there goes unreported", gen.loc(calls[0]))
        return
    client_var, core_var = client_names[0], core_names[0]

    def guard_of(call: ast.Call) -> List[Tuple[ast.AST, bool]]:
        out: List[Tuple[ast.AST, bool]] = []
        n: Optional[ast.AST] = call
        while n is not None and n not in diff_body:
            p = parent(n)
            if isinstance(p, ast.If) and n is not p.test:
                out.append((p.test, any(n is b for b in p.body)))
            elif isinstance(p, (ast.For, ast.While, ast.Try)) and not isinstance(n, ast.expr):
                if isinstance(p, ast.Try) and n in p.body + p.finalbody:
                    pass
                elif isinstance(p, ast.While) and isinstance(p.test, ast.Constant) and p.test.value is True and p.body and isinstance(p.body[-1], ast.Break):
                    pass  # the one-shot block sa/flatten.py writes for an inlined helper: executed exactly once
                else:
                    raise AnalysisError(f"{rule}: `{norm(call)[:60]}` sits in a {type(p).__name__} - not modelled")
            n = p
        return out

    for var, c in roots:
        is_core = var == core_var
        gs = guard_of(c)
        subc = f"{gen.module.relpath}:generate (compare-only branch) comparison of `{var}`"
        if not gs:
            rep.ok(rule, subc, "compared unconditionally", gen.loc(c))
            continue
        bad = None
        n_eval = 0
        for lay in layouts():
            client_dir = lay["root"] + tuple(lay["client_pkg"].split("."))
            env = {client_var: client_dir, core_var: lay["core_dir"], "project_root": lay["root"], "self.project_root": lay["root"]}
            try:
                val = all(bool(PathAlgebra(env).ev(t)) == pol for t, pol in gs)
            except _Unsupported as e:
                raise AnalysisError(f"{rule}: the guard of `{norm(c)[:60]}` uses a construct the path algebra does not model: {e}")
            n_eval += 1
            must = (not is_core) or lay["kind"] != "embedded"
            if must and not val and bad is None:
                bad = lay
        if bad is None:
            rep.ok(rule, subc, f"guard `{' and '.join(('' if p else 'not ') + norm(t) for t, p in gs)}` holds in all {n_eval} layouts where `{var}` "
                   "is not already covered by the client comparison", gen.loc(c))
        else:
            rep.violation(rule, subc, f"{gen.fq}|diff-guard|{var}|{bad['kind']}",
                          f"with client package {bad['client_pkg']} and core at {'/'.join(bad['core_dir'])} ({bad['kind']}) the guard "
                          f"`{' and '.join(('' if p else 'not ') + norm(t) for t, p in gs)}` is false: the directory is not compared, so an "
                          "out-of-date or edited file there is reported as 'no differences'", gen.loc(c))


def _escapes_upward(fn: Function, path_expr: ast.AST) -> Optional[str]:
    from sa.match import Locals

    L = getattr(fn, "_locals_cache", None)
    if L is None:
        L = Locals(fn.node)
        fn._locals_cache = L  # type: ignore[attr-defined]  (per Function object: a re-parsed tree gets fresh Function objects)
    e = L.inline(path_expr, stop=tuple(L.params))

    def joined(x: ast.AST) -> bool:
        return any((isinstance(y, ast.BinOp) and isinstance(y.op, ast.Div)) or (isinstance(y, ast.Call) and (dotted(y.func) or "").split(".")[-1] in ("join", "joinpath"))
                   or isinstance(y, ast.JoinedStr) for y in ast.walk(x))

    # only a *sibling write* escapes: the parent joined with a further name (creating the ancestor directory itself, or its __init__.py, is
    # the documented ancestor-package mechanism)
    sibling_bases = set()
    for j in ast.walk(e):
        left = right = None
        if isinstance(j, ast.BinOp) and isinstance(j.op, ast.Div):
            left, right = j.left, j.right
        elif isinstance(j, ast.Call) and (dotted(j.func) or "").split(".")[-1] in ("join", "joinpath") and j.args:
            if isinstance(j.func, ast.Attribute) and j.func.attr == "joinpath":
                left, right = j.func.value, j.args[0]
            elif len(j.args) >= 2:
                left, right = j.args[0], j.args[1]
        if left is not None and not (isinstance(right, ast.Constant) and right.value == "__init__.py"):
            sibling_bases |= {id(y) for y in ast.walk(left)}
    for x in ast.walk(e):
        base = None
        if id(x) not in sibling_bases:
            continue
        if isinstance(x, ast.Attribute) and x.attr in ("parent", "parents"):
            base = x.value
        elif isinstance(x, ast.Call) and (dotted(x.func) or "") in ("os.path.dirname",) and x.args:
            base = x.args[0]
        if base is None or joined(base):
            continue
        pnames = [n.id for n in ast.walk(base) if isinstance(n, ast.Name) and L.is_param(n.id)]
        if not pnames:
            continue
        P = pnames[0]
        # a parameter that is itself written as a file is a file path: its parent is the directory it lives in (fine)
        is_file = False
        for c in calls_in(fn.node, include_nested_defs=True):
            d = dotted(c.func) or ""
            if d == "open" and c.args and isinstance(c.args[0], ast.Name) and L.root(c.args[0].id) == P:
                is_file = True
            if isinstance(c.func, ast.Attribute) and c.func.attr in ("write_text", "write_bytes", "open", "touch") and isinstance(c.func.value, ast.Name) and L.root(c.func.value.id) == P:
                is_file = True
        if "file" in P.lower() or P.lower().endswith(("path", "dst", "dest")) and "dir" not in P.lower():
            is_file = is_file or any(k in P.lower() for k in ("file", "dst", "dest"))
        if not is_file:
            return norm(x)[:60]
    return None


def _has_switch(fn_node: ast.AST) -> bool:
    return any(isinstance(n_, ast.If) and "force" in _atoms(n_.test) and any("exists()" in a_ for a_ in _atoms(n_.test)) for n_ in own_nodes(fn_node))


def generation_function(repo: Repo) -> Function:
    """ClientGenerator.generate - or, when its body lives in a private method that generate() wraps (too large to be written out), the method of
    the class that holds the force / exists switch.  Whatever the wrapper adds (handlers, clean-up helpers) is still covered by the sink /
    destructive-operation / handler rules, which look at every function of the generation modules."""
    gen = repo.func(GEN)
    if not _has_switch(gen.node) and gen.cls is not None:
        holders = [m for m in gen.cls.methods.values() if _has_switch(m.node)]
        if len(holders) == 1:
            return holders[0]
    return gen


def run(repo: Repo, rep: Report, tier: str) -> None:
    from sa.report import guarded as _guarded

    gen = generation_function(repo)
    from sa.flatten import flatten as _flgen

    # the comparison step may have been extracted into a helper of the class (`if self._differs_from_existing(...)`): write it out
    # ... and so may the preparation of the output tree (removal of the old package, mkdirs, ancestor __init__.py loops): helpers of the
    # generator class that do that are written out too, and are then judged as part of generate() - not as functions of their own
    written_out: Set[str] = set()

    def _sel(h) -> bool:
        # (the whole body may have moved into a private method that `generate` wraps: the method with the force / exists switch is written out as well)
        hit = any(isinstance(c.func, ast.Attribute) and c.func.attr == "_show_diffs" for c in calls_in(h.node)) or (
            h.cls is not None and h.cls.name == gen.qualname.split(".")[0] and any(
                isinstance(n_, ast.If) and "force" in _atoms(n_.test) and any("exists()" in a_ for a_ in _atoms(n_.test)) for n_ in own_nodes(h.node))) or (
            h.cls is not None and h.cls.name == gen.qualname.split(".")[0] and h.name.startswith("_") and (
                any(dotted(c.func) == "shutil.rmtree" for c in calls_in(h.node)) or any(
                    isinstance(w_, ast.While) and any(isinstance(c.func, ast.Attribute) and c.func.attr == "write_text" for c in calls_in(w_)) for w_ in own_nodes(h.node))))
        if hit:
            written_out.add(h.fq)
        return hit

    gen = _flgen(gen, select=_sel)
    sw, atoms, ex_atoms = find_mode_switch(gen)  # type: ignore[misc]
    # the output-package variable: the one whose existence the mode switch tests (when several: the one that is later removed)
    rm_targets = {_root_name(c.args[0]) for c in calls_in(gen.node) if dotted(c.func) == "shutil.rmtree" and c.args}
    _GL = _L10(gen.node)
    rm_targets |= {_GL.root(t) for t in list(rm_targets) if t}  # `stale = out_dir; rmtree(stale)`: the alias stands for the directory itself
    out_exists = [a for a in ex_atoms if a.split(".")[0] in rm_targets] or (ex_atoms if len(ex_atoms) == 1 else [])
    rep.require(bool(out_exists), "R10.3: the mode switch does not test <output package dir>.exists()")
    OUT = out_exists[0].split(".")[0] if out_exists else "out_dir"
    # ... and it is the existence of the package directory itself that is tested, not of something inside it: an existing output that lacks
    # that file (an interrupted generation, a package skeleton with hand-written modules) would count as "no output yet"
    if out_exists and rm_targets and not any(out_exists[0] == f"{t}.exists()" for t in rm_targets if t):
        rep.violation("R10.3", f"{gen.module.relpath}:ClientGenerator.generate mode switch tests the output package directory itself",
                      f"{gen.fq}|mode-switch-tests-inner-path|{out_exists[0]}",
                      f"compare-only mode is selected by `{out_exists[0]}`, not by the existence of the output package ({sorted(t for t in rm_targets if t)}): an existing tree for which "
                      "that test is false is treated as a first run - it is removed and rewritten without force, and a differing output is reported as success", gen.loc(sw))
        OUT = sorted(t for t in rm_targets if t)[0]
    elif out_exists:
        rep.ok("R10.3", f"{gen.module.relpath}:ClientGenerator.generate mode switch tests the output package directory itself", f"`{out_exists[0]}`", gen.loc(sw))
    # truth table: which branch runs for each valuation
    diff_body: Optional[List[ast.stmt]] = None
    bad_vals = []
    table = {}
    for vals in itertools.product([False, True], repeat=len(atoms)):
        env = dict(zip(atoms, vals))
        t = _truth(sw.test, env)
        table[vals] = t
    # the compare-only branch is the one taken for force=False, out_dir.exists()=True, everything else True
    env0 = {a: True for a in atoms}
    env0["force"] = False
    t0 = _truth(sw.test, env0)
    if t0 is None:
        raise AnalysisError(f"R10.3: cannot evaluate mode switch `{norm(sw.test)}`")
    diff_body, direct_body = (sw.body, sw.orelse) if t0 else (sw.orelse, sw.body)
    diff_is_true = bool(t0)
    for vals, t in table.items():
        env = dict(zip(atoms, vals))
        if not env["force"] and out_exists and env[out_exists[0]]:
            if t is None or bool(t) != diff_is_true:
                bad_vals.append({k: v for k, v in env.items()})
    sub = f"{gen.module.relpath}:ClientGenerator.generate mode switch `{norm(sw.test)}`"
    if bad_vals:
        rep.violation("R10.3", sub, f"{gen.fq}|mode-switch|{norm(sw.test)}",
                      f"with force=False and an existing output package the direct-generation branch (rmtree + writes into the real tree) "
                      f"is taken when {bad_vals[0]}", gen.loc(sw))
    else:
        rep.ok("R10.3", sub, f"for every valuation of {atoms} with force=False and out_dir.exists()=True the compare-only branch runs", gen.loc(sw))

    # ---------------------------------------------------------------- R10.1 provenance in compare-only branch
    prov = Provenance(gen, exclude=list(direct_body))
    CTORS = {"ExceptionsEmitter", "CoreEmitter", "ModelsEmitter", "EndpointsEmitter", "ClientEmitter", "MocksEmitter", "RenderContext",
             "PostprocessManager", "FileManager", "DocsEmitter"}
    def is_real(e: ast.AST) -> bool:
        r = prov.roots(e)
        return ("param", "project_root") in r

    def is_tmp(e: ast.AST) -> bool:
        r = prov.roots(e)
        return ("call", "tempfile.TemporaryDirectory") in r or ("call", "tempfile.mkdtemp") in r

    n_calls = 0
    n_args = 0
    for st in diff_body:
        for c in [n for n in ast.walk(st) if isinstance(n, ast.Call)]:
            name = dotted(c.func) or ""
            if name in LOG_CALLS or name.startswith("logger."):
                continue
            n_calls += 1
            meth = c.func.attr if isinstance(c.func, ast.Attribute) else name
            subc = f"{gen.module.relpath}:generate (compare-only branch) `{norm(c)[:70]}`"
            loc = gen.loc(c)
            if name == "self._show_diffs":
                if len(c.args) == 2 and is_tmp(c.args[1]) and not is_real(c.args[1]):
                    rep.ok("R10.1", subc, "reads the real tree (arg 1) and compares with the temp tree (arg 2)", loc)
                else:
                    rep.violation("R10.1", subc, f"{gen.fq}|show-diffs-args|{norm(c)}", "_show_diffs is not called as (real, temp)", loc)
                continue
            relevant = name in CTORS or name in SINK_FUNCS or name == "open" or meth in SINK_METHODS | {"emit", "run", "open"} or (
                isinstance(c.func, ast.Name) and c.func.id[:1].isupper() and c.func.id not in ("Path", "GenerationError"))
            if not relevant:
                continue
            args = list(c.args) + [k.value for k in c.keywords]
            if name in ("shutil.copy", "shutil.copy2", "shutil.copyfile", "shutil.copytree") and len(c.args) >= 2:
                args = list(c.args[1:]) + [k.value for k in c.keywords if k.arg != "src"]  # the source is only read
            recv = c.func.value if isinstance(c.func, ast.Attribute) else None
            offenders = [a for a in args if is_real(a)]
            if recv is not None and meth in SINK_METHODS | {"emit", "run"} and is_real(recv):
                offenders.append(recv)
            n_args += len(args)
            if offenders:
                rep.violation("R10.1", subc, f"{gen.fq}|real-path-in-compare-branch|{meth}|{norm(offenders[0])}",
                              f"in compare-only mode a value derived from the real project root (`{norm(offenders[0])}`) reaches `{name or meth}`: "
                              "the existing tree can be written", loc)
            else:
                rep.ok("R10.1", subc, "all path arguments derive from the TemporaryDirectory", loc)
    rep.count("R10.1:calls_in_compare_branch", n_calls)
    rep.require(n_calls >= 18, f"R10.1: only {n_calls} emitter/sink calls found in the compare-only branch (floor 18)")
    # the real render context must not be used in the compare-only branch
    for st in diff_body:
        for n in ast.walk(st):
            if isinstance(n, ast.Name) and isinstance(n.ctx, ast.Load) and n.id == "main_render_context":
                rep.violation("R10.1", f"{gen.module.relpath}:generate (compare-only branch) uses main_render_context",
                              f"{gen.fq}|main-context-in-compare-branch", "the render context bound to the real output directory is used in compare-only mode", gen.loc(n))

    # ---------------------------------------------------------------- R10.5 temp dir + raise on differences
    withs = [n for n in diff_body if isinstance(n, ast.With) and any("TemporaryDirectory" in norm(i.context_expr) for i in n.items)]
    emit_calls = [c for st in diff_body for c in ast.walk(st) if isinstance(c, ast.Call) and isinstance(c.func, ast.Attribute) and c.func.attr == "emit"]
    if len(withs) == 1 and all(_inside(c, withs[0].body) for c in emit_calls) and emit_calls:
        rep.ok("R10.5", f"{gen.module.relpath}:generate temp scope", f"all {len(emit_calls)} emit calls of the compare-only branch run inside `with tempfile.TemporaryDirectory()`", gen.loc(withs[0]))
    else:
        rep.violation("R10.5", f"{gen.module.relpath}:generate temp scope", f"{gen.fq}|temp-scope",
                      "compare-only generation is not fully enclosed in a `with tempfile.TemporaryDirectory()` block", gen.loc(sw))
    cfg = CFG(gen.node)
    dom = cfg.dominators()
    raises = [n for n in cfg.nodes if isinstance(n.ast, ast.Raise) and not n.copy and _inside(n.ast, diff_body) and "GenerationError" in norm(n.ast)]
    ok_raise = False
    assigned = {x.targets[0].id for st in diff_body for x in ast.walk(st) if isinstance(x, ast.Assign) and isinstance(x.targets[0], ast.Name)
                and isinstance(x.value, ast.Call) and dotted(x.value.func) == "self._show_diffs"}
    for r in raises:
        gs = [cfg.nodes[d] for d in dom[r.id] if cfg.nodes[d].kind == "test"]
        for t0 in gs:
            class _T:  # the test with single-definition locals expanded (`found = a or b; if found:`)
                ast = _L10(gen.node).inline(t0.ast, stop=tuple(assigned))
            t = _T
            names = {x.id for x in ast.walk(t.ast) if isinstance(x, ast.Name)}
            if not (names & assigned):
                continue
            # the test must be true as soon as *any* diff result is true: a disjunction (or a single name) over all results
            disj = (isinstance(t.ast, ast.BoolOp) and isinstance(t.ast.op, ast.Or) and all(isinstance(v, ast.Name) for v in t.ast.values)) or (
                isinstance(t.ast, ast.Name) and len(assigned) == 1) or (
                isinstance(t.ast, ast.Call) and dotted(t.ast.func) == "any")
            if assigned and assigned <= names and disj and not ok_raise:
                ok_raise = True
                rep.ok("R10.5", f"{gen.module.relpath}:generate differences raise", f"`{norm(t.ast)}` covers every _show_diffs result and dominates `raise GenerationError`", gen.loc(r.ast))
    if not ok_raise and assigned:
        # the test reads a flag that is bound on several paths (a comparison helper with an early return, written out): every binding
        # must be a disjunction over all the results computed on the way to it
        GL5 = _L10(gen.node)
        res_nodes = {v: [n for n in cfg.nodes if n.kind == "stmt" and isinstance(n.ast, ast.Assign) and not n.copy and isinstance(n.ast.targets[0], ast.Name)
                         and n.ast.targets[0].id == v and isinstance(n.ast.value, ast.Call) and dotted(n.ast.value.func) == "self._show_diffs"] for v in assigned}
        for r in raises:
            for t0 in [cfg.nodes[d] for d in dom[r.id] if cfg.nodes[d].kind == "test"]:
                if not isinstance(t0.ast, ast.Name):
                    continue
                flag = t0.ast.id
                bind = [n for n in cfg.nodes if n.kind == "stmt" and isinstance(n.ast, ast.Assign) and not n.copy and isinstance(n.ast.targets[0], ast.Name) and n.ast.targets[0].id == flag]
                if len(bind) < 2:
                    continue
                good = True
                for b_ in bind:
                    e_ = GL5.inline(b_.ast.value, stop=tuple(assigned))
                    names_ = {x.id for x in ast.walk(e_) if isinstance(x, ast.Name)}
                    before = {v for v, ns in res_nodes.items() if any(b_.id in cfg.reachable(n.id) for n in ns)}
                    shape = isinstance(e_, ast.Name) or (isinstance(e_, ast.BoolOp) and isinstance(e_.op, ast.Or) and all(isinstance(v, ast.Name) for v in e_.values))
                    if not (before and before <= names_ and shape):
                        good = False
                if good and not ok_raise:
                    ok_raise = True
                    rep.ok("R10.5", f"{gen.module.relpath}:generate differences raise",
                           f"`{flag}` is bound {len(bind)}x, each time to a disjunction over every _show_diffs result computed so far, and dominates `raise GenerationError`", gen.loc(r.ast))
    if not ok_raise:
        rep.violation("R10.5", f"{gen.module.relpath}:generate differences raise", f"{gen.fq}|diff-raise",
                      "a difference reported by _show_diffs does not lead to `raise GenerationError` (some result is ignored)", gen.loc(sw))

    diff_coverage(repo, rep, "R10.6", gen, diff_body)
    _guarded(rep, rule_postprocess_targets_are_files, repo, rep, "R10.7")
    # R10.8: "on a difference / on a failure it raises" needs the document as it is now: nothing read from outside is memoised      [= R9.13]
    # R10.9: ... and a comparison that looks at every generated file                                                            [= R9.4]
    from rules.c09 import rule_no_memoised_outside_reads, rule_show_diffs_compares_all

    _guarded(rep, rule_no_memoised_outside_reads, repo, rep, "R10.8")
    _guarded(rep, rule_show_diffs_compares_all, repo, rep, "R10.9")
    # R10.10: "on a match it succeeds" - both branches create the ancestor __init__.py files of the same directories               [= R9.10]
    from rules._reuse import reuse as _reuse1010

    _reuse1010(repo, rep, "c09", {"R9.10": "R10.10"})
    _guarded(rep, rule_formatter_writes_no_cache, repo, rep, "R10.11")
    _guarded(rep, rule_formatter_is_isolated, repo, rep, "R10.12")  # "on a match it succeeds": both trees are formatted under the same configuration   [= R9.14]

    # ---------------------------------------------------------------- R10.2 / R10.3 sinks over the generation path
    live = repo.import_closure(["generator.client_generator"])
    gen_mods = [m for m in live if m.startswith(("pyopenapi_gen.emitters", "pyopenapi_gen.generator", "pyopenapi_gen.context",
                                                 "pyopenapi_gen.visit", "pyopenapi_gen.core.writers", "pyopenapi_gen.core.postprocess_manager"))]
    n_sinks = 0
    destructive_seen = []
    for mn in gen_mods:
        mod = repo.modules[mn]
        for fn in mod.functions.values():
            if fn.fq == gen.fq:
                fn = gen  # the same function object the branch analysis above works on (possibly with the diff helper written out)
            elif fn.fq in written_out and getattr(gen, "flattened", False):
                continue  # judged where it was written out (inside generate)
            if "<locals>" in fn.qualname:
                continue
            p = None
            for c in calls_in(fn.node, include_nested_defs=True):
                name = dotted(c.func) or ""
                meth = c.func.attr if isinstance(c.func, ast.Attribute) else ""
                path_expr: Optional[ast.AST] = None
                kind = None
                if name == "open" or (meth == "open" and not name.startswith("importlib")):
                    mode = None
                    margs = c.args[1:] if name == "open" else c.args
                    if margs and isinstance(margs[0], ast.Constant):
                        mode = margs[0].value
                    for k in c.keywords:
                        if k.arg == "mode" and isinstance(k.value, ast.Constant):
                            mode = k.value.value
                    if not (isinstance(mode, str) and any(x in mode for x in "wax+")):
                        continue
                    path_expr = c.args[0] if name == "open" and c.args else (c.func.value if meth == "open" else None)
                    kind = f"open(mode={mode!r})"
                elif name in SINK_FUNCS:
                    dst_second = name in ("json.dump", "shutil.copy", "shutil.copy2", "shutil.copyfile", "shutil.copytree", "shutil.move", "os.rename", "os.replace")
                    path_expr = c.args[1] if dst_second and len(c.args) > 1 else (c.args[0] if c.args else None)
                    kind = name
                    if name == "json.dump":
                        continue  # the target is an already-open file object: covered by its open()
                elif meth in SINK_METHODS and isinstance(c.func, ast.Attribute):
                    if meth in ("write_file", "ensure_dir"):
                        path_expr = c.args[0] if c.args else None
                    elif meth == "rename" and len(c.args) == 1 and not _pathish(c.func.value, fn):
                        continue
                    elif meth in ("mkdir", "write_text", "write_bytes", "rename", "unlink", "rmdir", "touch"):
                        if not _pathish(c.func.value, fn):
                            continue
                        path_expr = c.func.value
                    kind = f".{meth}()"
                if path_expr is None or kind is None:
                    continue
                n_sinks += 1
                p = p or Provenance(fn)
                roots = p.roots(path_expr)
                sub = f"{mod.relpath}:{fn.qualname} {kind} on `{norm(path_expr)[:50]}`"
                loc = fn.loc(c)
                ambient = sorted(r for r in roots if r[0] == "call" and r[1] in ("os.getcwd", "Path.cwd", "Path.home", "os.path.expanduser",
                                                                                  "os.environ.get", "os.getenv", "pathlib.Path.cwd", "pathlib.Path.home"))
                globs: List = []
                anchored = any(r[0] in ("param", "self") for r in roots) or ("call", "tempfile.gettempdir") in roots or \
                    ("call", "tempfile.TemporaryDirectory") in roots
                abs_const = sorted(r[1] for r in roots if r[0] == "const" and ((r[1].startswith("/") and len(r[1]) > 1) or r[1].startswith("~")))
                updir = sorted(r[1] for r in roots if r[0] == "const" and ".." in r[1].split("/"))
                # upward navigation from a directory the function was given: `<dir param>.parent / "x"`, `dirname(<dir param>)`
                escapes = _escapes_upward(fn, path_expr)
                if escapes and not (ambient or abs_const or updir or not anchored):
                    rep.violation("R10.2", sub, f"{fn.fq}|sink-escapes-upward|{kind}",
                                  f"the path is built from the *parent* of a directory this function was given (`{escapes}`): the write lands next to, not inside, "
                                  "the output / core package", loc)
                    continue
                if ambient or abs_const or updir or not anchored or globs:
                    why = (f"ambient root {ambient}" if ambient else f"absolute constant {abs_const}" if abs_const else
                           f"parent-directory constant {updir}" if updir else f"module-level value {globs}" if globs else "no parameter/attribute root (relative to cwd)")
                    rep.violation("R10.2", sub, f"{fn.fq}|sink|{kind}|{norm(path_expr)}",
                                  f"filesystem write whose path is not derived from the directories this function was given: {why}", loc)
                else:
                    tmp = ("call", "tempfile.gettempdir") in roots
                    rep.ok("R10.2", sub, "debug log under tempfile.gettempdir() (outside any project root)" if tmp else
                           f"path derives from {sorted(r[1] for r in roots if r[0] in ('param', 'self'))}", loc)
                if name in DESTRUCTIVE or meth in DESTRUCTIVE_METHODS:
                    destructive_seen.append((fn, c, kind, path_expr))
    rep.count("R10.2:write_sinks", n_sinks)
    rep.require(n_sinks >= 45, f"R10.2: only {n_sinks} filesystem write sinks found on the generation path (floor 45)")

    # destructive-operation table
    allowed = {
        (gen.fq, "shutil.rmtree"): "remove the output package before direct generation",
        ("pyopenapi_gen.emitters.models_emitter:ModelsEmitter._generate_model_file", ".rename()"): "atomic write: <file>.tmp renamed onto <file> inside the models directory",
    }
    for fn, c, kind, pexpr in destructive_seen:
        sub = f"{fn.module.relpath}:{fn.qualname} destructive {kind} `{norm(c)[:60]}`"
        if (fn.fq, kind) not in allowed:
            rep.violation("R10.3", sub, f"{fn.fq}|destructive|{kind}|{norm(pexpr)}",
                          "a delete/rename operation that is not in the table of known destructive operations", fn.loc(c))
            continue
        if kind == "shutil.rmtree":
            in_direct = _inside(c, direct_body)
            tgt_ok = _root_name(pexpr) == OUT or (fn.fq == gen.fq and _root_name(pexpr) is not None and _GL.root(_root_name(pexpr)) == OUT)
            if in_direct and tgt_ok:
                rep.ok("R10.3", sub, f"target is exactly out_dir, only in the direct-generation branch ({allowed[(fn.fq, kind)]})", fn.loc(c))
            else:
                rep.violation("R10.3", sub, f"{fn.fq}|rmtree|target-is-output-dir={tgt_ok}|direct={in_direct}",
                              f"rmtree target `{norm(pexpr)}` / position (direct branch={in_direct}) differs from `rmtree(out_dir)` in the direct-generation branch", fn.loc(c))
        else:
            # rename: source must be derived from the destination (same directory)
            src = c.func.value  # type: ignore[union-attr]
            p = Provenance(fn)
            if p.roots(src) >= {r for r in p.roots(c.args[0]) if r[0] in ("param", "self")}:
                rep.ok("R10.3", sub, allowed[(fn.fq, kind)], fn.loc(c))
            else:
                rep.violation("R10.3", sub, f"{fn.fq}|rename-roots", "rename source and destination are not derived from the same directory", fn.loc(c))
    rep.require(any(k == "shutil.rmtree" for _, _, k, _ in destructive_seen), "R10.3: rmtree(out_dir) vanished (anchor)")
    # ancestor __init__ loops
    n_loops = 0
    for w in [n for n in own_nodes(gen.node) if isinstance(n, ast.While) and not isinstance(n.test, ast.Constant)]:  # (not the one-shot `while True:` of a written-out helper)
        writes = [c for c in calls_in(w) if isinstance(c.func, ast.Attribute) and c.func.attr == "write_text"]
        if not writes:
            continue
        n_loops += 1
        t = w.test
        m = match("VAR_c != project_root", t)
        if m is None:
            # the compare-only branch builds the same package structure below its temporary root
            m2 = match("VAR_c != VAR_r", t)
            if m2 is not None:
                rroots = Provenance(gen).roots(ast.Name(id=m2["VAR_r"], ctx=ast.Load()))
                if ("call", "tempfile.TemporaryDirectory") in rroots or ("call", "tempfile.mkdtemp") in rroots:
                    m = m2
        stops = m is not None
        var = m["VAR_c"] if m else "?"
        steps = [n for n in own_nodes(w) if isinstance(n, ast.Assign) and norm(n.targets[0]) == var and norm(n.value) == f"{var}.parent"]
        only_init = all("__init__.py" in norm(_def_of(gen, c.func.value)) for c in writes)  # type: ignore[union-attr]
        sub = f"{gen.module.relpath}:generate ancestor __init__ loop L{w.lineno}"
        if stops and steps and only_init:
            rep.ok("R10.3", sub, f"walks `{var}` upward by .parent, stops at `{norm(t.comparators[0])}`, writes only missing __init__.py", gen.loc(w))
        else:
            rep.violation("R10.3", sub, f"{gen.fq}|init-loop|stops={stops}",
                          f"ancestor loop does not stop at project_root / writes something else (stops={stops}, steps={bool(steps)}, only_init={only_init})", gen.loc(w))
    # the same loop extracted into a helper of the class (`self._ensure_inits(out_dir, project_root)`): judged per call site
    gcls = gen.module.classes.get(gen.qualname.split(".")[0]) if "." in gen.qualname else None
    for hname, hf in (gcls.methods.items() if gcls is not None else []):
        if hf is gen:
            continue
        for w in [n for n in own_nodes(hf.node) if isinstance(n, ast.While)]:
            writes = [c for c in calls_in(w) if isinstance(c.func, ast.Attribute) and c.func.attr == "write_text"]
            m = match("VAR_c != VAR_r", w.test)
            if not writes or m is None or m["VAR_r"] not in hf.params:
                continue
            var = m["VAR_c"]
            steps = [n for n in own_nodes(w) if isinstance(n, ast.Assign) and norm(n.targets[0]) == var and norm(n.value) == f"{var}.parent"]
            only_init = all("__init__.py" in norm(_def_of(hf, c.func.value)) for c in writes)  # type: ignore[union-attr]
            hparams = [p_ for p_ in hf.params if p_ not in ("self", "cls")]
            pos = hparams.index(m["VAR_r"])
            for c in calls_in(gen.node):
                if not (isinstance(c.func, ast.Attribute) and c.func.attr == hname):
                    continue
                actual = c.args[pos] if pos < len(c.args) else next((k.value for k in c.keywords if k.arg == m["VAR_r"]), None)
                n_loops += 1
                sub = f"{gen.module.relpath}:generate ancestor __init__ loop via `{norm(c)[:50]}`"
                stops = False
                if isinstance(actual, ast.Name):
                    rr = Provenance(gen).roots(actual)
                    stops = actual.id == "project_root" or ("call", "tempfile.TemporaryDirectory") in rr or ("call", "tempfile.mkdtemp") in rr
                if stops and steps and only_init:
                    rep.ok("R10.3", sub, f"{hname} walks upward by .parent, stops at `{norm(actual)}`, writes only missing __init__.py", gen.loc(c))
                else:
                    rep.violation("R10.3", sub, f"{gen.fq}|init-loop|stops={stops}",
                                  f"ancestor loop does not stop at project_root / writes something else (stops={stops}, steps={bool(steps)}, only_init={only_init})", gen.loc(c))
    rep.require(n_loops >= 2, f"R10.3: {n_loops} ancestor __init__ loops found (floor 2)")

    # ---------------------------------------------------------------- R10.4 swallowing handlers
    cg = CallGraph(repo, gen_mods, by_name=False)
    reach = cg.reachable([gen.fq])
    rep.count("R10.4:functions_reachable_from_generate", len(reach))
    rep.require(len(reach) >= 60, f"R10.4: only {len(reach)} functions reachable from generate() (floor 60)")
    n_h = 0
    for fq in sorted(reach):
        fn = cg.funcs[fq]
        if not fn.module.name.startswith(("pyopenapi_gen.emitters", "pyopenapi_gen.generator")):
            continue
        for tr in [n for n in own_nodes(fn.node) if isinstance(n, ast.Try)]:
            for h in tr.handlers:
                n_h += 1
                hn = norm(h.type) if h.type is not None else "<bare>"
                reraises = _always_raises(h.body)
                sub = f"{fn.module.relpath}:{fn.qualname} except {hn} (L{h.lineno})"
                if reraises:
                    rep.ok("R10.4", sub, "handler re-raises / converts on every path", fn.loc(h))
                elif hn == "FileNotFoundError" and _only_writes_readme(fn, tr):
                    rep.ok("R10.4", sub, "optional documentation artifact (README.md template): no code file depends on it (enumerated exception)", fn.loc(h))
                elif hn in ("ValueError",) and "relative_to" in " ".join(ast.unparse(tr).split()):
                    rep.ok("R10.4", sub, "path-mapping fallback after a successful comparison (nothing was emitted here)", fn.loc(h))
                else:
                    rep.violation("R10.4", sub, f"{fn.fq}|swallow|{hn}|{norm(h.body[0])[:60]}",
                                  f"an error in this emit step is swallowed (`except {hn}` continues without raising): generation reports success "
                                  "with a missing/partial file", fn.loc(h))
    # `with contextlib.suppress(...)` is a handler too: around a write of generated output it turns a failed write into a silent success
    ex = ast.parse(_SUPPRESS_EXAMPLE).body[0]
    rep.require(len(_suppressed_writes(ex)) == 1 and bool(_suppressed_writes(ex)[0][1]), "R10.4: the built-in positive example of a suppressed write is no longer recognised - the rule is broken")
    n_sup = 0
    for fq in sorted(reach):
        fn = cg.funcs[fq]
        for w, sup, writes in _suppressed_writes(fn.node):
            n_sup += 1
            sub = f"{fn.module.relpath}:{fn.qualname} with suppress(...) (L{w.lineno})"
            if writes:
                rep.violation("R10.4", sub, f"{fn.fq}|suppress-around-write|{writes[0][1][:40]}",
                              f"`{norm(writes[0][0])[:60]}` runs inside `with {norm(sup)}`: a failing write of generated output is dropped silently - "
                              "the run reports success (or 'no differences') with a file missing", fn.loc(w))
            else:
                rep.ok("R10.4", sub, "suppresses errors of scratch / log writes only", fn.loc(w))
    rep.count("R10.4:suppress_blocks", n_sup)
    rep.count("R10.4:handlers_in_emitters", n_h)
    rep.require(n_h >= 6, f"R10.4: only {n_h} exception handlers found in emitters/generator (floor 6)")


_SUPPRESS_EXAMPLE = '''
def write_file(self, path, content):
    log = os.path.join(tempfile.gettempdir(), "debug.log")
    with contextlib.suppress(OSError):
        with open(log, "a") as d:
            d.write(path)
        with open(path, "w") as f:
            f.write(content)
'''


def _suppressed_writes(fn_node: ast.AST):
    """[(with node, suppress call, [(write call, origin of its destination)])] for every `with suppress(...)` of the function; writes below
    the system temp directory (scratch / debug files) are not listed"""
    out = []
    L4 = _L10(fn_node)
    for w in [n for n in own_nodes(fn_node) if isinstance(n, ast.With)]:
        sup = [it for it in w.items if isinstance(it.context_expr, ast.Call) and (dotted(it.context_expr.func) or "").split(".")[-1] == "suppress"]
        if not sup:
            continue
        writes = []
        for c in [c for st in w.body for c in ast.walk(st) if isinstance(c, ast.Call)]:
            d = dotted(c.func) or ""
            is_open_w = d in ("open", "io.open") and any(isinstance(a, ast.Constant) and isinstance(a.value, str) and set(a.value) & set("wax+")
                                                         for a in list(c.args[1:]) + [k.value for k in c.keywords if k.arg == "mode"])
            is_write = isinstance(c.func, ast.Attribute) and c.func.attr in ("write_text", "write_bytes", "write_file", "mkdir", "makedirs", "rename", "replace", "copy", "copy2", "copytree")
            if is_open_w or is_write:
                dst = c.args[0] if (is_open_w and c.args) else (c.func.value if isinstance(c.func, ast.Attribute) else None)
                origin = norm(L4.inline(dst, stop=tuple(L4.params))) if dst is not None else ""
                if "gettempdir" in origin or "mkdtemp" in origin:
                    continue
                writes.append((c, origin or "?"))
        out.append((w, sup[0].context_expr, writes))
    return out


def _only_writes_readme(fn: Function, tr: ast.Try) -> bool:
    writes = [c for st in tr.body for c in ast.walk(st) if isinstance(c, ast.Call) and isinstance(c.func, ast.Attribute)
              and c.func.attr in ("write_file", "write_text", "write")]
    if not writes:
        return False
    for w in writes:
        dst = w.args[0] if w.args else None
        if dst is None or "README.md" not in norm(_def_of(fn, dst)):
            return False
    return True


def _def_of(fn: Function, e: ast.AST) -> ast.AST:
    if isinstance(e, ast.Name):
        p: Optional[ast.AST] = None
        for n in own_nodes(fn.node):
            if isinstance(n, ast.Assign) and any(isinstance(t, ast.Name) and t.id == e.id for t in n.targets):
                p = n.value
        return p if p is not None else e
    return e


def _pathish(recv: ast.AST, fn: Function) -> bool:
    """Is the receiver a pathlib.Path-like value (and not, say, a str for .replace / a list for .remove)?"""
    t = norm(recv)
    if any(k in t.lower() for k in ("path", "dir", "file", "parent", "root")):
        return True
    if isinstance(recv, ast.BinOp) and isinstance(recv.op, ast.Div):
        return True
    return False


def _always_raises(body: List[ast.stmt]) -> bool:
    for st in body:
        if isinstance(st, ast.Raise):
            return True
        if isinstance(st, ast.If) and st.orelse and _always_raises(st.body) and _always_raises(st.orelse):
            return True
        if isinstance(st, (ast.With, ast.AsyncWith)) and _always_raises(st.body):
            return True
        if isinstance(st, (ast.Return, ast.Continue, ast.Break)):
            return False
    return False


# ------------------------------------------------------------------------------------------------ R10.7 rewriting tools get the generated files only
def rule_postprocess_targets_are_files(repo: Repo, rep, rule: str = "R10.7") -> None:
    """The post-processor rewrites files in place (ruff `--fix`, `ruff format`).  What it hands to those tools must be the generated
    files it was given - never a directory obtained by climbing (`.parent`, `.parents`, dirname): a directory makes the tool walk and
    rewrite everything below it, including hand-written siblings of the output package.  For every call in PostprocessManager.run to
    a method of the class that starts a rewriting subprocess, the argument's definitions are followed through the locals of `run`."""
    pm = repo.module("core.postprocess_manager")
    cls = pm.classes.get("PostprocessManager")
    if cls is None or "run" not in cls.methods:
        raise AnalysisError(f"{rule}: anchor vanished: PostprocessManager.run")
    rewriting = set()
    for name, m in cls.methods.items():
        for c in calls_in(m.node):
            if (dotted(c.func) or "").startswith("subprocess.") and any(
                    isinstance(k, ast.Constant) and isinstance(k.value, str) and (k.value in ("--fix", "format", "--fix-only", "--unsafe-fixes")) for k in ast.walk(c)):
                rewriting.add(name)
    rep.require(len(rewriting) >= 3, f"{rule}: only {len(rewriting)} rewriting tool wrappers found in PostprocessManager (floor 3)")
    run = cls.methods["run"]
    defs: Dict[str, List[ast.AST]] = {}
    for st in ast.walk(run.node):
        if isinstance(st, ast.Assign):
            for t in st.targets:
                for x in ast.walk(t):
                    if isinstance(x, ast.Name) and isinstance(x.ctx, ast.Store):
                        defs.setdefault(x.id, []).append(st.value)
        elif isinstance(st, (ast.AnnAssign, ast.AugAssign)) and isinstance(st.target, ast.Name) and st.value is not None:
            defs.setdefault(st.target.id, []).append(st.value)
        elif isinstance(st, (ast.For, ast.comprehension)):
            for x in ast.walk(st.target):
                if isinstance(x, ast.Name):
                    defs.setdefault(x.id, []).append(st.iter)
        elif isinstance(st, ast.Call) and isinstance(st.func, ast.Attribute) and isinstance(st.func.value, ast.Name) and st.func.attr in ("append", "extend", "add", "update", "insert"):
            for a in st.args:
                defs.setdefault(st.func.value.id, []).append(a)

    def climbs(e: ast.AST, seen: Set[str]) -> Optional[ast.AST]:
        for x in ast.walk(e):
            if isinstance(x, ast.Attribute) and x.attr in ("parent", "parents"):
                return x
            if isinstance(x, ast.Call) and (dotted(x.func) or "").endswith("dirname"):
                return x
            if isinstance(x, ast.Name) and x.id in defs and x.id not in seen:
                seen.add(x.id)
                for v in defs[x.id]:
                    r = climbs(v, seen)
                    if r is not None:
                        return r
        return None

    n = 0
    for c in calls_in(run.node):
        if isinstance(c.func, ast.Attribute) and isinstance(c.func.value, ast.Name) and c.func.value.id == "self" and c.func.attr in rewriting and c.args:
            n += 1
            sub = f"{pm.relpath}:PostprocessManager.run -> {c.func.attr}({norm(c.args[0])[:30]})"
            w = climbs(c.args[0], set())
            if w is None:
                rep.ok(rule, sub, "the targets are (a filter of) the files handed to run(): no directory obtained by climbing reaches the rewriting tool", run.loc(c))
            else:
                rep.violation(rule, sub, f"{run.fq}|rewrites-climbed-directory|{c.func.attr}",
                              f"`{norm(c.args[0])[:40]}` can hold a path obtained through `{norm(w)[:40]}`: the tool then walks that directory and rewrites files the "
                              "generator never wrote (hand-written modules next to the output package)", run.loc(c))
    rep.require(n >= 3, f"{rule}: only {n} calls of rewriting tool wrappers found in PostprocessManager.run (floor 3)")


# ------------------------------------------------------------------------------------------------ R10.11 the formatter leaves nothing behind
_R1011_EXAMPLE = '''
def fmt(targets):
    subprocess.run([sys.executable, "-m", "ruff", "format"] + [str(t) for t in targets])
'''


def _ruff_calls_with_cache(tree: ast.AST):
    """argv lists of `ruff` sub-process calls that do not pass `--no-cache` (nor point `--cache-dir` somewhere): ruff then writes a
    `.ruff_cache` directory into the project root it discovers for the files, or into the current working directory."""
    out, n = [], 0
    for c in ast.walk(tree):
        if not (isinstance(c, ast.Call) and (dotted(c.func) or "").split(".")[-1] in ("run", "Popen", "check_call", "check_output", "call") and c.args):
            continue
        consts = [x.value for x in ast.walk(c.args[0]) if isinstance(x, ast.Constant) and isinstance(x.value, str)]
        if "ruff" not in consts:
            continue
        n += 1
        if not any(v == "--no-cache" or v.startswith("--cache-dir") for v in consts):
            out.append(c)
    return out, n


def rule_formatter_writes_no_cache(repo: Repo, rep, rule: str = "R10.11") -> None:
    """Post-processing runs ruff on the generated files - in compare-only mode on the files of the temporary tree.  Without `--no-cache` ruff
    creates `.ruff_cache/` in the project root it resolves for those files or, for files below the system temp directory, in the current
    working directory: with the documented invocation (`--project-root .`) a no-force run that changes nothing still creates a directory
    under the project root, and a forced run writes outside the output and core packages."""
    hz, n = _ruff_calls_with_cache(ast.parse(_R1011_EXAMPLE))
    rep.require(len(hz) == 1 and n == 1, f"{rule}: the built-in positive example is no longer recognised - the rule is broken")
    pm = repo.module("core.postprocess_manager")
    hz, n = _ruff_calls_with_cache(pm.tree)
    rep.count(f"{rule}:ruff_invocations", n)
    rep.require(n >= 3, f"{rule}: only {n} ruff invocations found in the post-processor (floor 3)")
    for c in hz:
        rep.violation(rule, f"{pm.relpath}:{c.lineno} ruff invocation", f"{pm.name}|ruff-with-cache|L{[x.value for x in ast.walk(c.args[0]) if isinstance(x, ast.Constant) and isinstance(x.value, str)][3:5]}",
                      "ruff is started without `--no-cache`: it creates `.ruff_cache/` in the project root (or the current directory) - a write outside the output and core "
                      "packages, also in a no-force run that reports no differences", f"{pm.relpath}:{c.lineno}")
    if not hz and n:
        rep.ok(rule, f"{pm.relpath} ruff invocations", f"all {n} pass `--no-cache`", f"{pm.relpath}:1")


def rule_formatter_is_isolated(repo: Repo, rep, rule: str = "R9.14") -> None:
    """The generated files are formatted in place: in a direct run inside the target project (ruff applies that project's pyproject.toml /
    ruff.toml: line length, quote style, isort sections), in the compare-only run inside a temporary directory (ruff defaults, or whatever
    the current directory configures).  Unless every invocation passes `--isolated` (or an explicit `--config`), the bytes depend on the
    output location and an immediate re-run over a project that configures ruff reports differences."""
    pm = repo.module("core.postprocess_manager")
    n = 0
    bad = []
    for c in ast.walk(pm.tree):
        if not (isinstance(c, ast.Call) and (dotted(c.func) or "").split(".")[-1] in ("run", "Popen", "check_call", "check_output", "call") and c.args):
            continue
        consts = [x.value for x in ast.walk(c.args[0]) if isinstance(x, ast.Constant) and isinstance(x.value, str)]
        if "ruff" not in consts:
            continue
        n += 1
        if not any(v == "--isolated" or v.startswith("--config") for v in consts):
            bad.append(c)
    rep.count(f"{rule}:ruff_invocations", n)
    rep.require(n >= 3, f"{rule}: only {n} ruff invocations found in the post-processor (floor 3)")
    for c in bad:
        rep.violation(rule, f"{pm.relpath}:{c.lineno} ruff invocation", f"{pm.name}|ruff-reads-project-config|L{[x.value for x in ast.walk(c.args[0]) if isinstance(x, ast.Constant) and isinstance(x.value, str)][3:5]}",
                      "ruff is started without `--isolated` / `--config`: it formats with the configuration of wherever the files lie - the target project's in a direct run, none "
                      "in the temporary tree of the compare-only run - so the output depends on the location and an unchanged client 'differs' on re-run", f"{pm.relpath}:{c.lineno}")
    if not bad and n:
        rep.ok(rule, f"{pm.relpath} ruff invocations", f"all {n} pass `--isolated`", f"{pm.relpath}:1")
