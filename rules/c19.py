"""C19 - output depends on the document's meaning, not its rendering.

Mostly a metamorphic relation between two runs (not decidable statically). The clauses that are visible in the code:

R19.6  no local of an items-loop over document entries carries a value from one entry to the next (assigned before read in every iteration)
R19.1  document mapping keys are normalised before type-sensitive use: a key obtained from `.items()` of a document
       mapping must pass `str()` before it reaches an `isinstance(k, str)`-guarded raise/skip (YAML scalar typing)
R19.2  sibling call sites agree: path-level and operation-level parameters are parsed with the same naming context
       (otherwise the name of a promoted inline schema depends on where / in which order it is declared)
R19.3  response selection does not depend on the order of the `responses` mapping  [= R5.1 normal form]
R19.12 the discriminator collector rewrites a property slot of the (shared) variant schemas while walking the unions in registry order: what it reads
       from that slot is kept per variant before the slot is overwritten, so a variant of two unions contributes its value to both
R19.14 the by-name lookup that binds a cycle placeholder to its target is not refused on account of the target's kind (named arrays / unions in cycles)  [= R2.11]
R19.13 an allOf merge that met a base still being parsed is completed afterwards (inherited fields do not depend on declaration order)              [= R2.22]
R19.10 sibling inline property schemas get distinct invented names: a name without the parent prefix only under a test of the sibling keys
R19.11 names made up for inline schemas are tested against the declared schema names (no order-dependent merge with a declared schema)       [= R2.17]
R19.9  names invented for inline schemas derive from the enclosing named context, not from a constant numbered in encounter order  [finding on the pinned tree]
R19.8  references find an already registered schema by its declared name (raw-name index): no order-dependent second parse        [= R2.15]
R19.7  a memo table kept on the parsing context is keyed by every parameter the stored conversion depends on (no first-caller-wins entries)
R19.4  the loader dispatches on the file content, not on a lossy heuristic: JSON and YAML go through json.loads /
       yaml.safe_load only
(order-independence of schema parsing: R8.x balance; sorted emission: R9.1)
"""
from __future__ import annotations

import ast
from typing import Dict, List, Optional, Set, Tuple

from rules._siblings import kw_signature, priority_signature
from rules.c05 import EXPECTED_SIG
from sa.model import AnalysisError, Function, Repo, calls_in, const_str, dotted, norm, own_nodes, parent
from sa.match import Locals
from sa.report import Report


def _items_loops(fn: Function) -> List[Tuple[ast.For, str, str]]:
    """(loop, key variable, mapping text) for `for k, v in <m>.items()` loops."""
    out = []
    for n in own_nodes(fn.node):
        if not isinstance(n, ast.For):
            continue
        it = n.iter
        # `sorted(m.items())`, `list(m.items())`, `reversed(...)` still hand out the mapping's own keys
        while isinstance(it, ast.Call) and isinstance(it.func, ast.Name) and it.func.id in ("sorted", "list", "tuple", "reversed") and it.args:
            it = it.args[0]
        if isinstance(it, ast.Call) and isinstance(it.func, ast.Attribute) and it.func.attr == "items" \
                and isinstance(n.target, ast.Tuple) and len(n.target.elts) == 2 and isinstance(n.target.elts[0], ast.Name):
            out.append((n, n.target.elts[0].id, norm(it.func.value)))
    return out


def _strict_params(repo: Repo) -> Dict[str, Set[int]]:
    """callee name -> positions of parameters that are rejected (raise) unless they are `str`."""
    out: Dict[str, Set[int]] = {}
    for mn, mod in repo.modules.items():
        if not mn.startswith(("pyopenapi_gen.core.loader", "pyopenapi_gen.core.parsing")):
            continue
        for fn in mod.functions.values():
            if "." in fn.qualname:
                continue
            for n in own_nodes(fn.node):
                if isinstance(n, ast.If) and any(isinstance(s, ast.Raise) for s in n.body):
                    t = n.test
                    if isinstance(t, ast.UnaryOp) and isinstance(t.op, ast.Not) and isinstance(t.operand, ast.Call) and dotted(t.operand.func) == "isinstance" \
                            and len(t.operand.args) == 2 and norm(t.operand.args[1]) == "str" and isinstance(t.operand.args[0], ast.Name):
                        p = t.operand.args[0].id
                        if p in fn.params:
                            out.setdefault(fn.name, set()).add(fn.params.index(p))
    return out


def run(repo: Repo, rep: Report, tier: str) -> None:
    from sa.report import guarded as _guarded

    from rules._memo import persistent_memo_rule

    persistent_memo_rule(repo, rep, "R19.7", ("core.loader", "core.parsing"),
                         "The entry computed for the operation that happens to be parsed first (including the name of an inline schema promoted for it) is "
                         "then served to every other operation: which models exist depends on the order of `paths` in the document")
    # R19.8: a schema referenced before / after its declaration is the same model: references find the registered schema through the
    # raw-name index instead of parsing it again (which copy a property bound to depended on the order of components.schemas)  [= R2.15]
    from rules._registry import rule_raw_name_index

    _guarded(rep, rule_raw_name_index, repo, rep, "R19.8")
    _guarded(rep, rule_invented_names_are_order_free, repo, rep, "R19.9")
    _guarded(rep, rule_shared_variant_values_survive, repo, rep, "R19.12")
    _guarded(rep, rule_sibling_names_are_distinct, repo, rep, "R19.10")
    # R19.11: which of a made-up and an equally named declared schema survives must not depend on the declaration order: they never share a name  [= R2.17]
    from rules.c02 import rule_invented_names_avoid_declared

    _guarded(rep, rule_invented_names_avoid_declared, repo, rep, "R19.11")
    from rules.c02 import rule_all_of_merge_is_completed

    _guarded(rep, rule_all_of_merge_is_completed, repo, rep, "R19.13")
    # R19.14: a cycle placeholder (always `type="object"`) is bound to its target by the by-name lookup whatever kind the target has; which schema of a
    # cycle becomes the placeholder depends on declaration / property order                                                        [= R2.11]
    from rules.c02 import rule_name_fallback_respects_kind

    _guarded(rep, rule_name_fallback_respects_kind, repo, rep, "R19.14")
    strict = _strict_params(repo)
    rep.count("R19.1:type_strict_parser_parameters", {k: sorted(v) for k, v in strict.items()})
    # ---------------------------------------------------------------- R19.1
    n_sites = 0
    loader_mods = [m for m in repo.modules if m.startswith(("pyopenapi_gen.core.loader", "pyopenapi_gen.core.parsing.schema_parser", "pyopenapi_gen.core.parsing.keywords"))]
    live = set(repo.import_closure(["generator.client_generator"]))
    for mn in sorted(loader_mods):
        if mn not in live:
            continue
        mod = repo.modules[mn]
        for fn in mod.functions.values():
            for li, (loop, kvar, mtxt) in enumerate(_items_loops(fn)):
                # (a) key passed raw to a type-strict parser parameter
                for c in calls_in(loop):
                    name = c.func.id if isinstance(c.func, ast.Name) else (c.func.attr if isinstance(c.func, ast.Attribute) else None)
                    if name in strict:
                        for pos in strict[name]:
                            if pos < len(c.args):
                                from sa.match import Locals as _Loc

                                a = _Loc(fn.node).inline(c.args[pos], stop=(kvar,))
                                uses_key = any(isinstance(x, ast.Name) and x.id == kvar for x in ast.walk(a))
                                if not uses_key:
                                    continue
                                n_sites += 1
                                sub = f"{mod.relpath}:{fn.qualname} mapping key (items-loop #{li + 1}) -> {name}(arg {pos})"
                                if isinstance(a, ast.Call) and dotted(a.func) == "str":
                                    rep.ok("R19.1", sub, "normalised with str() before the type-strict parser sees it", fn.loc(c))
                                else:
                                    rep.violation("R19.1", sub, f"{fn.fq}|raw-key|{name}|arg{pos}",
                                                  f"the mapping key is passed as `{norm(a)}` to {name}, which raises unless it is a str: a YAML rendering "
                                                  "with unquoted numeric keys is rejected where the JSON rendering is accepted", fn.loc(c))
                # (b) key skipped/raised locally on its Python type
                for n in own_nodes(loop):
                    if isinstance(n, ast.If) and f"isinstance({kvar}, str)" in norm(n.test) and any(isinstance(s, (ast.Continue, ast.Raise)) for s in n.body):
                        n_sites += 1
                        sub = f"{mod.relpath}:{fn.qualname} mapping key (items-loop #{li + 1}) type test"
                        rep.violation("R19.1", sub, f"{fn.fq}|key-type-test|loop{li + 1}",
                                      f"entries whose key is not a Python str are {'skipped' if any(isinstance(s, ast.Continue) for s in n.body) else 'rejected'} "
                                      f"(`{norm(n.test)[:60]}`): a YAML key such as `123:` or `yes:` drops the entry that the JSON rendering \"123\" keeps", fn.loc(n))
    # (c) raw keys compared with each other: sorted()/min()/max() over the items / keys of a document mapping.  YAML gives `200:` as an
    #     int and `default:` as a str; ordering them raises TypeError, the JSON rendering (all str) loads fine.
    n_ord = 0
    for mn in sorted(loader_mods):
        if mn not in live:
            continue
        mod = repo.modules[mn]
        for fn in mod.functions.values():
            for c in calls_in(fn.node):
                if not (isinstance(c.func, ast.Name) and c.func.id in ("sorted", "min", "max") and c.args):
                    continue
                a0 = c.args[0]
                inner = a0
                while isinstance(inner, ast.Call) and isinstance(inner.func, ast.Name) and inner.func.id in ("cast", "list", "tuple", "dict") and inner.args:
                    inner = inner.args[-1]
                if not (isinstance(inner, ast.Call) and isinstance(inner.func, ast.Attribute) and inner.func.attr in ("items", "keys") and not inner.args):
                    continue
                n_ord += 1
                key = next((k.value for k in c.keywords if k.arg == "key"), None)
                sub = f"{mod.relpath}:{fn.qualname} `{norm(c)[:60]}`"
                if key is not None and "str(" in norm(key):
                    rep.ok("R19.1", sub, "keys are compared through str()", fn.loc(c))
                else:
                    rep.violation("R19.1", sub, f"{fn.fq}|raw-keys-ordered|{c.func.id}",
                                  f"`{norm(c)[:60]}` orders the raw keys of a document mapping: a YAML rendering with unquoted numeric status codes next to `default` / `4XX` "
                                  "yields int and str keys, the comparison raises TypeError and generation aborts where the JSON rendering succeeds", fn.loc(c))
    rep.count("R19.1:raw_key_orderings", n_ord)
    rep.count("R19.1:key_typing_sites", n_sites)
    rep.require(n_sites >= 2, f"R19.1: only {n_sites} key-typing sites found (floor 2)")

    _guarded(rep, rule_no_state_between_entries, repo, rep, "R19.6")
    # ---------------------------------------------------------------- R19.2 sibling call sites of parse_parameter
    po = repo.func("core.loader.operations.parser:parse_operations")
    pcs = [c for c in calls_in(po.node) if dotted(c.func) == "parse_parameter"]
    if len(pcs) < 2 and not any(any(dotted(c.func) == "parse_parameter" for c in calls_in(hf.node)) and sum(
            1 for c in calls_in(po.node) if isinstance(c.func, ast.Name) and c.func.id == q) >= 2 for q, hf in po.module.functions.items() if "." not in q and hf is not po):
        from sa.flatten import flatten as _fl192

        po = _fl192(po)  # the parameter merge moved into a helper that is called once: written out
        pcs = [c for c in calls_in(po.node) if dotted(c.func) == "parse_parameter"]
    via_helper = None
    if len(pcs) < 2:
        # both levels may go through one helper of the module (`_parse_parameter_nodes(nodes, context, operation_id)`): its call sites
        # are the sibling sites, everything but the node list (first argument) is the naming context
        for q, hf in po.module.functions.items():
            if "." in q or hf is po or not any(dotted(c.func) == "parse_parameter" for c in calls_in(hf.node)):
                continue
            hcalls = [c for c in calls_in(po.node) if isinstance(c.func, ast.Name) and c.func.id == q]
            if len(hcalls) >= 2:
                via_helper, pcs = q, hcalls
    rep.require(len(pcs) >= 2, f"R19.2: expected path-level and operation-level parse_parameter calls, found {len(pcs)}")
    if len(pcs) < 2:
        return
    sigs = {kw_signature(c) for c in pcs}
    kwvals = [dict({k.arg: norm(k.value) for k in c.keywords}, **({f"arg{i}": norm(a) for i, a in enumerate(c.args) if i >= 1} if via_helper else {})) for c in pcs]
    same_vals = all(kv == kwvals[0] for kv in kwvals)
    sub = f"{po.module.relpath}:parse_operations parse_parameter call sites"
    if len(sigs) == 1 and same_vals:
        rep.ok("R19.2", sub, f"all {len(pcs)} call sites pass {sorted(kwvals[0].items())}: promoted inline schemas are named per operation wherever the parameter is declared", po.loc(pcs[0]))
    else:
        rep.violation("R19.2", sub, f"{po.fq}|parse_parameter-kwargs|{sorted(str(sorted(kv.items())) for kv in kwvals)}",
                      f"path-level and operation-level parameters are parsed with different naming context {[sorted(kv.items()) for kv in kwvals]}: the name "
                      "(and, by first-registration-wins, the content) of a promoted inline enum/object depends on the order of `paths`", po.loc(pcs[0]))
    # the same for parse_response / parse_request_body: the promo context is the operation id
    from sa.match import Locals

    OL = Locals(po.node)
    opid_vars = {name for name, ds in OL.defs.items() for kind, v, _ in ds if v is not None and any(
        isinstance(x, ast.Constant) and x.value == "operationId" for x in ast.walk(v))}
    if not opid_vars:
        # the id may be derived by a helper of the module (`operation_id = _derive_operation_id(node_op, ...)`)
        helpers = {q for q, f in po.module.functions.items() if "." not in q and f is not po and any(
            isinstance(x, ast.Constant) and x.value == "operationId" for x in ast.walk(f.node))}
        opid_vars = {name for name, ds in OL.defs.items() for kind, v, _ in ds if isinstance(v, ast.Call) and isinstance(v.func, ast.Name) and v.func.id in helpers}
    rep.require(bool(opid_vars), "R19.2: the variable holding the operation id (read from 'operationId') was not found in parse_operations")
    for callee in ("parse_response", "parse_request_body"):
        for c in [c for c in calls_in(po.node) if dotted(c.func) == callee]:
            vals = {OL.root(x.id) for a in list(c.args) + [k.value for k in c.keywords] for x in ast.walk(a) if isinstance(x, ast.Name)}
            sub = f"{po.module.relpath}:parse_operations `{callee}(...)` naming context"
            if vals & opid_vars or any(OL.root(v) in opid_vars for v in vals):
                rep.ok("R19.2", sub, "inline schemas are promoted under the operation id", po.loc(c))
            else:
                rep.violation("R19.2", sub, f"{po.fq}|{callee}-context", f"{callee} is not given the operation id as naming context", po.loc(c))

    # ---------------------------------------------------------------- R19.5 recursion context threading (declaration-order independence)  [= R2.9]
    from rules.c02 import threading_rule

    threading_rule(repo, rep, "R19.5")

    # ---------------------------------------------------------------- R19.3
    for spec in ("types.strategies.response_strategy:ResponseStrategyResolver._get_primary_response",
                 "types.resolvers.response_resolver:OpenAPIResponseResolver._get_primary_response",
                 "helpers.endpoint_utils:_get_primary_response"):
        f = repo.func(spec)
        sig = priority_signature(f)
        if any(r[0] == "unknown" for r in sig):
            raise AnalysisError(f"R19.3: {f.qualname} contains a construct the selector normal form does not cover: `{[r for r in sig if r[0] == 'unknown'][0][1]}`")
        sub = f"{f.module.relpath}:{f.qualname} order-independence"
        # order-independent iff every rule before 'first' that can match more than one response is preceded by exact codes...
        prefix = [r for r in sig if r[0] == "eq"]
        if sig == EXPECTED_SIG:
            rep.ok("R19.3", sub, "exact status codes are tried in a fixed priority, each over all responses: the choice among 200/201/202/204 does not depend on key order", f.loc())
        else:
            rep.violation("R19.3", sub, f"{f.fq}|order-dependent|{sig}",
                          f"the primary response is selected by {sig}: for a document declaring several of 200/201/202/204 the result depends on the "
                          "order of the `responses` mapping (JSON vs re-ordered YAML give different return types)", f.loc())

    # ---------------------------------------------------------------- R19.4 loader dispatch
    sf = repo.module("core.spec_fetcher")
    loads = []
    for fn in sf.functions.values():
        for c in calls_in(fn.node):
            d = dotted(c.func) or ""
            if d.endswith(("json.loads", "json.load", "yaml.safe_load", "yaml.load", "yaml.full_load", "yaml.unsafe_load")):
                loads.append((fn, c, d))
    rep.require(len(loads) >= 2, f"R19.4: only {len(loads)} document load calls found in spec_fetcher (floor 2)")
    for fn, c, d in loads:
        sub = f"{sf.relpath}:{fn.qualname} `{d}`"
        if d.endswith(("json.loads", "json.load", "yaml.safe_load")):
            rep.ok("R19.4", sub, "standard loader (no custom scalar rewriting)", fn.loc(c))
        else:
            rep.violation("R19.4", sub, f"{fn.fq}|loader|{d}", f"`{d}` is not the safe standard loader", fn.loc(c))
    # a strict JSON parse (no YAML fallback behind it) may be selected by the declared content type, never by looking at the text:
    # flow-style YAML (`{openapi: 3.0.3, ...}`) starts like JSON and means the same document
    from sa.cfg import CFG as _CFG, guards as _guards2

    for fn in sf.functions.values():
        jl = [c for c in calls_in(fn.node) if (dotted(c.func) or "").endswith(("json.loads", "json.load")) and c.args and isinstance(c.args[0], ast.Name)]
        if not jl:
            continue
        cfg = _CFG(fn.node)
        dom = cfg.dominators()
        for c in jl:
            nd = [n for n in cfg.nodes if n.kind == "stmt" and n.ast is not None and not n.copy and any(x is c for x in calls_in(n.ast))]
            if not nd:
                continue
            text_var = c.args[0].id
            # is there a YAML attempt before this call on the same path (then this is the fallback, not the selection)?
            in_handler = any(isinstance(a, ast.ExceptHandler) for a in _anc(c))
            sniff = [g for g, pol in _guards2(cfg, nd[0].id, dom) if g.kind == "test" and pol is not None and any(isinstance(x, ast.Name) and x.id == text_var for x in ast.walk(g.ast))]
            sub = f"{sf.relpath}:{fn.qualname} strict JSON parse #{jl.index(c) + 1} is selected by metadata only"
            if sniff and not in_handler:
                rep.violation("R19.4", sub, f"{fn.fq}|format-sniffed",
                              f"`{norm(c)[:40]}` (without a YAML fallback) is chosen by inspecting the document text (`{norm(sniff[0].ast)[:70]}`): a YAML rendering that "
                              "merely looks like JSON (flow style) is rejected although it is the same document", fn.loc(c))
            else:
                rep.ok("R19.4", sub, "chosen from the content type / as the fallback after YAML", fn.loc(c))


def _anc(n: ast.AST):
    p = parent(n)
    while p is not None:
        yield p
        p = parent(p)


# ------------------------------------------------------------------------------------------------ R19.6 no state leaks from one entry to the next
def _loop_carried(fn: Function, loop: ast.For) -> List[Tuple[str, int]]:
    """(name, line) of reads inside `loop` of a local that the loop body assigns, reachable from the loop header without passing one of
    those assignments in the same iteration: the value then comes from an earlier entry (or from before the loop)."""
    from sa.cfg import CFG

    cfg = CFG(fn.node)
    hdr = [n.id for n in cfg.nodes if n.kind == "iter" and n.stmt is loop and not n.copy]
    if not hdr:
        return []
    h = hdr[0]
    inside = {id(x) for st in loop.body for x in ast.walk(st)}
    body_ids = {n.id for n in cfg.nodes if n.ast is not None and id(n.ast) in inside}
    assigned: Dict[str, Set[int]] = {}
    for n in cfg.nodes:
        if n.id in body_ids and n.kind == "stmt" and isinstance(n.ast, (ast.Assign, ast.AnnAssign)) and getattr(n.ast, "value", None) is not None:
            tgs = n.ast.targets if isinstance(n.ast, ast.Assign) else [n.ast.target]
            for t in tgs:
                for x in ast.walk(t):
                    if isinstance(x, ast.Name) and isinstance(x.ctx, ast.Store):
                        if any(isinstance(y, ast.Name) and y.id == x.id for y in ast.walk(n.ast.value)):
                            continue  # an accumulator (`x = f(x)`) is meant to be carried
                        assigned.setdefault(x.id, set()).add(n.id)
    targets = {x.id for x in ast.walk(loop.target) if isinstance(x, ast.Name)}
    starts = [m for m, lab in cfg.succ[h] if lab == "loop"]
    out: Set[Tuple[str, int]] = set()
    for name, defs in assigned.items():
        if name in targets:
            continue
        reach: Set[int] = set()
        for s in starts:
            if s not in defs:
                reach |= cfg.reachable_from_without(s, defs | {h}) | {s}
        for n in cfg.nodes:
            if n.id not in body_ids or n.ast is None or n.copy or n.id in defs or n.id not in reach:
                continue
            if n.kind == "stmt" and isinstance(n.ast, (ast.For, ast.While, ast.If, ast.Try, ast.With, ast.FunctionDef)):
                continue
            if any(isinstance(x, ast.Name) and x.id == name and isinstance(x.ctx, ast.Load) for x in ast.walk(n.ast)):
                out.add((name, n.ast.lineno))
    return sorted(out)


def rule_no_state_between_entries(repo: Repo, rep: Report, rule: str = "R19.6") -> None:
    """The fields of a model must not depend on the order in which the document lists the properties (or any other mapping entries).
    A local that the body of an items-loop assigns only on some paths and reads afterwards carries the value of the *previous* entry into
    the next one.  For every items-loop of the loader / schema parser: each read of a body-assigned local is preceded, in the same
    iteration, by an assignment on every path (CFG reachability from the loop header avoiding the assignments)."""
    n_loops = 0
    loader_mods = [m for m in repo.modules if m.startswith(("pyopenapi_gen.core.loader", "pyopenapi_gen.core.parsing.schema_parser", "pyopenapi_gen.core.parsing.keywords"))]
    live = set(repo.import_closure(["generator.client_generator"]))
    for mn in sorted(loader_mods):
        if mn not in live:
            continue
        mod = repo.modules[mn]
        for fn in mod.functions.values():
            for li, (loop, kvar, mtxt) in enumerate(_items_loops(fn)):
                n_loops += 1
                sub = f"{mod.relpath}:{fn.qualname} items-loop over `{mtxt[:40]}`"
                lc = _loop_carried(fn, loop)
                if lc:
                    names = sorted({n for n, _ in lc})
                    rep.violation(rule, sub, f"{fn.fq}|entry-state-leaks|{','.join(names)}",
                                  f"{names} can be read (line {lc[0][1]}) with the value left by an earlier entry: it is assigned in the loop body only on some paths. "
                                  "What is decided for one property (e.g. its nullability) then depends on which property the document lists before it, so two renderings "
                                  "of one document that differ only in key order give different models", fn.loc(loop))
                else:
                    rep.ok(rule, sub, "every local the body assigns is assigned before it is read in each iteration", fn.loc(loop))
    rep.count(f"{rule}:items_loops", n_loops)
    rep.require(n_loops >= 6, f"{rule}: only {n_loops} items-loops found in the loader / schema parser (floor 6)")


# ------------------------------------------------------------------------------------------------ R19.9 invented names do not depend on encounter order
def rule_invented_names_are_order_free(repo: Repo, rep, rule: str = "R19.9") -> None:
    """A schema without a name of its own (the inline `items` of an anonymous array) gets an invented one.  When that name is a *constant*
    base made unique by counting up against the registry (`AnonymousArrayItem`, `AnonymousArrayItem2`, ...), which schema receives which
    name is decided by the order in which the document is walked: reordering `paths` swaps the models behind the names (and the names in
    the signatures).  An invented name must be derived from the enclosing named context (schema / operation), not from a counter over
    what happens to be registered already."""
    sp = repo.module("core.parsing.schema_parser")
    n = 0
    for q, fn in sp.functions.items():
        L = Locals(fn.node)
        for w in [x for x in own_nodes(fn.node) if isinstance(x, ast.While)]:
            t = w.test
            if not (isinstance(t, ast.Compare) and len(t.ops) == 1 and isinstance(t.ops[0], ast.In) and isinstance(t.left, ast.Name)
                    and isinstance(t.comparators[0], ast.Attribute) and t.comparators[0].attr == "parsed_schemas"):
                continue
            var = t.left.id
            # the first definition of the name (before the counting loop)
            first = [v for k, v, st in L.defs.get(var, []) if v is not None and getattr(st, "lineno", 0) < w.lineno]
            consts: List[str] = []
            for v in first:
                vi = L.inline(v, stop=tuple(L.params))
                for b in ast.walk(vi):
                    if isinstance(b, ast.BoolOp) and isinstance(b.op, ast.Or):
                        consts += [c.value for c in b.values if isinstance(c, ast.Constant) and isinstance(c.value, str) and c.value]
            n += 1
            sub = f"{sp.relpath}:{q} name invented for an inline schema (counting loop #{n})"
            if consts:
                rep.violation(rule, sub, f"{fn.fq}|constant-base-numbered-in-encounter-order|{consts[0]}|#{n}",
                              f"when the enclosing schema has no name the base is the constant `{consts[0]}` and uniqueness comes from counting up against the registry: "
                              "with two anonymous arrays of objects, reordering `paths` swaps which item model is `…Item` and which `…Item2` (fields and signatures "
                              "trade places)", fn.loc(w))
            else:
                rep.ok(rule, sub, "the base of the invented name comes from the enclosing named context", fn.loc(w))
    rep.require(n >= 1, f"{rule}: no name-counting loop over parsed_schemas found in schema_parser (anchor)")
    # the same for names that collide with a name made up for another node: the second one in document order gets the number
    for q, fn in sp.functions.items():
        for w in [x for x in own_nodes(fn.node) if isinstance(x, ast.While)]:
            if any(isinstance(a, ast.Attribute) and a.attr.startswith("invented_") for a in ast.walk(w.test)) and any(
                    isinstance(st, ast.AugAssign) or (isinstance(st, ast.Assign) and isinstance(st.value, ast.JoinedStr)) for st in ast.walk(w)):
                rep.violation(rule, f"{sp.relpath}:{q} number given to the second of two inline schemas with one made-up name", f"{fn.fq}|colliding-made-up-names-numbered-in-encounter-order",
                              "two different inline schemas whose made-up names coincide (`Cat.details` / `Dog.details` below anonymous allOf members) are told apart by a number given in "
                              "document order: reordering `components.schemas` swaps which of the two is `Details` and which `Details2` (the fields stay with the right property)", fn.loc(w))


# ------------------------------------------------------------------------------------------------ R19.10 sibling properties get different invented names
def rule_sibling_names_are_distinct(repo: Repo, rep, rule: str = "R19.10") -> None:
    """An inline property schema that becomes a schema of its own (inline object, inline enum) is registered under a name invented from the
    parent schema's name and the property key.  `<Parent><Prop>` is one name per property; a form that *drops the parent prefix* when the
    key already starts with it (`Entry` + `entry_status` -> `EntryStatus`) collides with the sibling `status` (`Entry` + `status`), and the
    registry then hands the schema parsed first to both properties: which of the two inline schemas survives depends on the order of the
    `properties` block.  A prefix-less alternative is accepted only under a condition that looks at the sibling keys (the properties
    mapping itself), or where there is no parent name at all."""
    from sa.cfg import CFG, guards
    from rules._memo import name_closure

    pp = repo.func("core.parsing.schema_parser:_parse_properties")
    fn = pp
    L = Locals(fn.node)
    loops = [lp for lp in own_nodes(fn.node) if isinstance(lp, ast.For) and isinstance(lp.target, ast.Tuple) and len(lp.target.elts) == 2
             and isinstance(lp.iter, ast.Call) and isinstance(lp.iter.func, ast.Attribute) and lp.iter.func.attr == "items" and isinstance(lp.iter.func.value, ast.Name)
             and L.is_param(lp.iter.func.value.id)]
    if not loops or len(fn.params) < 2:
        raise AnalysisError(f"{rule}: the loop over `<properties>.items()` of _parse_properties was not found (anchor)")
    lp = loops[0]
    mapping = lp.iter.func.value.id
    key = lp.target.elts[0].id if isinstance(lp.target.elts[0], ast.Name) else None
    parent = next((p for p in fn.params if "parent" in p and "name" in p), None)
    if key is None or parent is None:
        raise AnalysisError(f"{rule}: property key / parent name parameter of _parse_properties not identified (anchor)")
    # names handed to _parse_schema as the schema's name
    calls = [c for c in calls_in(lp) if isinstance(c.func, ast.Name) and c.func.id == "_parse_schema" and c.args]
    name_vars = set()
    for c in calls:
        name_vars |= {x.id for x in ast.walk(c.args[0]) if isinstance(x, ast.Name)}
    # ... and the names a conditional expression selects between (`name = None if simple else contextual_name`); intermediate pieces
    # (`sanitized = sanitize(key)`) are judged where they are made the name (inlined into that statement)
    grew = True
    while grew:
        grew = False
        for _, v, _ in [d for nm in list(name_vars) for d in L.defs.get(nm, [])]:
            if isinstance(v, ast.IfExp):
                for b in (v.body, v.orelse):
                    if isinstance(b, ast.Name) and b.id not in name_vars:
                        name_vars.add(b.id)
                        grew = True
            elif isinstance(v, ast.Name) and v.id not in name_vars and len(L.defs.get(v.id, [])) > 1:
                # the same selection written with statements (`if simple: name = None else: name = contextual_name`): the source is itself a
                # name variable with several alternatives (a single-definition piece like `sanitized = sanitize(key)` is judged inlined)
                name_vars.add(v.id)
                grew = True
    name_vars = {v for v in name_vars if v not in fn.params and v != key}
    cfg = CFG(fn.node)
    dom = cfg.dominators()
    n = 0
    bad = []

    def mentions(e: ast.AST, name: str) -> bool:
        ei = L.inline(e, stop=tuple(L.params) + (key,))
        return any(isinstance(x, ast.Name) and x.id == name for x in ast.walk(ei))

    for nd in cfg.nodes:
        st = nd.ast
        if nd.kind != "stmt" or nd.copy or not (isinstance(st, ast.Assign) and len(st.targets) == 1 and isinstance(st.targets[0], ast.Name) and st.targets[0].id in name_vars):
            continue
        v = st.value
        if isinstance(v, ast.Constant) and v.value is None:
            continue
        if isinstance(v, ast.IfExp):
            continue  # a selection between other invented names (each judged where it is built)
        if not mentions(v, key):
            continue
        if any(isinstance(c, ast.Call) and isinstance(c.func, ast.Name) and c.func.id == "id" for c in ast.walk(L.inline(v, stop=tuple(L.params) + (key,)))):
            continue  # made unique by the identity of the node
        n += 1
        if mentions(v, parent):
            continue
        # prefix-less: acceptable without a parent name, or under a test that scans the sibling keys
        gs = [(g, pol) for g, pol in guards(cfg, nd.id, dom) if g.kind == "test" and pol is not None]
        no_parent = any((pol is False and norm(g.ast) == parent) or (pol is True and norm(g.ast) in (f"not {parent}", f"{parent} is None")) for g, pol in gs)
        scans = any(pol is True and any(isinstance(x, ast.comprehension) and any(isinstance(y, ast.Name) and y.id == mapping for y in ast.walk(x.iter))
                                        for x in ast.walk(g.ast)) for g, pol in gs)
        if not (no_parent or scans):
            bad.append(st)
    rep.count(f"{rule}:invented_name_definitions", n)
    rep.require(n >= 3, f"{rule}: only {n} definitions of invented schema names found in _parse_properties (floor 3)")
    sub = f"{pp.module.relpath}:_parse_properties names invented for inline property schemas"
    if bad:
        st = bad[0]
        rep.violation(rule, sub, f"{pp.fq}|prefixless-name-without-sibling-test|{st.targets[0].id}",
                      f"`{norm(st)[:70]}`: the parent prefix is dropped without looking at the sibling properties - `<Parent>_x` and `x` of one object get the same "
                      "invented name, the registry serves the schema parsed first to both, and reordering the properties changes which inline schema survives "
                      "(the other property is typed with the wrong model / enum)", fn.loc(st))
    else:
        rep.ok(rule, sub, f"{n} definition(s): every name carries the parent prefix, or drops it only after checking the sibling keys", fn.loc())


# ------------------------------------------------------------------------------------------------ R19.12 a rewritten slot of a shared schema is not read back
def rule_shared_variant_values_survive(repo: Repo, rep, rule: str = "R19.12") -> None:
    """`DiscriminatorEnumCollector` visits the discriminated unions in registry order (= order of components.schemas).  For each union it reads the
    discriminator value of every variant from `variant.properties[<prop>].enum` and then *replaces* that property of the variant schema by a
    reference to the union's unified enum.  A variant that belongs to two unions is the same object: the second union finds the rewritten slot
    (no `enum`), skips the variant, and its unified enum lacks that value - which union loses depends on the declaration order.  Decided: the
    function that overwrites `<schema>.properties[k]` and also reads `.enum` from that slot keeps what it read in a table on the collector
    (stored before the overwrite, consulted when the slot yields nothing) - or reading and rewriting live in different passes."""
    mod = repo.module("core.parsing.transformers.discriminator_enum_collector")
    cls = mod.classes.get("DiscriminatorEnumCollector")
    if cls is None:
        raise AnalysisError(f"{rule}: anchor vanished: DiscriminatorEnumCollector")
    n = 0
    for q, fn in sorted(cls.methods.items()):
        writes = [st for st in own_nodes(fn.node) if isinstance(st, ast.Assign) and any(
            isinstance(t, ast.Subscript) and isinstance(t.value, ast.Attribute) and t.value.attr == "properties" for t in st.targets)]
        if not writes:
            continue
        slot_vars = set()
        for st in own_nodes(fn.node):
            if isinstance(st, ast.Assign) and len(st.targets) == 1 and isinstance(st.targets[0], ast.Name):
                v = st.value
                if (isinstance(v, ast.Subscript) and isinstance(v.value, ast.Attribute) and v.value.attr == "properties") or \
                        (isinstance(v, ast.Call) and isinstance(v.func, ast.Attribute) and v.func.attr == "get" and isinstance(v.func.value, ast.Attribute) and v.func.value.attr == "properties"):
                    slot_vars.add(st.targets[0].id)
        reads = [x for x in ast.walk(fn.node) if isinstance(x, ast.Attribute) and x.attr == "enum" and isinstance(x.value, ast.Name) and x.value.id in slot_vars]
        if not reads:
            continue
        n += 1
        sub = f"{mod.relpath}:DiscriminatorEnumCollector.{q} reads `.enum` from a property slot it rewrites"
        stored = {t.func.value.attr for t in calls_in(fn.node) if isinstance(t.func, ast.Attribute) and t.func.attr == "setdefault" and isinstance(t.func.value, ast.Attribute)
                  and isinstance(t.func.value.value, ast.Name) and t.func.value.value.id == "self"}
        stored |= {t.value.attr for st in own_nodes(fn.node) if isinstance(st, ast.Assign) for t in st.targets if isinstance(t, ast.Subscript) and isinstance(t.value, ast.Attribute)
                   and isinstance(t.value.value, ast.Name) and t.value.value.id == "self"}
        fetched = {t.func.value.attr for t in calls_in(fn.node) if isinstance(t.func, ast.Attribute) and t.func.attr == "get" and isinstance(t.func.value, ast.Attribute)
                   and isinstance(t.func.value.value, ast.Name) and t.func.value.value.id == "self"}
        fetched |= {x.value.attr for x in ast.walk(fn.node) if isinstance(x, ast.Subscript) and isinstance(x.ctx, ast.Load) and isinstance(x.value, ast.Attribute)
                    and isinstance(x.value.value, ast.Name) and x.value.value.id == "self"}
        # the table must be filled before the first overwrite of the slot
        first_write = min(w.lineno for w in writes)
        early = {t.func.value.attr for t in calls_in(fn.node) if isinstance(t.func, ast.Attribute) and t.func.attr == "setdefault" and isinstance(t.func.value, ast.Attribute)
                 and isinstance(t.func.value.value, ast.Name) and t.func.value.value.id == "self" and t.lineno < first_write}
        early |= {t.value.attr for st in own_nodes(fn.node) if isinstance(st, ast.Assign) and st.lineno < first_write for t in st.targets if isinstance(t, ast.Subscript)
                  and isinstance(t.value, ast.Attribute) and isinstance(t.value.value, ast.Name) and t.value.value.id == "self"}
        kept = (stored & fetched & early) - {"schemas", "unified_enums"}
        if kept:
            rep.ok(rule, sub, f"the values read are kept per variant in self.{sorted(kept)[0]} before the slot is overwritten and consulted when the slot has none", fn.loc(reads[0]))
        else:
            rep.violation(rule, sub, f"{fn.fq}|rewritten-slot-read-back",
                          "the variant schemas are shared between unions and visited in registry order: after the first union replaced the property, the second one finds no `enum` in it, "
                          "skips the variant and its unified enum lacks the value - which union is complete depends on the order of components.schemas", fn.loc(writes[0]))
    if n == 0:
        rep.ok(rule, f"{mod.relpath}:DiscriminatorEnumCollector", "no method both reads `.enum` from a property slot and rewrites such a slot (separate passes)", cls.loc() if hasattr(cls, "loc") else f"{mod.relpath}:1")
