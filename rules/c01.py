"""C01 - every accepted spec yields a package that compiles and imports.

That every emitted file parses/imports for every spec is a statement about generator runs and is not decided. Decided
(necessary conditions on the emit code):

R1.1  import obligations: every emit of a template that mentions a runtime/typing symbol from the frozen table has the
      registration of its import on every CFG path through it (all emit modules; the response handler is R5.3)
R1.3  alias agreement: every status for which the handler raises an alias class has an alias class        [= R6.4]
R1.4  constant templates are Python: CONFIG_TEMPLATE, the core / auth / mocks __init__ line lists and the wrapper-class
      block templates parse once their holes are replaced by identifiers
R1.5  re-exports resolve: every `from .X import N` of the constant core/auth __init__ templates names a shipped
      runtime module that defines N, and every name in a constant __all__ is imported above it
R1.6  a quoted forward reference is never an operand of `|` (`"Node" | None` cannot be evaluated): optional forward references are quoted as a whole
R1.7  writer typestate: indent()/dedent() are balanced on every path of every emitting function (enumerated exception:
      the signature generator leaves +1 that the method generator closes)
R1.8  de-collision precedes emission and the set of schemas that get files is the set that is exported/imported: a
      file filter after naming must be unsatisfiable or be applied to the registry the exports are rendered from
R1.14 the arms written for secondary responses emit `return <value>` only when the operation is not streaming (no value-return in an async generator)
R1.13 the parameter list a signature is rendered from is sorted required-first as the last step (no element is added after the sort)
R1.12 spec text placed after a `#` has every line boundary removed (otherwise the rest of the description is parsed as code)  [= R15.1, COMMENT holes]
R1.11 RenderContext's completion of "incomplete" internal module paths never applies to a module of the core package
R1.10 the tag client modules client.py imports are the ones the endpoints emitter writes (grouping agreement, rules of C07)
R1.25 every signature builder de-collides the argument names it derives from the operation's parameters (duplicate arguments do not compile)   [= R20.14; finding]
R1.24 a model class never takes a name the endpoint modules import and use (the Protocol base, the exception aliases): the module would not import          [= R20.13]
R1.23 the regenerated exception-alias module imports ClientError and ServerError unconditionally (it defines aliases for all clients of the core)  [= R11.4]
R1.22 a method of the render context that registers imports is never skipped on account of a record that outlives the per-file reset of the import collector
R1.16 the overload signatures (parameters in document order) carry no default in front of the keyword-only `*`
R1.15 enum members of one class get pairwise distinct names (duplicate member = TypeError at import)            [= R20.2, enum members]
R1.17 a schema object outside the registry (property stub) that is given a class name is given its module stem in the same place
R1.18 imports executed when a shipped runtime module is imported (module level, not optional) are stdlib / httpx / cattrs / relative
R1.19 the import of a referenced model is deferred when the reference closes a cycle between model modules            [finding on the pinned tree]
R1.21 no dataclass field can have the name of a lower-case import the model module uses in the class body (date, field, ...)
R1.9  duplicate argument names cannot be emitted (operation-level override + de-dup)                     [= R4.4 / R20.2]
"""
from __future__ import annotations

import ast
from typing import Dict, List, Optional, Set, Tuple

from rules import c05, c06
from rules.c12 import runtime_files
from rules.c20 import _dedup_site
from sa.cfg import CFG, forward
from sa.model import AnalysisError, Function, Module, Repo, calls_in, const_str, dotted, full, norm, own_nodes, parent
from sa.report import Report
from sa.templates import HOLE, template_of

EMIT_MODULES = ("pyopenapi_gen.visit", "pyopenapi_gen.core.writers", "pyopenapi_gen.emitters")
# symbol as it appears in a code line -> name that must be registered (add_import second argument / add_plain_import / typing helper)
SYMBOLS = {
    "@dataclass": "dataclass", "field(default_factory": "field", "@unique": "unique", "(Enum)": "Enum", "(str, Enum)": "Enum", "(int, Enum)": "Enum", ", Enum):": "Enum",
    "@runtime_checkable": "runtime_checkable", "(Protocol)": "Protocol", "if TYPE_CHECKING:": "TYPE_CHECKING", "@overload": "overload",
    ": TypeAlias": "TypeAlias", "Annotated[": "Annotated", "cast(": "cast", "HttpTransport": "HttpTransport", "DataclassSerializer.": "DataclassSerializer",
    "structure_from_dict(": "structure_from_dict", "ClientConfig": "ClientConfig", "AsyncIterator[": "AsyncIterator", " quote(": "quote",
}
TYPING_HELPER = {"add_typing_imports_for_type"}
# callee summaries for the shared writer (verified by R1.7 on the callee itself: generate_signature must exit at +1)
NET_EFFECT = {"generate_signature": 1}


def run(repo: Repo, rep: Report, tier: str) -> None:
    from sa.report import guarded as _guarded

    live = repo.import_closure(["generator.client_generator"])
    mods = [m for m in live if m.startswith(EMIT_MODULES)]
    # ---------------------------------------------------------------- R1.1
    n_sites = 0
    for mn in mods:
        mod = repo.modules[mn]
        if mn.endswith("response_handler_generator"):
            continue  # R5.3
        for fn in mod.functions.values():
            if "<locals>" in fn.qualname:
                continue
            n_sites += _obligations(repo, fn, rep)
    rep.count("R1.1:emit_sites_with_symbols", n_sites)
    rep.require(n_sites >= 25, f"R1.1: only {n_sites} emit sites mentioning table symbols found (floor 25)")
    hmod = repo.module(c05.HANDLER)
    n5 = 0
    for fn in hmod.functions.values():
        if fn.cls is not None:
            n5 += c05._import_obligations(fn, _Relabel(rep, "R1.1"))
    rep.count("R1.1:handler_emit_sites", n5)

    _guarded(rep, rule_completion_spares_core, repo, rep, "R1.11")
    _guarded(rep, rule_required_first, repo, rep, "R1.13")
    _guarded(rep, rule_no_default_before_star, repo, rep, "R1.16")
    _guarded(rep, rule_no_value_return_in_stream, repo, rep, "R1.14")
    _guarded(rep, rule_named_stub_has_module, repo, rep, "R1.17")
    _guarded(rep, rule_cyclic_model_imports, repo, rep, "R1.19")
    _guarded(rep, rule_fields_do_not_shadow_imports, repo, rep, "R1.21")
    _guarded(rep, rule_import_registration_not_memoised, repo, rep, "R1.22")
    _guarded(rep, rule_resolver_types_are_registered, repo, rep, "R1.26")
    from rules.c20 import rule_signature_builders_decollide

    _guarded(rep, rule_signature_builders_decollide, repo, rep, "R1.25")
    from rules.c20 import rule_models_spare_endpoint_names

    _guarded(rep, rule_models_spare_endpoint_names, repo, rep, "R1.24")
    from rules.c12 import rule_import_time_imports

    _guarded(rep, rule_import_time_imports, repo, rep, "R1.18")
    # R1.12: nothing that ends a source line survives into a `# comment` built from spec text (instances of R15.1 in COMMENT position)
    from rules._reuse import reuse as _reuse112

    _reuse112(repo, rep, "c15", {"R15.1": "R1.12"}, only=lambda subj: " in COMMENT of " in subj)
    # ---------------------------------------------------------------- R1.3
    # every alias class an endpoints module imports is defined by the alias emitters (rule instances of C06/R6.4, with its fallbacks)
    from rules._reuse import reuse as _reuse13

    _reuse13(repo, rep, "c06", {"R6.4": "R1.3"})

    # ---------------------------------------------------------------- R1.4 / R1.5 constant templates
    _constant_templates(repo, rep)

    # exception_aliases.py: the exported alias names are regenerated together with the alias code (shared core)
    from rules import c11

    c11.check_emit_regeneration(repo, _Relabel(rep, "R1.5"), "R1.5")

    # ---------------------------------------------------------------- R1.7 writer typestate
    n_fn = 0
    for mn in mods:
        mod = repo.modules[mn]
        for fn in mod.functions.values():
            if "<locals>" in fn.qualname:
                continue
            if mn.endswith(("code_writer", "line_writer", "documentation_writer")):
                continue  # the writer implementations themselves / throw-away column-alignment writers
            has_calls = any(isinstance(c.func, ast.Attribute) and c.func.attr in ("indent", "dedent") and not c.args for c in calls_in(fn.node))
            if fn.name in NET_EFFECT and not has_calls and "writer" in fn.params:
                rep.violation("R1.7", f"{mod.relpath}:{fn.qualname} indent contract", f"{fn.fq}|net-effect-missing",
                              f"callers rely on this function leaving the shared writer at +{NET_EFFECT[fn.name]} (method body open), but it never indents: "
                              "the method body is emitted at the indentation of the `def` line (IndentationError)", fn.loc())
            if has_calls:
                n_fn += 1
                _indent_balance(fn, rep)
    rep.count("R1.7:functions_with_indent_calls", n_fn)
    rep.require(n_fn >= 15, f"R1.7: only {n_fn} emitting functions with indent/dedent found (floor 15)")

    # ---------------------------------------------------------------- R1.8
    _models_emitter_rules(repo, rep)

    # ---------------------------------------------------------------- R1.10 client.py imports exactly the tag modules that are written
    # (tag grouping / canonical spelling agreement between EndpointsEmitter and ClientVisitor, no filter between grouping and emission: C07)
    from rules._reuse import reuse

    reuse(repo, rep, "c07", {"R7.4": "R1.10", "R7.5": "R1.10"})
    # R1.23: the alias module of a shared core is regenerated for the codes of *all* its clients; the base classes it derives from are imported
    # whatever the current document declares (else `class InternalServerError(ServerError)` without the import: the core cannot be imported) [= R11.4]
    reuse(repo, rep, "c11", {"R11.4": "R1.23"})

    # ---------------------------------------------------------------- R1.6 a quoted forward reference is never an operand of `|`
    # `"Node" | None` is evaluated when the dataclass is created: str | None raises TypeError, the model module cannot be imported.
    from sa.report import with_flatten_fallback

    with_flatten_fallback(rep, repo.func("types.services.type_service:UnifiedTypeService._format_resolved_type"), _rule_1_6)

    # ---------------------------------------------------------------- R1.9
    _dedup_site(repo.func("visit.endpoint.processors.parameter_processor:EndpointParameterProcessor.process_parameters"), "operation parameters",
                "param_details_map", _Relabel(rep, "R1.9"))
    from rules.c20 import rule_stored_names_are_fixed_points

    rule_stored_names_are_fixed_points(repo, _Relabel(rep, "R1.9"), "R1.9")
    # R1.15: two members of one generated Enum never get the same name (a duplicate member raises TypeError when the class is created:
    # the models package cannot be imported)                                                                       [= R20.2, enum members]
    _dedup_site(repo.func("visit.model.enum_generator:EnumGenerator.generate"), "enum members", "processed_member_names", _Relabel(rep, "R1.15"))
    po = repo.func("core.loader.operations.parser:parse_operations")
    from rules._params import override_merge_keys

    keys = override_merge_keys(po)
    if keys is not None and keys <= {"name", "param_in"}:
        rep.ok("R1.9", f"{po.module.relpath}:parse_operations", "operation-level parameter overrides the path-level one: no parameter is declared twice", po.loc())
    else:
        rep.violation("R1.9", f"{po.module.relpath}:parse_operations", f"{po.fq}|no-merge",
                      "a parameter declared at path and operation level is emitted twice: `def f(self, id_: str, id_: int)` does not compile", po.loc())


def _rule_1_6(ts: Function, rep) -> None:
    from sa.cfg import guards as _g16
    from sa.match import Locals as _L16

    tcfg = CFG(ts.node)
    tdom = tcfg.dominators()
    TL = _L16(ts.node)
    n16 = 0

    def alternatives(e: ast.AST, conds):
        """(expression, [(test, polarity)]) for every arm of (nested) conditional expressions"""
        if isinstance(e, ast.IfExp):
            return alternatives(e.body, conds + [(e.test, True)]) + alternatives(e.orelse, conds + [(e.test, False)])
        return [(e, conds)]

    def appends_none(e: ast.AST):
        """the variable `v` when `e` is `<v> + " | None"` / f"{v} | None" not starting with a quote, else None"""
        t = template_of(e)
        if t is None or not t.parts:
            return None
        last, first = t.parts[-1], t.parts[0]
        if not (isinstance(last, str) and last.rstrip().endswith("| None")):
            return None
        if isinstance(first, str) and first.startswith('"'):
            return None
        holes = [p_ for p_ in t.parts if not isinstance(p_, str)]
        if len(holes) == 1 and isinstance(holes[0], ast.Name):
            return holes[0].id
        return None

    for nd in tcfg.nodes:
        if nd.kind != "stmt" or not isinstance(nd.ast, (ast.Assign, ast.Return)) or nd.copy or nd.ast.value is None:
            continue
        for expr, conds in alternatives(nd.ast.value, []):
            var = appends_none(expr)
            if var is None:
                continue
            n16 += 1
            safe = False
            gl = [(g.ast, pol) for g, pol in _g16(tcfg, nd.id, tdom) if g.kind == "test" and pol is not None] + conds
            for t, pol in gl:
                ti = TL.inline(t, stop=tuple(TL.params) + (var,))
                # the quoted-name test may be one conjunct of the inlined condition; on the false side of a conjunction nothing is known
                # about a single conjunct unless the condition *is* that conjunct or a conjunction evaluated as a whole flag (`is_quoted_name`)
                mentions_quote = any(isinstance(c, ast.Call) and isinstance(c.func, ast.Attribute) and c.func.attr == "startswith" and isinstance(c.func.value, ast.Name)
                                     and c.func.value.id == var and c.args and const_str(c.args[0]) == '"' for c in ast.walk(ti))
                if mentions_quote and pol is False:
                    safe = True  # we are on the branch where the type string is NOT a quoted name
            sub = f"{ts.module.relpath}:_format_resolved_type appends `| None` (#{n16})"
            if safe:
                rep.ok("R1.6", sub, f"`{norm(expr)[:60]}` runs only where `{var}` is not a quoted forward reference (that case is quoted as a whole)", ts.loc(nd.ast))
            else:
                rep.violation("R1.6", sub, f"{ts.fq}|quoted-operand-of-union",
                              f"`{norm(expr)[:60]}` can produce `\"Name\" | None`: evaluating the annotation raises TypeError (str | None), so a model with an "
                              "optional reference to itself (or to a schema in an import cycle) cannot be imported", ts.loc(nd.ast))
    rep.require(n16 >= 1, "R1.6: the statement that appends `| None` was not found in _format_resolved_type (anchor)")


class _Relabel:
    def __init__(self, rep: Report, rule: str):
        self.rep, self.rule = rep, rule

    def ok(self, rule, *a, **k):
        self.rep.ok(self.rule, *a, **k)

    def violation(self, rule, *a, **k):
        self.rep.violation(self.rule, *a, **k)

    def require(self, *a, **k):
        self.rep.require(*a, **k)

    def error(self, *a, **k):
        self.rep.error(*a, **k)

    def count(self, *a, **k):
        pass


class _Quiet(_Relabel):
    def __init__(self):
        pass

    def ok(self, *a, **k):
        pass

    def violation(self, *a, **k):
        pass

    def require(self, *a, **k):
        pass

    def error(self, *a, **k):
        pass


from rules._imports import import_names as _import_names, registration_nodes as _registration_nodes


def _registered(fn: Function, cfg: CFG) -> Dict[str, Set[int]]:
    from sa.match import Locals as _Locals

    L = _Locals(fn.node)
    out: Dict[str, Set[int]] = {}
    for n in cfg.nodes:
        if n.kind not in ("stmt",) or n.ast is None:
            continue
        for c in calls_in(n.ast):
            if not isinstance(c.func, ast.Attribute):
                continue
            a = c.func.attr
            if a in ("add_import", "add_conditional_import", "add_plain_import"):
                for nm in _import_names(c, L):
                    out.setdefault(nm, set()).update(_registration_nodes(cfg, n, c))
            elif a in TYPING_HELPER and c.args:
                t = template_of(c.args[0], fn.node)
                txt = t.text if t is not None else ""
                for sym in ("AsyncIterator", "Annotated", "TypeAlias", "Protocol", "cast", "Any", "Optional", "Callable", "Literal"):
                    if sym in txt:
                        out.setdefault(sym, set()).add(n.id)
    return out


def _obligations(repo: Repo, fn: Function, rep: Report) -> int:
    lines = []
    cfg: Optional[CFG] = None
    for c in calls_in(fn.node):
        if isinstance(c.func, ast.Attribute) and c.func.attr in ("write_line", "write_block") and c.args:
            t = template_of(c.args[0], fn.node)
            if t is None:
                continue
            for sym, name in SYMBOLS.items():
                if sym in t.text:
                    lines.append((c, t.text, sym, name))
    if not lines:
        return 0
    cfg = CFG(fn.node)
    regs = _registered(fn, cfg)
    dom = cfg.dominators()
    pdom = cfg.dominators(reverse=True)
    n = 0
    for c, txt, sym, name in lines:
        nodes = [x for x in cfg.nodes if x.kind == "stmt" and x.ast is not None and not x.copy and any(cc is c for cc in calls_in(x.ast))]
        if not nodes:
            continue
        nd = nodes[0]
        # symbols inside docstring/comment lines of generated code are not uses
        stripped = txt.strip()
        if stripped.startswith(("#", '"""')) or (sym in ("HttpTransport", "ClientConfig") and ("Uses HttpTransport" in txt or stripped.startswith(("config", "transport")) and "(" not in stripped)):
            continue
        n += 1
        sub = f"{fn.module.relpath}:{fn.qualname} emits `{stripped.replace(HOLE, '{}')[:50]}` needs `{name}`"
        rnodes = regs.get(name, set())
        covered = any(r in dom[nd.id] or r in pdom[nd.id] or r == nd.id for r in rnodes)
        if not covered:
            covered = any(_list_guard_correlated(cfg, r, nd, dom) for r in rnodes)
        if covered:
            rep.ok("R1.1", sub, f"`{name}` is registered on every path through this emit", fn.loc(c))
            continue
        # obligation may be discharged by the (single) caller inside the same class / module
        discharged = _caller_discharges(repo, fn, name)
        if discharged:
            rep.ok("R1.1", sub, f"`{name}` is registered by the caller {discharged} on every path to this function", fn.loc(c))
        else:
            rep.violation("R1.1", sub, f"{fn.fq}|missing-import|{name}|{stripped.replace(HOLE, '{}')[:40]}",
                          f"the emitted code uses `{name}`, but its import is not registered on every path through this emit (nor by the callers): the "
                          "generated module raises NameError / ImportError", fn.loc(c))
    return n


def _list_guard_correlated(cfg: CFG, reg_node: int, emit_node, dom) -> bool:
    """registration under `if L:` and the emit inside `for x in L:` (emits happen only when L is non-empty)."""
    from sa.cfg import guards as _guards

    gs = [(g, p) for g, p in _guards(cfg, reg_node, dom) if g.kind == "test"]
    if len(gs) != 1 or gs[0][1] is not True or not isinstance(gs[0][0].ast, ast.Name):
        return False
    lst = gs[0][0].ast.id
    loops = [cfg.nodes[d] for d in dom[emit_node.id] if cfg.nodes[d].kind == "iter" and isinstance(cfg.nodes[d].ast, ast.Name) and cfg.nodes[d].ast.id == lst]
    # the registration precedes the loop
    return bool(loops) and all(reg_node not in cfg.reachable(l.id) or True for l in loops) and all(cfg.nodes[reg_node].lineno < l.lineno for l in loops)


def _caller_discharges(repo: Repo, fn: Function, name: str) -> Optional[str]:
    """All call sites of fn (by method name within the emit modules) are dominated by a registration of `name`."""
    callers = []
    for mn, mod in repo.modules.items():
        if not mn.startswith(EMIT_MODULES):
            continue
        for g in mod.functions.values():
            if g is fn or "<locals>" in g.qualname:
                continue
            for c in calls_in(g.node):
                nm = c.func.attr if isinstance(c.func, ast.Attribute) else (c.func.id if isinstance(c.func, ast.Name) else None)
                if nm == fn.name:
                    callers.append((g, c))
    if not callers:
        return None
    names = []
    for g, c in callers:
        cfg = CFG(g.node)
        regs = _registered(g, cfg)
        dom = cfg.dominators()
        pdom = cfg.dominators(reverse=True)
        nodes = [x for x in cfg.nodes if x.kind in ("stmt", "test", "iter") and x.ast is not None and not x.copy and any(cc is c for cc in calls_in(x.ast) + ([x.ast] if isinstance(x.ast, ast.Call) else []))]
        if not nodes:
            return None
        nd = nodes[0]
        if not any(r in dom[nd.id] or r in pdom[nd.id] or r == nd.id for r in regs.get(name, set())):
            return None
        names.append(g.qualname)
    return ", ".join(sorted(set(names)))


def _constant_templates(repo: Repo, rep: Report) -> None:
    rts = runtime_files(repo)
    shipped: Dict[str, Module] = {}
    for modname, filename, dst, _ in rts:
        dn = f"{modname}.{filename[:-3]}"
        if dn in repo.modules:
            shipped[dst.replace("core/", "", 1)[:-3].replace("/", ".")] = repo.modules[dn]
    ce = repo.module("emitters.core_emitter")
    # CONFIG_TEMPLATE
    for st in ce.tree.body:
        if isinstance(st, ast.Assign) and isinstance(st.targets[0], ast.Name) and st.targets[0].id == "CONFIG_TEMPLATE":
            src = const_str(st.value) or ""
            _parses(rep, f"{ce.relpath}:CONFIG_TEMPLATE", src, f"{ce.relpath}:{st.lineno}")
            try:
                t = ast.parse(src)
                defined = {n.name for n in t.body if isinstance(n, ast.ClassDef)}
            except SyntaxError:
                defined = set()
            shipped_config_defs = defined
    emit = repo.func("emitters.core_emitter:CoreEmitter.emit")
    # the two `__init__.py` line lists (found by what they are - a list literal of constant lines with relative imports and `__all__` - in
    # emit or a helper of the emitter it was moved to; the auth one is the one importing `.base`)
    init_lists = []

    def _is_init_lines(n: ast.AST) -> bool:
        return isinstance(n, (ast.Assign, ast.AnnAssign)) and isinstance(getattr(n, "value", None), (ast.List, ast.Tuple)) and bool(n.value.elts) and all(
            const_str(e) is not None for e in n.value.elts[:3]) and any((const_str(e) or "").startswith("from .") for e in n.value.elts) and any(
            "__all__" in (const_str(e) or "") for e in n.value.elts)

    for f_ in emit.module.functions.values():
        for n in own_nodes(f_.node):
            if _is_init_lines(n):
                init_lists.append((f_, n))
    for n in emit.module.tree.body:  # ... or module-level constants of the emitter (`AUTH_INIT_LINES = (...)`)
        if _is_init_lines(n):
            init_lists.append((emit, n))
    for var, label, base in (("core_init_content", "core __init__", ""), ("auth_init_content", "auth __init__", "auth.")):
        is_auth = label.startswith("auth")
        lists = [n for f_, n in init_lists if any((const_str(e) or "").startswith("from .base import") for e in n.value.elts) == is_auth]
        rep.require(len(lists) == 1, f"R1.4: {var} list literal not found in CoreEmitter.emit")
        for ls in lists:
            lines = [const_str(e) for e in ls.value.elts]
            if any(l is None for l in lines):
                rep.error(f"R1.4: {var} contains non-constant lines")
                continue
            src = "\n".join(lines) + ("\n]" if "__all__ = [" in "\n".join(lines) and not "\n".join(lines).rstrip().endswith("]") else "")  # type: ignore[arg-type]
            _parses(rep, f"{ce.relpath}:CoreEmitter.emit {label} template", src, emit.loc(ls))
            try:
                tree = ast.parse(src)
            except SyntaxError:
                continue
            imported: Set[str] = set()
            for n in tree.body:
                if isinstance(n, ast.ImportFrom) and n.level == 1:
                    target = base + (n.module or "")
                    for a in n.names:
                        sub = f"{label}: `from .{n.module} import {a.name}`"
                        if a.name == "*":
                            imported.add("*")
                            if (n.module or "") in ("exception_aliases",):
                                rep.ok("R1.5", sub, "generated by ExceptionsEmitter into the core directory", emit.loc(ls))
                            continue
                        imported.add(a.name)
                        if target in shipped:
                            defs = _module_defs(shipped[target])
                            if a.name in defs:
                                rep.ok("R1.5", sub, f"defined in shipped runtime module {shipped[target].relpath}", emit.loc(ls))
                            else:
                                rep.violation("R1.5", sub, f"reexport-undefined|{label}|{target}|{a.name}",
                                              f"`{a.name}` is re-exported from `.{n.module}` but the shipped module {shipped[target].relpath} does not define it: "
                                              "importing the core package raises ImportError", emit.loc(ls))
                        elif (n.module or "") == "config":
                            if a.name in shipped_config_defs:
                                rep.ok("R1.5", sub, "defined by CONFIG_TEMPLATE", emit.loc(ls))
                            else:
                                rep.violation("R1.5", sub, f"reexport-undefined|{label}|config|{a.name}", f"CONFIG_TEMPLATE does not define `{a.name}`", emit.loc(ls))
                        else:
                            rep.violation("R1.5", sub, f"reexport-unshipped|{label}|{target}", f"`.{n.module}` is not a shipped runtime module", emit.loc(ls))
            for n in tree.body:
                if isinstance(n, ast.Assign) and any(isinstance(t, ast.Name) and t.id == "__all__" for t in n.targets) and isinstance(n.value, ast.List):
                    for e in n.value.elts:
                        nm = const_str(e)
                        sub = f"{label}: __all__ entry `{nm}`"
                        if nm in imported:
                            rep.ok("R1.5", sub, "imported above", emit.loc(ls))
                        else:
                            rep.violation("R1.5", sub, f"all-unresolved|{label}|{nm}", f"`{nm}` is listed in __all__ but never imported in the template", emit.loc(ls))
    # block templates (wrapper classes): parse with holes replaced
    dg = repo.module("visit.model.dataclass_generator")
    n_blocks = 0
    for fn in dg.functions.values():
        for n in own_nodes(fn.node):
            if isinstance(n, ast.JoinedStr):
                t = template_of(n)
                if t is not None and t.text.count("\n") >= 10 and "class " in t.text:
                    n_blocks += 1
                    src = ""
                    for p in t.parts:
                        src += p if isinstance(p, str) else "H_"
                    _parses(rep, f"{dg.relpath}:{fn.qualname} block template", src, fn.loc(n))
    rep.require(n_blocks >= 2, f"R1.4: only {n_blocks} wrapper-class block templates found (floor 2)")


def _module_defs(mod: Module) -> Set[str]:
    out = set(mod.classes) | {q for q in mod.functions if "." not in q}
    for st in mod.tree.body:
        if isinstance(st, (ast.Assign, ast.AnnAssign)):
            tg = st.targets[0] if isinstance(st, ast.Assign) else st.target
            if isinstance(tg, ast.Name):
                out.add(tg.id)
        if isinstance(st, ast.ImportFrom):
            out |= {a.asname or a.name for a in st.names}
    return out


def _parses(rep: Report, sub: str, src: str, loc: str) -> None:
    try:
        ast.parse(src)
        rep.ok("R1.4", sub, f"the constant template ({len(src.splitlines())} lines, holes as identifiers) is valid Python", loc)
    except SyntaxError as e:
        rep.violation("R1.4", sub, f"template-syntax|{sub}|{e.msg}", f"the constant template does not parse: {e.msg} at template line {e.lineno}", loc)


def _indent_balance(fn: Function, rep: Report) -> None:
    cfg = CFG(fn.node)
    writers: Set[str] = set()
    for c in calls_in(fn.node):
        if isinstance(c.func, ast.Attribute) and c.func.attr in ("indent", "dedent") and not c.args:
            writers.add(norm(c.func.value))
    for w in sorted(writers):
        shared = w in fn.params or w.startswith("self.")
        if not shared:
            # a writer created in this function: its final depth is irrelevant (the code is returned), but it must never go negative
            pass

        # flags: plain local names tested bare (`if opens_try:` ... `if opens_try:`) - the state remembers which way a flag was taken, so that
        # the indent under the first test and the dedent under the second one are seen as the same case
        assigned_in_loop_or_twice = {t.id for st in own_nodes(fn.node) if isinstance(st, (ast.Assign, ast.AnnAssign, ast.AugAssign))
                                     for t in (st.targets if isinstance(st, ast.Assign) else [st.target]) if isinstance(t, ast.Name)}

        def transfer(node, state, label, w=w):
            v, flags = state if isinstance(state, tuple) else (state, frozenset())
            a = node.ast
            if node.kind == "test" and a is not None and label in ("true", "false"):
                t, sense = a, label == "true"
                while isinstance(t, ast.UnaryOp) and isinstance(t.op, ast.Not):
                    t, sense = t.operand, not sense
                if isinstance(t, ast.Name):
                    known = dict(flags)
                    if t.id in known and known[t.id] != sense:
                        return ()  # contradicts the way this flag was taken before
                    known[t.id] = sense
                    return ((v, frozenset(known.items())),)
                return ((v, flags),)
            if node.kind != "stmt" or a is None:
                return ((v, flags),)
            if isinstance(a, (ast.Assign, ast.AnnAssign, ast.AugAssign)):
                tg = a.targets if isinstance(a, ast.Assign) else [a.target]
                names = {x.id for t in tg for x in ast.walk(t) if isinstance(x, ast.Name)}
                if names:
                    flags = frozenset((k, b) for k, b in flags if k not in names)
            if isinstance(a, (ast.For, ast.AsyncFor)):
                names = {x.id for x in ast.walk(a.target) if isinstance(x, ast.Name)}
                flags = frozenset((k, b) for k, b in flags if k not in names)
            d = v
            for c in calls_in(a):
                if isinstance(c.func, ast.Attribute) and not c.args and norm(c.func.value) == w:
                    if c.func.attr == "indent":
                        d += 1
                    elif c.func.attr == "dedent":
                        d -= 1
                elif isinstance(c.func, ast.Attribute) and c.func.attr in NET_EFFECT and any(norm(x) == w for x in list(c.args) + [k.value for k in c.keywords]):
                    d += NET_EFFECT[c.func.attr]  # callee summary: leaves the shared writer at +n
            return ((max(-4, min(8, d)), flags),)

        states_f, _ = forward(cfg, (0, frozenset()), transfer)
        states = {k: {(x[0] if isinstance(x, tuple) else x) for x in vs} for k, vs in states_f.items()}
        at_exit = sorted(states[cfg.exit])
        sub = f"{fn.module.relpath}:{fn.qualname} indent balance of `{w}`"
        expected = {0}
        # enumerated convention: the signature writers leave the method body open (+1), the method generators close it (-1)
        if fn.name in ("generate_signature",):
            expected = {1}
        if fn.name in ("_generate_standard_method", "_generate_implementation_method"):
            expected = {-1, 0}
        # loops can legitimately be unrolled by the analysis into widening depth; accept only exact sets
        if not shared:
            neg = sorted({v for st in states.values() for v in st if isinstance(v, int) and v < 0})
            if neg:
                rep.violation("R1.7", sub, f"{fn.fq}|indent-negative|{w}", f"`{w}` is dedented below its starting depth on some path ({neg})", fn.loc())
            else:
                rep.ok("R1.7", sub, f"local writer, depth never negative (final depth {at_exit} is irrelevant: the code is returned)", fn.loc())
            continue
        if set(at_exit) <= expected | ({0} if fn.name == "_generate_implementation_method" else set()) and at_exit:
            rep.ok("R1.7", sub, f"indent depth at every normal exit is {at_exit} (expected {sorted(expected)})", fn.loc())
        elif not at_exit:
            rep.ok("R1.7", sub, "no normal exit", fn.loc())
        else:
            rep.violation("R1.7", sub, f"{fn.fq}|indent-imbalance|{w}|{at_exit}",
                          f"some path leaves `{w}` at indent depth {at_exit} (expected {sorted(expected)}): everything emitted afterwards is mis-indented "
                          "(IndentationError or a method swallowed into the previous one)", fn.loc())


def _models_emitter_rules(repo: Repo, rep: Report) -> None:
    emit = repo.func("emitters.models_emitter:ModelsEmitter.emit")
    if not any(isinstance(n, ast.Assign) and norm(n.targets[0]).endswith((".generation_name", ".final_module_stem")) for n in own_nodes(emit.node)):
        from sa.flatten import flatten as _fl18

        emit = _fl18(emit, select=lambda h: any(isinstance(n, ast.Assign) and norm(n.targets[0]).endswith((".generation_name", ".final_module_stem"))
                                                 for n in own_nodes(h.node)))  # the naming pass was moved into a helper of the emitter: written out
    cfg = CFG(emit.node)
    dom = cfg.dominators()
    naming = [n for n in cfg.nodes if n.kind == "stmt" and isinstance(n.ast, ast.Assign) and norm(n.ast.targets[0]).endswith((".generation_name", ".final_module_stem"))]
    gens = [n for n in cfg.nodes if n.kind == "stmt" and n.ast is not None and not n.copy and any(
        isinstance(c.func, ast.Attribute) and c.func.attr == "_generate_model_file" for c in calls_in(n.ast))]
    rep.require(len(naming) >= 2 and len(gens) >= 1, "R1.8: naming assignments / _generate_model_file call not found in ModelsEmitter.emit")
    if naming and gens:
        # the naming loop finishes before any file is generated: the naming loop header dominates the emit call and is not reachable from it
        from sa.model import parent as _parent

        def _enclosing_loop(x: ast.AST):
            p = _parent(x)
            while p is not None and not isinstance(p, (ast.For, ast.While)):
                p = _parent(p)
            return p

        naming_loops = {id(_enclosing_loop(n.ast)): _enclosing_loop(n.ast) for n in naming if _enclosing_loop(n.ast) is not None}
        nl = [n for n in cfg.nodes if n.kind == "iter" and any(n.stmt is lp for lp in naming_loops.values())]
        ok = bool(nl) and all(nl[0].id in dom[g.id] and nl[0].id not in cfg.reachable(g.id) for g in gens)
        if ok:
            rep.ok("R1.8", f"{emit.module.relpath}:ModelsEmitter.emit naming before emission", "the de-collision loop is complete before the first model file is generated", emit.loc())
        else:
            rep.violation("R1.8", f"{emit.module.relpath}:ModelsEmitter.emit naming before emission", f"{emit.fq}|naming-order",
                          "model files can be generated before all class names / module stems are de-collided: earlier files import names that change later", emit.loc())
    gm = repo.func("emitters.models_emitter:ModelsEmitter._generate_model_file")
    guards_raise = [n for n in own_nodes(gm.node) if isinstance(n, ast.If) and ("generation_name" in norm(n.test) or "final_module_stem" in norm(n.test)) and any(isinstance(s, ast.Raise) for s in n.body)]
    if guards_raise:
        rep.ok("R1.8", f"{gm.module.relpath}:_generate_model_file refuses unnamed schemas", "raises when generation_name / final_module_stem is unset", gm.loc(guards_raise[0]))
    else:
        rep.violation("R1.8", f"{gm.module.relpath}:_generate_model_file refuses unnamed schemas", f"{gm.fq}|no-name-guard", "a model file can be written without de-collided names", gm.loc())
    # file filter consistency
    flt = None
    nested = {f.name: f for q, f in emit.module.functions.items() if ".emit.<locals>." in q or q.startswith("ModelsEmitter.emit.")}
    used_as_filter = {c.func.id for n in own_nodes(emit.node) if isinstance(n, (ast.DictComp, ast.ListComp, ast.SetComp, ast.GeneratorExp))
                      for g in n.generators for t in g.ifs for c in ast.walk(t) if isinstance(c, ast.Call) and isinstance(c.func, ast.Name)}
    for name in sorted(used_as_filter):
        if name in nested:
            flt = nested[name]
    sub = f"{emit.module.relpath}:ModelsEmitter.emit file filter vs exported registry"
    if flt is None:
        rep.ok("R1.8", sub, "no file filter between naming and emission", emit.loc())
        return
    sat, why = _filter_satisfiable(flt)
    # is the filtered dict written back to the registries the exports/imports are rendered from?
    reassigned = False
    for n in own_nodes(emit.node):
        if isinstance(n, ast.Assign) and norm(n.targets[0]) in ("self.parsed_schemas", "self.context.parsed_schemas"):
            from sa.match import Locals as _Locals

            vi = _Locals(emit.node).inline(n.value)
            if any(isinstance(c, ast.Call) and isinstance(c.func, ast.Name) and c.func.id == flt.name for c in ast.walk(vi)):
                reassigned = True
    if not sat:
        rep.ok("R1.8", sub, f"the filter cannot reject a named schema: {why}", flt.loc())
    elif reassigned:
        rep.ok("R1.8", sub, "the filtered set is also the registry exports and imports are rendered from", flt.loc())
    else:
        rep.violation("R1.8", sub, f"{emit.fq}|filter-live|{why[:80]}",
                      f"should_generate_file can reject a named schema ({why}), but models/__init__.py and the imports of referencing models are rendered from the "
                      "unfiltered registry: they import a module that is never written (ModuleNotFoundError)", flt.loc())


def _filter_satisfiable(flt: Function) -> Tuple[bool, str]:
    """Can the filter reject a schema with a non-empty name?  Only the constraints on `<schema>.name` are interpreted:
    `<name-expr>.lower() in [consts]` together with `<name>.endswith(s)`."""
    from sa.match import Locals as _Locals

    L = _Locals(flt.node)
    if not L.params:
        return True, "filter has no parameter"
    P = L.params[0]
    pname = f"{P}.name"
    rets_false = [n for n in own_nodes(flt.node) if isinstance(n, ast.If) and any(isinstance(s, ast.Return) and isinstance(s.value, ast.Constant) and s.value.value is False for s in n.body)]

    def only_about_name(t: ast.AST) -> bool:
        """`not s.name or not s.name.strip()` / `not (s.name and s.name.strip())`: mentions nothing but the name and constants-free string methods"""
        ti = L.inline(t, stop=(P,))
        attrs = {x.attr for x in ast.walk(ti) if isinstance(x, ast.Attribute)}
        has_const = any(isinstance(x, ast.Constant) for x in ast.walk(ti))
        return attrs <= {"name", "strip"} and "name" in attrs and not has_const and set(n for n in (y.id for y in ast.walk(ti) if isinstance(y, ast.Name))) <= {P}

    artifact_tests = [n for n in rets_false if not only_about_name(n.test)]
    conj: List[ast.AST] = []
    other = []
    for n in artifact_tests:
        ti = L.inline(n.test, stop=(P,))
        if isinstance(ti, ast.BoolOp) and isinstance(ti.op, ast.And) and not conj:
            conj = list(ti.values)
        else:
            other.append(n)
    if other:
        return True, f"additional rejecting condition `{norm(other[0].test)[:60]}`"
    if not conj:
        return False, "no rejecting condition besides unnamed schemas"
    members: Optional[List[str]] = None
    suffix: Optional[str] = None
    lower_on_plain_name = False
    for c in conj:
        if isinstance(c, ast.Compare) and isinstance(c.ops[0], ast.In) and isinstance(c.comparators[0], (ast.List, ast.Tuple, ast.Set)):
            vals = [const_str(e) for e in c.comparators[0].elts]
            if all(v is not None for v in vals) and pname in norm(c.left):
                members = vals  # type: ignore[assignment]
                lower_on_plain_name = norm(c.left) == f"{pname}.lower()"
        if isinstance(c, ast.Call) and isinstance(c.func, ast.Attribute) and c.func.attr == "endswith" and norm(c.func.value) == pname and c.args and const_str(c.args[0]):
            suffix = const_str(c.args[0])
    if members is not None and suffix is not None and lower_on_plain_name:
        if not any(m.endswith(suffix.lower()) for m in members):
            return False, f"`<schema>.name.lower() in {members}` and `<schema>.name.endswith({suffix!r})` contradict each other (no listed name ends with {suffix!r})"
        return True, f"a name in {members} ends with {suffix!r}"
    return True, "the name constraints no longer contradict each other (" + "; ".join(norm(c)[:50].replace(P + ".", "<schema>.") for c in conj if pname in norm(c)) + ")"


# ------------------------------------------------------------------------------------------------ R1.11 path completion spares the core
def rule_completion_spares_core(repo: Repo, rep, rule: str = "R1.11") -> None:
    """RenderContext "completes" a module path that starts with the non-root segments of the output package by prefixing the root
    package (`m = f"{root}.{m}"`).  A module of the core package must never be completed: with output `acme.shared` and the
    top-level core `shared.core`, `shared.core.x` would become `acme.shared.core.x` and be imported relatively from a place where
    no core exists.  Every such self-prefixing assignment must lie under a condition that excludes the core namespace."""
    from sa.cfg import CFG, guards
    from sa.match import Locals as _L

    rc = repo.module("context.render_context").classes.get("RenderContext")
    if rc is None:
        raise AnalysisError("anchor vanished: RenderContext")
    n = 0
    for fn in rc.methods.values():
        L = _L(fn.node)
        cfg = None
        for st in own_nodes(fn.node):
            # `m = f"{root}.{m}"`  -  or, in a helper that completes its argument, `return f"{root}.{m}"` next to `return m`
            if isinstance(st, ast.Assign) and len(st.targets) == 1 and isinstance(st.targets[0], ast.Name) and isinstance(st.value, ast.JoinedStr):
                js, same = st.value, st.targets[0].id
            elif isinstance(st, ast.Return) and isinstance(st.value, ast.JoinedStr):
                js, same = st.value, None
            else:
                continue
            fv = [v for v in js.values if isinstance(v, ast.FormattedValue)]
            consts = [v.value for v in js.values if isinstance(v, ast.Constant)]
            if not (len(fv) == 2 and consts == ["."] and isinstance(fv[1].value, ast.Name)):
                continue
            if same is not None and fv[1].value.id != same:
                continue
            if same is None and not (fv[1].value.id in fn.params and any(
                    isinstance(r, ast.Return) and isinstance(r.value, ast.Name) and r.value.id == fv[1].value.id for r in own_nodes(fn.node))):
                continue
            n += 1
            cfg = cfg or CFG(fn.node)
            dom = cfg.dominators()
            node = next((x for x in cfg.nodes if x.kind == "stmt" and x.ast is st and not x.copy), None)
            if node is None:
                raise AnalysisError(f"{rule}: the completion assignment of {fn.qualname} is not in its CFG")
            spared = False
            partial = None
            for g, pol in guards(cfg, node.id, dom):
                if g.kind != "test" or pol is None:
                    continue
                conj = g.ast.values if pol and isinstance(g.ast, ast.BoolOp) and isinstance(g.ast.op, ast.And) else [g.ast]
                for cj in conj:
                    pj = pol
                    while isinstance(cj, ast.UnaryOp) and isinstance(cj.op, ast.Not):
                        cj, pj = cj.operand, not pj
                    cji = L.inline(cj, stop=tuple(L.params))
                    txt = norm(cji)
                    # the core test may live in a method of the class (`self._is_in_core_package(m)`): its body is what is tested
                    for hc in [x for x in ast.walk(cji) if isinstance(x, ast.Call) and isinstance(x.func, ast.Attribute) and x.func.attr in rc.methods]:
                        txt += " " + " ".join(norm(r.value) for r in own_nodes(rc.methods[hc.func.attr].node) if isinstance(r, ast.Return) and r.value is not None)
                    if pj is False and "core_package_name" in txt and (".startswith(" in txt or "==" in txt):
                        spared = True
                        # ... and the test really covers the whole namespace: the core package itself (the exception aliases are imported
                        # from its root) as well as its sub-modules
                        from sa.feval import Unknown as _Unk, evaluate as _ev

                        mvars = [x.id for x in ast.walk(cji) if isinstance(x, ast.Name) and x.id not in ("self",)]
                        if not any(isinstance(x, ast.Call) and isinstance(x.func, ast.Attribute) and x.func.attr in rc.methods for x in ast.walk(cji)) and len(set(mvars)) == 1:
                            for val, what in (("shared.core", "the core package itself"), ("shared.core.exceptions", "a sub-module of the core package")):
                                try:
                                    if not _ev(cji, {"self.core_package_name": "shared.core", mvars[0]: val}):
                                        spared = False
                                        partial = what
                                except _Unk:
                                    pass
            sub = f"{fn.module.relpath}:{fn.qualname} `{norm(st)[:60]}`"
            if spared:
                rep.ok(rule, sub, "the completion is skipped for modules in the core package namespace (the package itself and its sub-modules)", fn.loc(st))
            else:
                rep.violation(rule, sub, f"{fn.fq}|completion-hits-core" + ("|partial" if partial else ""),
                              (f"the core test in front of the completion does not hold for {partial}: " if partial else "") + "a module path that starts with the output package's non-root segments is prefixed with the root package even when it belongs to "
                              "the core package: for output `acme.shared` with the top-level core `shared.core` the client imports `.core.…` "
                              "(ModuleNotFoundError: No module named 'acme.shared.core')", fn.loc(st))
    rep.count(f"{rule}:completion_sites", n)
    rep.require(n >= 1, f"{rule}: no module-path completion (`m = f\"{{root}}.{{m}}\"`) found in RenderContext (anchor)")


# ------------------------------------------------------------------------------------------------ R1.13 required parameters come first
def rule_required_first(repo: Repo, rep, rule: str = "R1.13") -> None:
    """`def f(self, a: int = None, b: str)` does not compile.  The parameter list the signature is rendered from is made
    "required first" by one stable sort in EndpointParameterProcessor.process_parameters; that sort must be the last thing that
    happens to the returned list: every return is dominated by a required-keyed sort of the *returned* variable, and nothing is
    added to it (or rebinds it) between the sort and the return."""
    from sa.cfg import CFG

    pp = repo.func("visit.endpoint.processors.parameter_processor:EndpointParameterProcessor.process_parameters")
    cfg = CFG(pp.node)
    dom = cfg.dominators()
    rets = [n for n in cfg.nodes if n.kind == "stmt" and isinstance(n.ast, ast.Return) and not n.copy and n.ast.value is not None]
    rep.require(bool(rets), f"{rule}: process_parameters has no return (anchor)")

    def required_key(call: ast.Call) -> bool:
        return any(k.arg == "key" and "required" in norm(k.value) for k in call.keywords)

    for r in rets:
        v = r.ast.value.elts[0] if isinstance(r.ast.value, ast.Tuple) and r.ast.value.elts else r.ast.value
        sub = f"{pp.module.relpath}:process_parameters `return {norm(v)[:30]}, …`"
        if not isinstance(v, ast.Name):
            if isinstance(v, ast.Call) and isinstance(v.func, ast.Name) and v.func.id == "sorted" and required_key(v):
                rep.ok(rule, sub, "the returned list is `sorted(..., key=required-first)` itself", pp.loc(r.ast))
            else:
                rep.error(f"{rule}: cannot identify the returned parameter list of process_parameters (`{norm(v)[:40]}`)")
            continue
        name = v.id
        sorts, touches = [], []
        for n in cfg.nodes:
            if n.kind != "stmt" or n.ast is None or n.copy:
                continue
            for c in calls_in(n.ast):
                if isinstance(c.func, ast.Attribute) and isinstance(c.func.value, ast.Name) and c.func.value.id == name:
                    if c.func.attr == "sort" and required_key(c):
                        sorts.append(n)
                    elif c.func.attr in ("append", "extend", "insert", "reverse", "sort"):
                        touches.append(n)
            if isinstance(n.ast, (ast.Assign, ast.AnnAssign, ast.AugAssign)):
                tgs = n.ast.targets if isinstance(n.ast, ast.Assign) else [n.ast.target]
                if any(isinstance(t, ast.Name) and t.id == name for t in tgs):
                    val = n.ast.value
                    if isinstance(n.ast, ast.Assign) and isinstance(val, ast.Call) and isinstance(val.func, ast.Name) and val.func.id == "sorted" and required_key(val):
                        sorts.append(n)
                    else:
                        touches.append(n)
        good = [s for s in sorts if s.id in dom[r.id]]
        if not good:
            rep.violation(rule, sub, f"{pp.fq}|required-first|no-dominating-sort",
                          f"no required-first sort of `{name}` dominates this return: a required parameter (for instance a path variable the spec forgot to declare, "
                          "which is synthesised as required) can follow an optional one and the generated `def` is a SyntaxError "
                          "('parameter without a default follows parameter with a default')", pp.loc(r.ast))
            continue
        s = good[-1]
        # nothing touches the list on a way from the sort to the return
        after = cfg.reachable(s.id)
        late = [t for t in touches if t.id in after and r.id in cfg.reachable(t.id) and t.id != s.id]
        if late:
            rep.violation(rule, sub, f"{pp.fq}|required-first|touched-after-sort",
                          f"`{norm(late[0].ast)[:70]}` changes `{name}` after the required-first sort: elements added there are not ordered and a required parameter can "
                          "follow an optional one (SyntaxError in the generated signature)", pp.loc(late[0].ast))
        else:
            rep.ok(rule, sub, f"`{norm(s.ast)[:60]}` dominates the return and nothing changes the list afterwards", pp.loc(s.ast))


# ------------------------------------------------------------------------------------------------ R1.14 no value-return inside an async generator
def rule_no_value_return_in_stream(repo: Repo, rep, rule: str = "R1.14") -> None:
    """A streaming operation is rendered as an async generator, in which `return <value>` is a SyntaxError.  The arms that
    generate_response_handling writes for the *other* declared responses (the loop over op.responses) therefore emit a value-return
    only under a path condition that excludes streaming (`strategy.is_streaming` false)."""
    from sa.cfg import CFG, guards
    from sa.flatten import flatten
    from sa.match import Locals as _L
    from sa.templates import template_of

    grh0 = repo.func("visit.endpoint.generators.response_handler_generator:EndpointResponseHandlerGenerator.generate_response_handling")
    grh = flatten(grh0)
    L = _L(grh.node)
    cfg = CFG(grh.node)
    dom = cfg.dominators()
    loops = [n for n in own_nodes(grh.node) if isinstance(n, ast.For) and "responses" in norm(L.inline(n.iter, stop=tuple(L.params)))]
    rep.require(len(loops) >= 1, f"{rule}: the loop over the other declared responses was not found in generate_response_handling (anchor)")
    inside = {id(x) for lp in loops for st in lp.body for x in ast.walk(st)}
    n = 0
    for nd in cfg.nodes:
        if nd.kind != "stmt" or nd.ast is None or nd.copy or id(nd.ast) not in inside:
            continue
        for c in calls_in(nd.ast):
            if not (isinstance(c.func, ast.Attribute) and c.func.attr == "write_line" and c.args):
                continue
            t = template_of(L.inline(c.args[0], stop=tuple(L.params)), grh.node)
            if t is None:
                continue
            txt = t.text.strip()
            if not txt.startswith("return"):
                continue
            rest = txt[len("return"):].split("#")[0].strip()
            if not rest:
                continue  # bare `return` is fine in a generator
            n += 1
            not_streaming = False
            for g, pol in guards(cfg, nd.id, dom):
                if g.kind != "test" or pol is None:
                    continue
                conj = g.ast.values if pol and isinstance(g.ast, ast.BoolOp) and isinstance(g.ast.op, ast.And) else [g.ast]
                for cj in conj:
                    pj = pol
                    while isinstance(cj, ast.UnaryOp) and isinstance(cj.op, ast.Not):
                        cj, pj = cj.operand, not pj
                    if pj is False and "is_streaming" in norm(L.inline(cj, stop=tuple(L.params))):
                        not_streaming = True
            sub = f"{grh0.module.relpath}:generate_response_handling secondary arm `{txt[:40].replace(chr(0), '{}')}`"
            if not_streaming:
                rep.ok(rule, sub, "emitted only when the operation is not streaming", grh0.loc(c))
            else:
                rep.violation(rule, sub, f"{grh0.fq}|value-return-in-stream|{txt[:25].replace(chr(0), '{}')}",
                              "this value-return is also written into the body of a streaming operation (an async generator): a streaming operation that declares a further "
                              "success response (204, or 201 with a body) gets `return None` / `return <value>` - 'return' with value in async generator is a SyntaxError "
                              "and the endpoints module cannot be imported", grh0.loc(c))
    rep.count(f"{rule}:value_returns_in_secondary_arms", n)
    rep.require(n >= 2, f"{rule}: only {n} value-return templates found in the secondary arms (floor 2)")


# ------------------------------------------------------------------------------------------------ R1.16 no default before the `*` of an overload signature
def rule_no_default_before_star(repo: Repo, rep, rule: str = "R1.16") -> None:
    """The multi-content-type signatures list the operation's path/query/header parameters in *document order* in front of the
    keyword-only separator `*`.  That is only valid Python while none of them carries a default: `def f(self, a: int | None = None, b: str, *, ...)`
    is a SyntaxError ('parameter without a default follows parameter with a default').  Every string that can be appended to the parameter
    list on a path that still reaches `append("*")` is therefore default-free - unless the list iterated is sorted required-first."""
    from sa.cfg import CFG
    from sa.flatten import flatten

    og = repo.module("visit.endpoint.generators.overload_generator")
    n = 0
    for fn0 in og.functions.values():
        stars = [c for c in calls_in(fn0.node) if isinstance(c.func, ast.Attribute) and c.func.attr == "append" and c.args and const_str(c.args[0]) == "*"
                 and isinstance(c.func.value, ast.Name)]
        if not stars:
            continue
        fn = flatten(fn0)
        cfg = CFG(fn.node)
        lst = stars[0].func.value.id  # type: ignore[attr-defined]
        star_nodes = [nd for nd in cfg.nodes if nd.kind == "stmt" and nd.ast is not None and not nd.copy and any(
            isinstance(c.func, ast.Attribute) and c.func.attr == "append" and c.args and const_str(c.args[0]) == "*" for c in calls_in(nd.ast))]
        if not star_nodes:
            rep.error(f"{rule}: the `*` separator of {fn0.qualname} was lost by flattening")
            continue
        star = star_nodes[0]
        defs: Dict[str, List[ast.AST]] = {}
        for x in ast.walk(fn.node):
            if isinstance(x, ast.Assign) and len(x.targets) == 1 and isinstance(x.targets[0], ast.Name):
                defs.setdefault(x.targets[0].id, []).append(x.value)

        def texts(e: ast.AST, depth: int = 0) -> List[Optional[str]]:
            """constant text of every string the expression can evaluate to (holes dropped); None = not understood"""
            if isinstance(e, ast.Constant) and isinstance(e.value, str):
                return [e.value]
            if isinstance(e, ast.JoinedStr):
                return ["".join(str(v.value) if isinstance(v, ast.Constant) else "\x00" for v in e.values)]
            if isinstance(e, ast.IfExp):
                return texts(e.body, depth) + texts(e.orelse, depth)
            if isinstance(e, ast.BinOp) and isinstance(e.op, ast.Add):
                return [(a or "") + (b or "") if a is not None and b is not None else None for a in texts(e.left, depth) for b in texts(e.right, depth)]
            if isinstance(e, ast.Name) and e.id in defs and depth < 4:
                return [t for v in defs[e.id] for t in texts(v, depth + 1)]
            return [None]

        # lists whose elements are added to the parameter list in front of the star (`param_parts.extend(operation_parts)`)
        lists = {lst}
        for _ in range(3):
            for nd in cfg.nodes:
                if nd.kind != "stmt" or nd.ast is None or nd.copy or star.id not in cfg.reachable(nd.id):
                    continue
                for c in calls_in(nd.ast):
                    if isinstance(c.func, ast.Attribute) and c.func.attr == "extend" and isinstance(c.func.value, ast.Name) and c.func.value.id in lists and c.args \
                            and isinstance(c.args[0], ast.Name):
                        lists.add(c.args[0].id)
                if isinstance(nd.ast, ast.Assign) and len(nd.ast.targets) == 1 and isinstance(nd.ast.targets[0], ast.Name) and nd.ast.targets[0].id in lists \
                        and isinstance(nd.ast.value, ast.Name):
                    lists.add(nd.ast.value.id)  # a plain copy (`result = parts`)
        for nd in cfg.nodes:
            if nd.kind != "stmt" or nd.ast is None or nd.copy or nd.id == star.id or star.id not in cfg.reachable(nd.id):
                continue
            for c in calls_in(nd.ast):
                if not (isinstance(c.func, ast.Attribute) and c.func.attr in ("append", "insert") and isinstance(c.func.value, ast.Name) and c.func.value.id in lists and c.args):
                    continue
                n += 1
                ts = texts(c.args[-1])
                sub = f"{og.relpath}:{fn0.qualname} positional parameter `{norm(c.args[-1])[:50]}`"
                if any(t is None for t in ts):
                    rep.error(f"{rule}: cannot read the text appended to the parameter list in {fn0.qualname}: `{norm(c.args[-1])[:60]}`")
                    continue
                with_default = [t for t in ts if t is not None and "=" in t.replace("\x00", "")]
                loops = [a for a in _ancestors_of(c) if isinstance(a, ast.For)]
                sorted_iter = any(isinstance(x, ast.Call) and dotted(x.func) == "sorted" and any(k.arg == "key" and "required" in norm(k.value) for k in x.keywords)
                                  for lp in loops for x in ast.walk(lp.iter))
                if not with_default or sorted_iter:
                    rep.ok(rule, sub, "no default in front of the `*` separator (document order is valid Python)" if not with_default
                           else "defaults are emitted over a required-first sorted list", fn0.loc(c))
                else:
                    rep.violation(rule, sub, f"{fn0.fq}|default-before-star",
                                  f"a parameter rendered as `{with_default[0].replace(chr(0), '…')}` is appended in document order in front of `*`: an optional parameter declared "
                                  "before a required one gives `def f(self, a: T | None = None, b: U, *, ...)` - SyntaxError in the endpoints and mocks modules", fn0.loc(c))
    rep.require(n >= 2, f"{rule}: only {n} positional appends in front of a `*` separator found in the overload generator (floor 2)")


def _ancestors_of(n: ast.AST):
    x = parent(n)
    while x is not None:
        yield x
        x = parent(x)


# ------------------------------------------------------------------------------------------------ R1.17 a schema named outside the registry gets its module too
_R117_EXAMPLE = '''
def unify(variant, unified_name):
    stub = IRSchema(name=unified_name, type="string")
    stub.generation_name = unified_name
    variant.properties["kind"] = stub
'''


def _named_without_module(tree: ast.AST):
    """[(function node, receiver name, statement)] for every `R.generation_name = ...` whose receiver is *not an entry of the schema registry*
    (it is constructed in this function, or it is a property schema: a loop variable over / an element of `<x>.properties`) and that is not
    accompanied, in the same statement list, by `R.final_module_stem = ...` (or a `final_module_stem=` keyword of the constructor)."""
    out, n_sites = [], 0
    for fn in ast.walk(tree):
        if not isinstance(fn, (ast.FunctionDef, ast.AsyncFunctionDef)):
            continue
        fresh, prop = {}, set()
        for st in ast.walk(fn):
            if isinstance(st, (ast.Assign, ast.AnnAssign)):
                tgts = st.targets if isinstance(st, ast.Assign) else [st.target]
                v = st.value
                for t in tgts:
                    if isinstance(t, ast.Name) and isinstance(v, ast.Call):
                        nm = dotted(v.func) or ""
                        if nm.split(".")[-1] in ("IRSchema", "replace", "copy", "deepcopy"):
                            fresh[t.id] = v
                    if isinstance(t, ast.Name) and v is not None and any(isinstance(x, ast.Attribute) and x.attr == "properties" for x in ast.walk(v)) \
                            and isinstance(v, (ast.Subscript, ast.Call)):
                        prop.add(t.id)
            elif isinstance(st, (ast.For, ast.comprehension)) and any(isinstance(x, ast.Attribute) and x.attr == "properties" for x in ast.walk(st.iter)):
                prop |= {x.id for x in ast.walk(st.target) if isinstance(x, ast.Name)}
        for body_owner in ast.walk(fn):
            for fld in ("body", "orelse", "finalbody"):
                stmts = getattr(body_owner, fld, None)
                if not isinstance(stmts, list):
                    continue
                for st in stmts:
                    if not (isinstance(st, ast.Assign) and len(st.targets) == 1 and isinstance(st.targets[0], ast.Attribute) and st.targets[0].attr == "generation_name"
                            and isinstance(st.targets[0].value, ast.Name)):
                        continue
                    r = st.targets[0].value.id
                    if r not in fresh and r not in prop:
                        continue
                    n_sites += 1
                    paired = any(isinstance(s2, ast.Assign) and any(isinstance(t, ast.Attribute) and t.attr == "final_module_stem" and isinstance(t.value, ast.Name) and t.value.id == r
                                                                      for t in s2.targets) for s2 in stmts)
                    in_ctor = r in fresh and any(k.arg == "final_module_stem" for k in fresh[r].keywords)
                    if not (paired or in_ctor):
                        out.append((fn, r, st))
    return out, n_sites


def rule_named_stub_has_module(repo: Repo, rep, rule: str = "R1.17") -> None:
    """ModelsEmitter gives class names and module stems to the schemas *of the registry*.  A schema object that exists only as a property of
    another schema (the unified discriminator stub, the reference left behind by inline-enum extraction) is never seen by the emitter: the
    code that gives it a class name (`generation_name`) must give it the module as well, otherwise the type resolver renders the bare class
    name and registers no import (`_resolve_named_schema`: no final_module_stem -> no import) and the model module fails with NameError."""
    hz, n = _named_without_module(ast.parse(_R117_EXAMPLE))
    rep.require(len(hz) == 1 and n == 1, f"{rule}: the built-in positive example is no longer recognised - the rule is broken")
    live = repo.import_closure(["generator.client_generator"])
    n_sites = 0
    for mn in live:
        if not (".core.loader" in mn or ".core.parsing" in mn or ".helpers." in mn):
            continue
        mod = repo.modules[mn]
        hz, n = _named_without_module(mod.tree)
        n_sites += n
        bad = {id(st) for _, _, st in hz}
        for fn, r, st in hz:
            rep.violation(rule, f"{mod.relpath}:{fn.name} `{norm(st)[:70]}`", f"{mod.name}:{fn.name}|class-name-without-module|{r}",
                          f"`{r}` is not an entry of the schema registry (the models emitter never names it), it gets a class name here but no `final_module_stem`: "
                          "every model that uses it as a field type mentions the class without importing it (NameError when the models package is imported)",
                          f"{mod.relpath}:{st.lineno}")
        if n and not hz:
            rep.ok(rule, f"{mod.relpath} schemas named outside the registry", f"{n} site(s): each sets generation_name together with final_module_stem", f"{mod.relpath}:1")
    rep.count(f"{rule}:naming_sites_outside_registry", n_sites)
    rep.require(n_sites >= 4, f"{rule}: only {n_sites} naming sites of non-registry schemas found in loader/parsing/helpers (floor 4)")


# ------------------------------------------------------------------------------------------------ R1.19 model modules of a reference cycle do not import each other at module level
_CYCLE_MARKS = {"_is_circular_ref", "_circular_ref_path", "_is_self_referential_stub", "detected_cycles", "cycle_detected"}


def rule_cyclic_model_imports(repo: Repo, rep, rule: str = "R1.19") -> None:
    """Each model lives in its own module and a field of type `B` makes `a.py` import `b.py` (`from .b import B`) at module level.  Schemas
    that reference each other (User <-> Group, A -> B -> C -> A) then produce modules that import each other while they are still being
    executed: `ImportError: cannot import name 'A' from partially initialized module`.  The parser knows the closing edge of every such
    cycle (it stores a placeholder marked `_is_circular_ref`); the code that registers the import of a referenced model must treat such a
    reference differently (deferred / conditional import plus forward reference).  Decided here: on some path to a model-import
    registration of the resolver a cycle mark is consulted, or a deferred-import API is used for models at all."""
    sr = repo.module("types.resolvers.schema_resolver")
    fn = sr.classes["OpenAPISchemaResolver"].methods.get("_resolve_named_schema") if "OpenAPISchemaResolver" in sr.classes else None
    if fn is None:
        raise AnalysisError(f"{rule}: anchor vanished: OpenAPISchemaResolver._resolve_named_schema")
    regs = [c for c in calls_in(fn.node) if isinstance(c.func, ast.Attribute) and c.func.attr == "add_import" and len(c.args) >= 2]
    rep.require(len(regs) >= 1, f"{rule}: the import registration of a referenced model (`context.add_import(<module>, <class>)`) was not found in _resolve_named_schema (anchor)")
    if not regs:
        return
    # cycle awareness anywhere in the resolver / the model visitor / the models emitter (the places that could defer an import)
    scope = [m for n, m in repo.modules.items() if any(k in n for k in (".types.resolvers.", ".types.services.", ".visit.model.", ".emitters.models_emitter", ".context.render_context"))]
    reads = [(m, x) for m in scope for x in ast.walk(m.tree) if isinstance(x, ast.Attribute) and x.attr in _CYCLE_MARKS and isinstance(x.ctx, ast.Load)]
    reads += [(m, c) for m in scope for c in ast.walk(m.tree) if isinstance(c, ast.Call) and dotted(c.func) in ("getattr", "hasattr") and len(c.args) >= 2 and const_str(c.args[1]) in _CYCLE_MARKS]
    deferred = [(m, c) for m in scope for c in ast.walk(m.tree) if isinstance(c, ast.Call) and isinstance(c.func, ast.Attribute)
                and c.func.attr in ("add_conditional_import", "add_late_import", "add_deferred_import") and m is not repo.modules.get("pyopenapi_gen.types.services.type_service")
                and not m.name.endswith("render_context")]
    rep.count(f"{rule}:cycle_mark_reads_in_render_layer", len(reads))
    rep.count(f"{rule}:deferred_import_uses", len(deferred))
    sub = f"{sr.relpath}:_resolve_named_schema import of a referenced model inside a reference cycle"
    if reads or deferred:
        where = reads[0] if reads else deferred[0]
        rep.ok(rule, sub, f"references that close a cycle are told apart ({where[0].relpath}:{where[1].lineno})", fn.loc(regs[0]))
    else:
        rep.violation(rule, sub, f"{fn.fq}|module-level-import-inside-reference-cycle",
                      f"`{norm(regs[0])[:60]}` is the only way a referenced model is imported and nothing in the resolver, the model visitor or the models emitter looks at the "
                      "parser's cycle marks: for schemas that reference each other (A.b -> B, B.a -> A) `a.py` and `b.py` import each other at module level and the models package "
                      "cannot be imported (ImportError: partially initialized module)", fn.loc(regs[0]))


# ------------------------------------------------------------------------------------------------ R1.20 emitted lines are joined with a line break
_R120_EXAMPLE = '''
def write_init(path, lines):
    with open(path, "w") as f:
        f.write("\\\\n".join(lines))
'''


def _escaped_newline_joins(tree: ast.AST):
    """`"\\\\n".join(...)` / `+ "\\\\n"`: the separator is the two characters backslash and n, not a line break"""
    out = []
    for c in ast.walk(tree):
        if isinstance(c, ast.Call) and isinstance(c.func, ast.Attribute) and c.func.attr == "join" and isinstance(c.func.value, ast.Constant) and c.func.value.value == "\\n":
            out.append(c)
    return out


def rule_lines_joined_with_newline(repo: Repo, rep, rule: str = "R1.20") -> None:
    """A file assembled as a list of lines is written with a real line break between them.  Joined with the two characters `\\n` the whole file
    is one line - for an `__init__.py` that starts with a comment, one comment: every import and `__all__` below it is gone, the package
    re-exports nothing (and where that `__init__.py` is also the core's, the exception classes of every client disappear)."""
    rep.require(len(_escaped_newline_joins(ast.parse(_R120_EXAMPLE))) == 1, f"{rule}: the built-in positive example is no longer recognised - the rule is broken")
    live = repo.import_closure(["generator.client_generator"])
    n_join = 0
    found = False
    for mn in live:
        if not any(k in mn for k in (".generator.", ".emitters.", ".visit.", ".core.writers.", ".context.")):
            continue
        mod = repo.modules[mn]
        n_join += sum(1 for c in ast.walk(mod.tree) if isinstance(c, ast.Call) and isinstance(c.func, ast.Attribute) and c.func.attr == "join" and isinstance(c.func.value, ast.Constant))
        for c in _escaped_newline_joins(mod.tree):
            found = True
            rep.violation(rule, f"{mod.relpath} `{norm(c)[:50]}`", f"{mod.name}|join-with-escaped-newline|{norm(c)[:40]}",
                          "the lines are joined with a backslash followed by `n`, not with a line break: the file that is written is a single line (a comment, if it starts with "
                          "one) and none of its imports / `__all__` entries exist", f"{mod.relpath}:{c.lineno}")
    rep.count(f"{rule}:constant_separator_joins", n_join)
    rep.require(n_join >= 10, f"{rule}: only {n_join} `<literal>.join(...)` calls found in the emit layer (floor 10)")
    if not found:
        rep.ok(rule, "emit layer: separators of joined line lists", f"{n_join} joins on a literal separator: none is the two-character `\\\\n`", "src/pyopenapi_gen:1")


# ------------------------------------------------------------------------------------------------ R1.21 a field never takes the name of an import the class body uses
def _r121_guarded_by(fn_node: ast.AST, test: ast.AST) -> list[ast.stmt]:
    """Statements executed when `test` (the test of an `if`, or part of it) holds."""
    for n in ast.walk(fn_node):
        if isinstance(n, ast.If) and any(x is test for x in ast.walk(n.test)):
            return list(n.body)
    return []


def rule_fields_do_not_shadow_imports(repo: Repo, rep, rule: str = "R1.21") -> None:
    """In a class body `date: date | None = None` binds the name `date` to None; the annotation of the next `date`-typed field is then
    `None | None` - TypeError while the models package is imported (`field = None` breaks `field(default_factory=list)` the same way).
    Every lower-case name the model-rendering code registers as an import (`add_import("datetime", "date")`, `add_import("dataclasses",
    "field")`, ...) must therefore be impossible as a dataclass field name: refused by `sanitize_method_name` (keyword / RESERVED_NAMES) or by
    an explicit exclusion in `DataclassGenerator.generate`."""
    import keyword as _kw

    live = repo.import_closure(["generator.client_generator"])
    imported: Dict[str, str] = {}
    for mn in live:
        if not any(k in mn for k in (".core.writers.", ".types.", ".visit.model.", ".helpers.")):
            continue
        mod = repo.modules[mn]
        for f_ in mod.functions.values():
            if "enum" in f_.qualname.lower():
                continue  # imports of enum modules (`unique`) never meet a dataclass body
            for c in calls_in(f_.node):
                if isinstance(c.func, ast.Attribute) and c.func.attr == "add_import" and len(c.args) >= 2:
                    nm = const_str(c.args[1])
                    if nm and nm.islower() and nm.isidentifier():
                        imported.setdefault(nm, f"{mod.relpath}:{c.lineno}")
                    elif nm is None and isinstance(c.args[1], ast.Name):
                        # `if t in ("date", "datetime", "time"): add_import("datetime", t)`: the names the variable is tested against
                        for g_ in ast.walk(f_.node):
                            if isinstance(g_, ast.Compare) and isinstance(g_.left, ast.Name) and g_.left.id == c.args[1].id and len(g_.ops) == 1 \
                                    and isinstance(g_.ops[0], (ast.In, ast.Eq)) and any(c is x for b_ in _r121_guarded_by(f_.node, g_) for x in ast.walk(b_)):
                                cands = g_.comparators[0].elts if isinstance(g_.comparators[0], (ast.Tuple, ast.List, ast.Set)) else [g_.comparators[0]]
                                for e_ in cands:
                                    n2 = const_str(e_)
                                    if n2 and n2.islower() and n2.isidentifier():
                                        imported.setdefault(n2, f"{mod.relpath}:{c.lineno}")
        # registrations driven by a table of the module: `{"date": ("datetime", "date"), ...}` handed to add_import(*entry)
        for st_ in mod.tree.body:
            if isinstance(st_, (ast.Assign, ast.AnnAssign)) and isinstance(getattr(st_, "value", None), ast.Dict) and any(
                    isinstance(c2.func, ast.Attribute) and c2.func.attr == "add_import" for f2 in mod.functions.values() for c2 in calls_in(f2.node)):
                import sys as _sys

                for v_ in st_.value.values:
                    if isinstance(v_, ast.Tuple) and len(v_.elts) == 2 and all(const_str(e) is not None for e in v_.elts) and (const_str(v_.elts[0]) or "").split(".")[0] in _sys.stdlib_module_names:
                        nm = const_str(v_.elts[1])
                        if nm and nm.islower() and nm.isidentifier():
                            imported.setdefault(nm, f"{mod.relpath}:{v_.lineno}")
    rep.count(f"{rule}:lower_case_imports", sorted(imported))
    rep.require(len(imported) >= 4, f"{rule}: only {len(imported)} lower-case import registrations found in the model-rendering code (floor 4)")
    utils = repo.module("core.utils")
    ns = utils.classes.get("NameSanitizer")
    refused: Set[str] = set()
    if ns is not None:
        for st in ns.node.body:
            if isinstance(st, (ast.Assign, ast.AnnAssign)) and isinstance(st.value, (ast.Set, ast.List, ast.Tuple)):
                refused |= {const_str(e) for e in st.value.elts if const_str(e)}
    gen = repo.func("visit.model.dataclass_generator:DataclassGenerator.generate")
    fn = gen
    # the variable that holds the field name: assigned from sanitize_method_name(...)
    names = {t.id for st in own_nodes(fn.node) if isinstance(st, ast.Assign) and isinstance(st.value, ast.Call) and isinstance(st.value.func, ast.Attribute)
             and st.value.func.attr == "sanitize_method_name" for t in st.targets if isinstance(t, ast.Name)}
    if not names:
        from sa.flatten import flatten

        fn = flatten(gen)
        names = {t.id for st in own_nodes(fn.node) if isinstance(st, ast.Assign) and isinstance(st.value, ast.Call) and isinstance(st.value.func, ast.Attribute)
                 and st.value.func.attr == "sanitize_method_name" for t in st.targets if isinstance(t, ast.Name)}
    if not names:
        raise AnalysisError(f"{rule}: the field name derivation (`<name> = NameSanitizer.sanitize_method_name(<property>)`) was not found in DataclassGenerator.generate (anchor)")
    excluded: Set[str] = set()
    for c in own_nodes(fn.node):
        if isinstance(c, ast.Compare) and len(c.ops) == 1 and isinstance(c.ops[0], ast.In) and isinstance(c.left, ast.Name) and c.left.id in names:
            rhs = c.comparators[0]
            if isinstance(rhs, ast.Name):  # a module- / class-level constant
                cname = rhs.id
                for st in ast.walk(gen.module.tree):
                    if isinstance(st, ast.Assign) and any(isinstance(t, ast.Name) and t.id == cname for t in st.targets):
                        rhs = st.value
            if isinstance(rhs, (ast.Tuple, ast.Set, ast.List)):
                excluded |= {const_str(e) for e in rhs.elts if const_str(e)}
            elif isinstance(rhs, ast.Call) and rhs.args and isinstance(rhs.args[0], (ast.Tuple, ast.Set, ast.List)):
                excluded |= {const_str(e) for e in rhs.args[0].elts if const_str(e)}
    for nm, where in sorted(imported.items()):
        sub = f"{gen.module.relpath}:DataclassGenerator.generate field named like the imported `{nm}`"
        if _kw.iskeyword(nm) or nm in refused or nm in excluded:
            rep.ok(rule, sub, f"`{nm}` cannot be a field name ({'reserved by the sanitiser' if nm in refused else 'excluded in generate' if nm in excluded else 'keyword'})", where)
        else:
            rep.violation(rule, sub, f"{gen.fq}|field-shadows-import|{nm}",
                          f"a property called `{nm}` becomes the field `{nm}`, and the model module imports `{nm}` ({where}) for use in the same class body: the field's "
                          f"default rebinds the name, a later annotation / `{nm}(...)` call in the body sees None, and importing the models package raises TypeError", where)


# ------------------------------------------------------------------------------------------------ R1.22 import registration is per file
_R122_EXAMPLE = '''
class Ctx:
    def __init__(self):
        self.import_collector = Collector()
        self._seen = set()

    def set_current_file(self, p):
        self.import_collector.reset()

    def add_typing_imports_for_type(self, t):
        if t in self._seen:
            return
        self._seen.add(t)
        self.import_collector.add_import("typing", "Any")
'''


def _import_memo_hazards(cls_node: ast.ClassDef):
    """[(method, table, guard node)]: methods that register imports but return early when their argument is found in an instance-level
    container which the method that resets the import collector does not clear; and the number of registering methods looked at."""
    methods = {m.name: m for m in cls_node.body if isinstance(m, (ast.FunctionDef, ast.AsyncFunctionDef))}
    init = methods.get("__init__")
    tables: Set[str] = set()
    if init is not None:
        for st in ast.walk(init):
            if isinstance(st, (ast.Assign, ast.AnnAssign)):
                tg = st.targets if isinstance(st, ast.Assign) else [st.target]
                v = st.value
                if v is not None and (isinstance(v, (ast.Set, ast.Dict, ast.List)) or (isinstance(v, ast.Call) and isinstance(v.func, ast.Name) and v.func.id in ("set", "dict", "list", "defaultdict", "OrderedDict"))):
                    for t in tg:
                        if isinstance(t, ast.Attribute) and isinstance(t.value, ast.Name) and t.value.id == "self":
                            tables.add(t.attr)

    def registers_directly(m) -> bool:
        for c in ast.walk(m):
            if isinstance(c, ast.Call) and isinstance(c.func, ast.Attribute):
                if isinstance(c.func.value, ast.Attribute) and c.func.value.attr == "import_collector" and c.func.attr.startswith("add"):
                    return True
        return False

    reg = {n for n, m in methods.items() if registers_directly(m)}
    changed = True
    while changed:
        changed = False
        for n, m in methods.items():
            if n in reg:
                continue
            if any(isinstance(c, ast.Call) and isinstance(c.func, ast.Attribute) and isinstance(c.func.value, ast.Name) and c.func.value.id == "self" and c.func.attr in reg for c in ast.walk(m)):
                reg.add(n)
                changed = True
    resetters = [m for m in methods.values() if any(isinstance(c, ast.Call) and isinstance(c.func, ast.Attribute) and c.func.attr == "reset" and isinstance(c.func.value, ast.Attribute)
                                                      and c.func.value.attr == "import_collector" for c in ast.walk(m))]
    cleared: Set[str] = set()
    for m in resetters:
        for x in ast.walk(m):
            if isinstance(x, ast.Call) and isinstance(x.func, ast.Attribute) and x.func.attr == "clear" and isinstance(x.func.value, ast.Attribute) and isinstance(x.func.value.value, ast.Name) \
                    and x.func.value.value.id == "self":
                cleared.add(x.func.value.attr)
            if isinstance(x, (ast.Assign, ast.AnnAssign)):
                for t in (x.targets if isinstance(x, ast.Assign) else [x.target]):
                    if isinstance(t, ast.Attribute) and isinstance(t.value, ast.Name) and t.value.id == "self":
                        cleared.add(t.attr)
    out = []
    for n in sorted(reg):
        m = methods[n]
        for st in ast.walk(m):
            if isinstance(st, ast.If) and any(isinstance(b, ast.Return) for b in st.body):
                for x in ast.walk(st.test):
                    if isinstance(x, ast.Attribute) and isinstance(x.value, ast.Name) and x.value.id == "self" and x.attr in tables and x.attr not in cleared:
                        # the table must be filled by this class itself from the tested argument (a memo), not configuration
                        fills = any(isinstance(c, ast.Call) and isinstance(c.func, ast.Attribute) and c.func.attr in ("add", "append", "setdefault", "update") and isinstance(c.func.value, ast.Attribute)
                                    and c.func.value.attr == x.attr for c in ast.walk(m)) or any(
                            isinstance(a, ast.Assign) and any(isinstance(t, ast.Subscript) and isinstance(t.value, ast.Attribute) and t.value.attr == x.attr for t in a.targets) for a in ast.walk(m))
                        if fills:
                            out.append((n, x.attr, st))
    return out, len(reg)


def rule_import_registration_not_memoised(repo: Repo, rep, rule: str = "R1.22") -> None:
    """One RenderContext serves the whole run; its import collector is emptied for every file (`set_current_file` -> `import_collector.reset()`).
    A method that registers imports and skips its work for an argument it has 'already seen' - a record kept on the context and not cleared with
    the collector - registers nothing in every later file: the first module gets `from typing import Any`, `client.py` does not (NameError)."""
    hz, n = _import_memo_hazards(ast.parse(_R122_EXAMPLE).body[0])
    rep.require(len(hz) == 1 and n >= 1, f"{rule}: the built-in positive example is no longer recognised - the rule is broken")
    mod = repo.module("context.render_context")
    cls = mod.classes.get("RenderContext")
    if cls is None:
        raise AnalysisError(f"{rule}: anchor vanished: RenderContext")
    hz, n = _import_memo_hazards(cls.node)
    rep.count(f"{rule}:registering_methods", n)
    rep.require(n >= 4, f"{rule}: only {n} import-registering methods found in RenderContext (floor 4)")
    sub = f"{mod.relpath}:RenderContext import registration vs. records that outlive a file"
    if hz:
        for name, table, st in hz:
            rep.violation(rule, sub + f" ({name})", f"{mod.name}:RenderContext.{name}|import-registration-memoised|{table}",
                          f"`{name}` returns early when its argument is in `self.{table}`, a record that is filled here and survives `set_current_file` (which empties the import "
                          "collector): in every file after the first the imports this call should register are missing - e.g. `Any` in client.py", f"{mod.relpath}:{st.lineno}")
    else:
        rep.ok(rule, sub, f"{n} registering methods: none is skipped on account of a record that outlives the per-file reset", f"{mod.relpath}:1")


# ---------------------------------------------------------------------------------------------------------------- R1.26
_R126_BUILTIN = {"str", "int", "float", "bool", "bytes", "dict", "list", "tuple", "set", "frozenset", "object", "None", "True", "False", "type", "complex"}
_R126_EXAMPLE = '''
def _resolve_string(self, schema, context, required):
    cls = "IPv4Address" if schema.format == "ipv4" else "IPv6Address"
    if schema.format == "date":
        context.add_import("datetime", "date")
        return ResolvedType(python_type="date")
    return ResolvedType(python_type=cls, needs_import=True, import_module="ipaddress", import_name=cls)
'''


def _r126_consts(fn_node: ast.AST, e: ast.AST, depth: int = 0) -> set[str] | None:
    """Constant strings expression `e` can evaluate to (None: not all known; constant fragments of f-strings count as far as known)."""
    if isinstance(e, ast.Constant):
        return {e.value} if isinstance(e.value, str) else set()
    if isinstance(e, ast.JoinedStr):
        return {v.value for v in e.values if isinstance(v, ast.Constant) and isinstance(v.value, str)}
    if isinstance(e, ast.IfExp):
        a, b = _r126_consts(fn_node, e.body, depth), _r126_consts(fn_node, e.orelse, depth)
        return (a or set()) | (b or set())
    if isinstance(e, ast.BoolOp):
        out: set[str] = set()
        for v in e.values:
            out |= _r126_consts(fn_node, v, depth) or set()
        return out
    if isinstance(e, ast.Dict):
        out = set()
        for v in e.values:
            out |= _r126_consts(fn_node, v, depth) or set()
        return out
    if isinstance(e, ast.Call) and isinstance(e.func, ast.Attribute) and e.func.attr == "get" and e.args:
        out = _r126_consts(fn_node, e.func.value, depth) or set()
        for d in e.args[1:]:
            out |= _r126_consts(fn_node, d, depth) or set()
        return out
    if isinstance(e, ast.Subscript):
        return _r126_consts(fn_node, e.value, depth)
    if isinstance(e, ast.Name) and depth < 4:
        out = set()
        for n in ast.walk(fn_node):
            if isinstance(n, ast.Assign) and any(isinstance(t, ast.Name) and t.id == e.id for t in n.targets):
                out |= _r126_consts(fn_node, n.value, depth + 1) or set()
            elif isinstance(n, ast.AnnAssign) and isinstance(n.target, ast.Name) and n.target.id == e.id and n.value is not None:
                out |= _r126_consts(fn_node, n.value, depth + 1) or set()
        return out
    return set()


def _r126_names(consts: set[str]) -> set[str]:
    import re as _re

    out: set[str] = set()
    for c in consts:
        # quoted forward references and literal values inside Literal[...] are not names
        c = _re.sub(r"'[^']*'|\"[^\"]*\"", "", c)
        out |= {t for t in _re.findall(r"[A-Za-z_][A-Za-z0-9_]*", c) if t not in _R126_BUILTIN}
    return out


def _r126_function(fn_node: ast.AST, helpers: dict[str, ast.AST], fields_consumed: bool) -> tuple[int, list[tuple[str, ast.AST]]]:
    """(number of type constructions with known names, [(name, construct)] lacking a registration in the function)."""
    registered: set[str] = set()
    wildcard = False
    for c in ast.walk(fn_node):
        if not isinstance(c, ast.Call):
            continue
        f = c.func
        fname = f.attr if isinstance(f, ast.Attribute) else f.id if isinstance(f, ast.Name) else None
        if fname in ("add_import", "add_typing_imports_for_type", "add_plain_import", "add_conditional_import"):
            for a in list(c.args) + [k.value for k in c.keywords]:
                registered |= _r126_names(_r126_consts(fn_node, a) or set())
        elif fname in helpers and fname != getattr(fn_node, "name", None):
            # a helper of the same module that registers what it is given
            for a in list(c.args) + [k.value for k in c.keywords]:
                registered |= _r126_names(_r126_consts(fn_node, a) or set())  # (a value this rule cannot enumerate creates no obligation either)
    sites = 0
    missing: list[tuple[str, ast.AST]] = []
    for c in ast.walk(fn_node):
        if not (isinstance(c, ast.Call) and (getattr(c.func, "id", None) == "ResolvedType" or getattr(c.func, "attr", None) == "ResolvedType")):
            continue
        pt = next((k.value for k in c.keywords if k.arg == "python_type"), c.args[0] if c.args else None)
        if pt is None:
            continue
        names = _r126_names(_r126_consts(fn_node, pt) or set())
        if not names:
            continue
        sites += 1
        if wildcard:
            continue
        if fields_consumed and any(k.arg == "import_module" for k in c.keywords) and any(k.arg == "import_name" for k in c.keywords):
            continue
        for nm in sorted(names - registered):
            missing.append((nm, c))
    return sites, missing


def rule_resolver_types_are_registered(repo: Repo, rep, rule: str = "R1.26") -> None:
    """The resolver answers with a type *string*; the only channel by which the module that uses the string gets the name bound is
    `context.add_import(...)` made while resolving (nothing reads `ResolvedType.needs_import / import_module / import_name`). A branch that answers
    with a class name - `UUID`, `date`, `IPv4Address`, `List[...]` - without registering it in the same function yields `NameError` when the
    generated model module is imported (annotations of dataclass fields are evaluated)."""
    ex = ast.parse(_R126_EXAMPLE).body[0]
    n, miss = _r126_function(ex, {}, False)
    rep.require(n == 2 and {m for m, _ in miss} == {"IPv4Address", "IPv6Address"}, f"{rule}: the built-in positive example is no longer recognised - the rule is broken")
    # is there a consumer of the descriptive fields that registers the import?
    fields_consumed = False
    for mod in repo.modules.values():
        if mod.name.endswith(("contracts.types",)) or ".types.contracts" in "." + mod.name:
            continue
        for fn in mod.functions.values():
            reads = any(isinstance(a, ast.Attribute) and a.attr == "import_module" and isinstance(a.ctx, ast.Load) for a in ast.walk(fn.node))
            regs = any(isinstance(c, ast.Call) and getattr(c.func, "attr", None) == "add_import" for c in ast.walk(fn.node))
            if reads and regs:
                fields_consumed = True
    total = 0
    bad = 0
    seen_mod = 0
    for mod in repo.modules.values():
        if ".types.resolvers." not in "." + mod.name + ".":
            continue
        seen_mod += 1
        helpers = {}
        for fn in mod.functions.values():
            if "<locals>" in fn.qualname:
                continue
            ps = set(fn.params)
            if any(isinstance(c, ast.Call) and getattr(c.func, "attr", None) == "add_import" and any(isinstance(a, ast.Name) and a.id in ps for a in c.args[1:2])
                   for c in ast.walk(fn.node)) and not any(isinstance(c, ast.Call) and getattr(c.func, "id", None) == "ResolvedType" for c in ast.walk(fn.node)):
                helpers[fn.name] = fn.node
        for fn in mod.functions.values():
            if "<locals>" in fn.qualname:
                continue
            n, miss = _r126_function(fn.node, helpers, fields_consumed)
            total += n
            for nm, c in miss:
                bad += 1
                rep.violation(rule, f"{mod.relpath}:{fn.qualname} answers with type name `{nm}`", f"{mod.name}:{fn.qualname}|resolved-type-name-unregistered|{nm}",
                              f"`ResolvedType(python_type=...)` can be `{nm}` but the function registers no import for `{nm}` (`context.add_import`); the fields "
                              "`needs_import/import_module/import_name` have no consumer, so the generated model module uses an unbound name and fails at import",
                              f"{mod.relpath}:{c.lineno}")
    if not seen_mod:
        raise AnalysisError(f"{rule}: anchor vanished: types.resolvers")
    rep.count(f"{rule}:named_type_constructions", total)
    rep.require(total >= 8, f"{rule}: only {total} `ResolvedType(python_type=<known names>)` constructions found in the resolvers (floor 8)")
    if not bad:
        rep.ok(rule, "types/resolvers: every type name a resolver branch can answer with is registered as an import in that branch's function",
               f"{total} constructions with statically known names; descriptive import fields consumed: {fields_consumed}", "src/pyopenapi_gen/types/resolvers/schema_resolver.py:1")
