"""C16 - the bundled converter obeys round-trip laws for any mapped dataclass.

R16.1  decoding failures become ValueError: every exceptional exit of structure_from_dict's try re-raises ValueError
R16.2  every descent of DataclassSerializer is guarded by the visited set (delegations to cattrs are unguarded)  [finding]
R16.3  None stripping / dict conversion on every return path of the serialiser
R16.4  the post-processor recurses with itself on containers (lists, dict values) so that every nested value is processed
R16.11 a field the Meta map does not list keeps its own name as wire key in both directions (decode and encode agree)            [= R3.13]
R16.10 the None-stripping pass descends into every dict and list (no return of the container as it came in)
R16.12 a process-wide "already registered" record identifies classes by the object, never by module / qualname only
R16.9  no value computed from a class is memoised on that class and read back through an inheriting lookup (getattr/hasattr/attribute)
R16.8  the raw-dict fallback of union decoding applies to dict[str, Any] only (guard evaluated over {str, other} x {Any, other})
R3.3/R3.4/R3.5 hook pairs inverse, rename plumbing, recursive registration (shared with C03)
R16.14 the wire-key maps the hook factories consult are collected over the whole MRO: `fields(cls)` contains the inherited fields, so a map read
       from the nearest `Meta` alone loses the keys of every base class as soon as a subclass declares its own Meta
R16.15 a handler of _structure_union that records why a variant was rejected keeps the nested error detail (the group walker `_extract_errors`),
       never `str(e)` alone: the message of a cattrs validation group is only its header, the offending field is in the sub-exceptions
R16.16 the per-class hooks hand the payload / the instance to the generated (un)structure function as they received it: the Meta maps (rename overrides)
       are the only key translation - no aliasing of keys, no dropping of null entries in front of it
R16.13 both dataclass hook factories resolve the field types (get_type_hints with extras, written back) before cattrs sees the class
"""
from __future__ import annotations

import ast
from typing import List, Set, Tuple

from rules import _converter as cv
from sa.cfg import CFG
from sa.model import full, AnalysisError, Repo, calls_in, dotted, norm, own_nodes, parent
from sa.match import Locals, match
from sa.report import Report


def run(repo: Repo, rep: Report, tier: str) -> None:
    from sa.report import guarded as _guarded

    _guarded(rep, cv.rule_hook_pairs, repo, rep, "R16.5")
    _guarded(rep, cv.rule_rename_plumbing, repo, rep, "R16.6")
    _guarded(rep, cv.rule_unlisted_field_keeps_its_name, repo, rep, "R16.11")
    _guarded(rep, cv.rule_recursive_registration, repo, rep, "R16.7")
    _guarded(rep, cv.rule_field_types_resolved, repo, rep, "R16.13")
    _guarded(rep, rule_meta_maps_over_mro, repo, rep, "R16.14")
    _guarded(rep, rule_variant_errors_keep_detail, repo, rep, "R16.15")
    _guarded(rep, rule_hooks_pass_values_through, repo, rep, "R16.16")
    _guarded(rep, rule_class_memo, repo, rep, "R16.9")
    _guarded(rep, rule_strip_descends, repo, rep, "R16.10")
    _guarded(rep, rule_memo_by_identity, repo, rep, "R16.12")
    conv = repo.module("core.cattrs_converter")
    # ---------------------------------------------------------------- R16.1
    sfd = conv.functions.get("structure_from_dict")
    if sfd is None:
        raise AnalysisError("anchor vanished: structure_from_dict")
    SL = Locals(sfd.node)
    tries = [n for n in own_nodes(sfd.node) if isinstance(n, ast.Try) and any(
        isinstance(c.func, ast.Attribute) and c.func.attr == "structure" and len(c.args) == 2 for st in n.body for c in calls_in(st))]
    rep.require(len(tries) == 1, f"R16.1: expected one try around converter.structure in structure_from_dict, found {len(tries)}")
    for tr in tries:
        catches_all = any(h.type is None or norm(h.type) in ("Exception", "BaseException") for h in tr.handlers)
        def _is_value_error(e: ast.AST) -> bool:
            ei = SL.inline(e)
            if norm(ei).startswith("ValueError("):
                return True
            # a factory of the module whose every return is a ValueError(...) (`raise _conversion_error(...) from e`)
            if isinstance(ei, ast.Call) and isinstance(ei.func, ast.Name) and ei.func.id in conv.functions:
                rets = [r for r in own_nodes(conv.functions[ei.func.id].node) if isinstance(r, ast.Return)]
                return bool(rets) and all(r.value is not None and norm(r.value).startswith("ValueError(") for r in rets)
            return False

        all_value = all(any(isinstance(s, ast.Raise) and s.exc is not None and _is_value_error(s.exc) and s.cause is not None for s in h.body) for h in tr.handlers)
        names_field = any("_extract_errors" in full(h) for h in tr.handlers)
        sub = f"{conv.relpath}:structure_from_dict error conversion"
        if catches_all and all_value and names_field:
            rep.ok("R16.1", sub, "every failure of converter.structure is re-raised as ValueError (validation errors with the field path from _extract_errors)", sfd.loc(tr))
        else:
            rep.violation("R16.1", sub, f"{sfd.fq}|errors|all={catches_all}|value={all_value}|path={names_field}",
                          "a decoding failure can leave structure_from_dict as something other than ValueError / without the offending field", sfd.loc(tr))
    ee = conv.functions.get("_extract_errors")
    ee_txt = ""
    if ee is not None:
        ee_txt = full(ee.node) + " " + " ".join(full(conv.functions[x.id].node) for x in ast.walk(ee.node) if isinstance(x, ast.Name) and x.id in conv.functions and x.id != ee.name)
    if ee is not None and "attribute" in ee_txt and "ClassValidationError" in ee_txt:
        rep.ok("R16.1", f"{conv.relpath}:_extract_errors", "descends ClassValidationError / IterableValidationError and builds the field path from cattrs' notes", ee.loc())
    else:
        rep.violation("R16.1", f"{conv.relpath}:_extract_errors", "extract-errors-shape", "_extract_errors no longer builds a field path", conv.relpath)

    # ---------------------------------------------------------------- R16.2 / R16.3 / R16.4 serialiser
    utils = repo.module("core.utils")
    ds = utils.classes.get("DataclassSerializer")
    if ds is None:
        raise AnalysisError("anchor vanished: DataclassSerializer")
    swt = ds.methods.get("_serialize_with_tracking")
    ead = ds.methods.get("_ensure_all_dicts")
    if swt is None or ead is None:
        raise AnalysisError("anchor vanished: DataclassSerializer helpers")
    cfg = CFG(swt.node)
    dom = cfg.dominators()
    WL = Locals(swt.node)
    if len(WL.params) < 2:
        raise AnalysisError("anchor vanished: _serialize_with_tracking(obj, visited) signature")
    p_obj, p_vis = WL.params[0], WL.params[1]

    def is_vis(e: ast.AST) -> bool:
        return isinstance(e, ast.Name) and WL.root(e.id) == p_vis

    def vis_call(n: ast.AST, meths: Tuple[str, ...]) -> bool:
        return any(isinstance(c.func, ast.Attribute) and c.func.attr in meths and is_vis(c.func.value) for c in calls_in(n))

    # `with <Class>._marked(obj_id, visited):` - a context manager of the class that adds on entry and removes in a finally
    def _cm_pairs_add_remove(f: Function) -> bool:
        decos = [(dotted(d.func if isinstance(d, ast.Call) else d) or "").split(".")[-1] for d in f.node.decorator_list]  # type: ignore[attr-defined]
        if "contextmanager" not in decos:
            return False
        has_add = any(isinstance(c, ast.Call) and isinstance(c.func, ast.Attribute) and c.func.attr == "add" for c in ast.walk(f.node))
        tries = [t for t in ast.walk(f.node) if isinstance(t, ast.Try) and t.finalbody and any(isinstance(y, (ast.Yield, ast.YieldFrom)) for b in t.body for y in ast.walk(b))
                 and any(isinstance(c, ast.Call) and isinstance(c.func, ast.Attribute) and c.func.attr in ("remove", "discard") for fb in t.finalbody for c in ast.walk(fb))]
        return has_add and bool(tries)

    cm_names = {hn for hn, hf in ds.methods.items() if _cm_pairs_add_remove(hf)}
    # ... or a small context-manager class of the module: __enter__ adds to the set it was given, __exit__ removes again
    for cname, c_ in utils.classes.items():
        en, ex_ = c_.methods.get("__enter__"), c_.methods.get("__exit__")
        if en is not None and ex_ is not None and any(isinstance(c, ast.Call) and isinstance(c.func, ast.Attribute) and c.func.attr == "add" for c in ast.walk(en.node)) \
                and any(isinstance(c, ast.Call) and isinstance(c.func, ast.Attribute) and c.func.attr in ("remove", "discard") for c in ast.walk(ex_.node)):
            cm_names.add(cname)
    cm_withs = [w for w in own_nodes(swt.node) if isinstance(w, ast.With) and any(
        isinstance(it.context_expr, ast.Call) and ((isinstance(it.context_expr.func, ast.Attribute) and it.context_expr.func.attr in cm_names)
                                                   or (isinstance(it.context_expr.func, ast.Name) and it.context_expr.func.id in cm_names))
        and any(is_vis(a) for a in it.context_expr.args) for it in w.items)]
    in_cm_with = {id(x) for w in cm_withs for st in w.body for x in ast.walk(st)}

    # visited check dominates every descent
    vis_tests = [n for n in cfg.nodes if n.kind == "test" and any(
        isinstance(x, ast.Compare) and len(x.ops) == 1 and isinstance(x.ops[0], ast.In) and is_vis(x.comparators[0]) for x in ast.walk(n.ast))]
    rep.require(bool(vis_tests), "R16.2: no `<id> in <visited>` test in _serialize_with_tracking (anchor)")
    descents = [n for n in cfg.nodes if n.kind == "stmt" and n.ast is not None and not n.copy and any(
        (dotted(c.func) or "").endswith(("_serialize_with_tracking", "_ensure_all_dicts", "unstructure_to_dict")) for c in calls_in(n.ast))]
    for dn in descents:
        calls = [dotted(c.func) or "" for c in calls_in(dn.ast)]
        guarded = any(t.id in dom[dn.id] for t in vis_tests)
        delegated = any(c.endswith("unstructure_to_dict") for c in calls)
        # is the object registered in visited around the call? (an enclosing try whose preceding statement is visited.add)
        added = any(isinstance(x.ast, ast.Expr) and vis_call(x.ast, ("add",)) and x.id in dom[dn.id] for x in cfg.nodes if x.ast is not None) or id(dn.ast) in in_cm_with
        what = "delegation to cattrs" if delegated else "recursive descent"
        sub = f"{utils.relpath}:DataclassSerializer._serialize_with_tracking {what} ({'tracked' if added else 'untracked'} object)"
        if delegated:
            rep.violation("R16.2", sub, f"{swt.fq}|unguarded-delegation|{'dataclass' if added else 'other'}",
                          "the whole subtree is handed to cattrs' unstructure, which has no cycle guard: a reference cycle that runs through an `Any` field "
                          "or a plain dict/list container recurses until RecursionError", swt.loc(dn.ast))
        elif guarded and added:
            rep.ok("R16.2", sub, "descends with the object registered in `visited` (cycle -> None)", swt.loc(dn.ast))
        elif guarded:
            rep.ok("R16.2", sub, "post-processing under the visited check", swt.loc(dn.ast))
        else:
            rep.violation("R16.2", sub, f"{swt.fq}|unguarded-descent|{what}", "a recursive descent is not dominated by the visited check", swt.loc(dn.ast))
    # visited.add is always undone (try/finally)
    adds = [n for n in own_nodes(swt.node) if isinstance(n, ast.Expr) and vis_call(n, ("add",))]
    fin = [t for t in own_nodes(swt.node) if isinstance(t, ast.Try) and t.finalbody and any(vis_call(f, ("remove", "discard")) for f in t.finalbody)]
    if (adds or cm_withs) and len(fin) == len(adds):
        rep.ok("R16.2", f"{utils.relpath}:_serialize_with_tracking visited bookkeeping",
               f"{len(adds)} visited.add each undone in a finally" + (f", {len(cm_withs)} `with` block(s) of an add/finally-remove context manager" if cm_withs else ""), swt.loc())
    elif not adds:
        raise AnalysisError("anchor vanished: no <visited>.add(...) statement in _serialize_with_tracking")
    else:
        rep.violation("R16.2", f"{utils.relpath}:_serialize_with_tracking visited bookkeeping", f"{swt.fq}|visited-balance|{len(adds)}|{len(fin)}",
                      "visited.add is not always undone in a finally: after an error, or for shared (non-cyclic) sub-objects, values are dropped as 'cycles'", swt.loc())
    # R16.3: every return that can carry a container strips None
    for i, r in enumerate([n for n in own_nodes(swt.node) if isinstance(n, ast.Return) and n.value is not None]):
        v = norm(r.value)
        vi = WL.inline(r.value, stop=tuple(WL.params))
        sub = f"{utils.relpath}:_serialize_with_tracking return #{i + 1}"
        recursive_items = any(isinstance(c.func, ast.Attribute) and c.func.attr == "_serialize_with_tracking" and len(c.args) == 2 and is_vis(c.args[1])
                              for c in ast.walk(vi) if isinstance(c, ast.Call))
        if not recursive_items and isinstance(r.value, ast.Name):
            # a list built item by item: `out = []` ... `out.append(<recursive call>)` ... `return out`
            nm = r.value.id
            inits = [v for k_, v, _ in WL.defs.get(nm, []) if v is not None]
            apps = [c for c in calls_in(swt.node) if isinstance(c.func, ast.Attribute) and isinstance(c.func.value, ast.Name) and c.func.value.id == nm]
            if inits and all(isinstance(v, ast.List) and not v.elts for v in inits) and apps and all(
                    c.func.attr == "append" and c.args and any(isinstance(x, ast.Call) and isinstance(x.func, ast.Attribute) and x.func.attr == "_serialize_with_tracking"
                                                                and len(x.args) == 2 and is_vis(x.args[1]) for x in ast.walk(c.args[0])) for c in apps):
                recursive_items = True
        if (isinstance(r.value, ast.Name) and WL.root(r.value.id) == p_obj) or (isinstance(r.value, ast.Constant) and r.value.value is None) or "b64encode" in norm(vi):
            rep.ok("R16.3", sub, f"`return {v[:50]}`: primitive / cycle marker / encoded bytes", swt.loc(r))
        elif isinstance(r.value, ast.Attribute) and r.value.attr in ("value", "_value_") and isinstance(r.value.value, ast.Name) and WL.root(r.value.value.id) == p_obj:
            rep.ok("R16.3", sub, f"`return {v[:50]}`: the value of an enum member (a leaf)", swt.loc(r))
        elif "_remove_none_values" in norm(vi) or recursive_items:
            rep.ok("R16.3", sub, f"`return {v[:50]}`: None-valued keys are stripped (or items are serialised recursively)", swt.loc(r))
        else:
            rep.violation("R16.3", sub, f"{swt.fq}|return-unstripped|{i + 1}", f"`return {v[:50]}`: a container can be returned without None stripping", swt.loc(r))
    # R16.4 post-processor recursion
    EL = Locals(ead.node)
    if len(EL.params) < 2:
        raise AnalysisError("anchor vanished: _ensure_all_dicts(obj, visited) signature")
    e_obj, e_vis = EL.params[0], EL.params[1]

    def tests_type(t: ast.AST, tyname: str) -> bool:
        for x in ast.walk(t):
            m = match(f"isinstance(VAR_o, {tyname})", x)
            if m is not None and EL.root(m["VAR_o"]) == e_obj:
                return True
            if isinstance(x, ast.Call) and dotted(x.func) == "isinstance" and len(x.args) == 2 and isinstance(x.args[0], ast.Name) and EL.root(x.args[0].id) == e_obj \
                    and isinstance(x.args[1], ast.Tuple) and any(isinstance(e, ast.Name) and e.id == tyname for e in x.args[1].elts):
                return True
        return False

    for branch in ("list", "dict"):
        ifs = [n for n in own_nodes(ead.node) if isinstance(n, ast.If) and tests_type(n.test, branch)]
        sub = f"{utils.relpath}:_ensure_all_dicts {branch} branch"
        if len(ifs) != 1:
            rep.violation("R16.4", sub, f"{ead.fq}|branch-missing|{branch}", f"no `isinstance(<obj>, {branch})` branch", ead.loc())
            continue
        # the statements executed when the test holds: the body - or, for `if not isinstance(...): return ...`, what follows the If
        t0 = ifs[0].test
        negated = isinstance(t0, ast.UnaryOp) and isinstance(t0.op, ast.Not)
        region: List[ast.AST] = list(ifs[0].body)
        if negated and ifs[0].body and isinstance(ifs[0].body[-1], (ast.Return, ast.Raise, ast.Continue)):
            region = list(ifs[0].orelse)
            for holder in [ead.node] + [n for n in own_nodes(ead.node)]:
                for fld in ("body", "orelse", "finalbody"):
                    blk = getattr(holder, fld, None)
                    if isinstance(blk, list) and ifs[0] in blk:
                        region += blk[blk.index(ifs[0]) + 1:]
        rec = [c for st in region for c in calls_in(st) if (dotted(c.func) or "").endswith("._ensure_all_dicts")]
        other = [c for st in region for c in calls_in(st) if (dotted(c.func) or "").endswith("._serialize_with_tracking")]
        if rec and not other:
            rep.ok("R16.4", sub, "recurses with _ensure_all_dicts on every element/value (dataclasses, dicts and lists inside are all post-processed)", ead.loc(ifs[0]))
        else:
            rep.violation("R16.4", sub, f"{ead.fq}|{branch}-recursion|rec={len(rec)}|other={len(other)}",
                          f"the {branch} branch does not recurse with _ensure_all_dicts: nested plain dicts bypass the cycle guard / post-processing and "
                          "un-serialisable objects can remain in the output", ead.loc(ifs[0]))
    dcb = [n for n in own_nodes(ead.node) if isinstance(n, ast.If) and any(
        isinstance(c, ast.Call) and (dotted(c.func) or "").endswith("is_dataclass") and c.args and isinstance(c.args[0], ast.Name) and EL.root(c.args[0].id) == e_obj
        for c in ast.walk(n.test))]
    if dcb and any((dotted(c.func) or "").endswith("._serialize_with_tracking") and any(isinstance(a, ast.Name) and EL.root(a.id) == e_vis for a in c.args) for c in calls_in(dcb[0])):
        rep.ok("R16.4", f"{utils.relpath}:_ensure_all_dicts dataclass branch", "a leftover dataclass instance re-enters the guarded serialiser with the same visited set", ead.loc(dcb[0]))
    else:
        rep.violation("R16.4", f"{utils.relpath}:_ensure_all_dicts dataclass branch", f"{ead.fq}|dataclass-branch", "leftover dataclass instances are not re-serialised with the shared visited set", ead.loc())

    # ---------------------------------------------------------------- R16.8 the raw-dict fallback of unions applies to dict[str, Any] only
    _dict_fallback_rule(repo, rep)


class _T:
    """symbolic type objects for the evaluation of the variant-classification test"""
    def __init__(self, name: str):
        self.name = name

    def __repr__(self) -> str:
        return self.name


def _dict_fallback_rule(repo: Repo, rep: Report) -> None:
    """In _structure_union a `dict[K, V]` member switches on "return the payload dict as it is".  That is only lossless for dict[str, Any];
    for dict[str, Model] the values must be structured.  The guard of the flag assignment is evaluated (on its AST) for the four
    combinations of K in {str, other} and V in {Any, other}."""
    conv = repo.module("core.cattrs_converter")
    su = conv.functions.get("_structure_union")
    if su is None:
        raise AnalysisError("anchor vanished: _structure_union")
    if not any(isinstance(c, ast.Call) and (dotted(c.func) or "").endswith("is_dataclass") for c in ast.walk(su.node)):
        from sa.flatten import flatten as _fl168

        su = _fl168(su)  # the variant classification was moved into a helper
    L = Locals(su.node)
    data_param = su.params[0] if su.params else "data"
    # the flag: a local set to True somewhere and tested in `if <flag> ...: return <payload>`
    flags = set()
    for n in own_nodes(su.node):
        if isinstance(n, ast.If) and any(isinstance(r, ast.Return) and isinstance(r.value, ast.Name) and r.value.id == data_param for r in n.body):
            def _set_true(name: str, depth: int = 0) -> bool:
                """some definition (possibly through plain copies `a = b`) binds the name to the literal True"""
                for k, v, _ in L.defs.get(name, []):
                    if k == "assign" and isinstance(v, ast.Constant) and v.value is True:
                        return True
                    if k == "assign" and isinstance(v, ast.Name) and depth < 3 and _set_true(v.id, depth + 1):
                        return True
                return False

            flags |= {x.id for x in ast.walk(n.test) if isinstance(x, ast.Name) and _set_true(x.id)}
    rep.require(len(flags) == 1, f"R16.8: the raw-dict fallback flag of _structure_union was not found ({sorted(flags)})")
    if len(flags) != 1:
        return
    flag = sorted(flags)[0]
    sets = [n for n in own_nodes(su.node) if isinstance(n, ast.Assign) and isinstance(n.targets[0], ast.Name) and n.targets[0].id == flag
            and isinstance(n.value, ast.Constant) and n.value.value is True]
    STR, ANY, OTHER_K, OTHER_V = _T("str"), _T("Any"), _T("bytes"), _T("Model")

    def ev(e: ast.AST, env: dict):
        if isinstance(e, ast.Constant):
            return e.value
        if isinstance(e, ast.Name):
            if e.id in env:
                return env[e.id]
            return {"str": STR, "Any": ANY, "dict": "dict-origin", "None": None}.get(e.id, _T(e.id))
        if isinstance(e, ast.Tuple):
            return tuple(ev(x, env) for x in e.elts)
        if isinstance(e, ast.Call) and dotted(e.func) in ("get_args", "typing.get_args"):
            return env["$args"]
        if isinstance(e, ast.Call) and dotted(e.func) in ("get_origin", "typing.get_origin"):
            return "dict-origin"
        if isinstance(e, ast.Call) and dotted(e.func) == "len" and e.args:
            return len(ev(e.args[0], env))
        if isinstance(e, ast.Subscript) and isinstance(e.slice, ast.Constant):
            return ev(e.value, env)[e.slice.value]
        if isinstance(e, ast.BoolOp):
            r = None
            for v in e.values:
                r = ev(v, env)
                if isinstance(e.op, ast.And) and not r:
                    return r
                if isinstance(e.op, ast.Or) and r:
                    return r
            return r
        if isinstance(e, ast.UnaryOp) and isinstance(e.op, ast.Not):
            return not ev(e.operand, env)
        if isinstance(e, ast.Compare) and len(e.ops) == 1:
            a, b = ev(e.left, env), ev(e.comparators[0], env)
            op = e.ops[0]
            if isinstance(op, (ast.Eq, ast.Is)):
                return a == b if not isinstance(a, _T) or not isinstance(b, _T) else a is b
            if isinstance(op, (ast.NotEq, ast.IsNot)):
                return not (a == b if not isinstance(a, _T) or not isinstance(b, _T) else a is b)
            if isinstance(op, ast.In):
                return a in b
        raise AnalysisError(f"R16.8: cannot evaluate `{norm(e)[:60]}` in the variant classification")

    for st in sets:
        # statements of the enclosing branch that precede the assignment, and the chain of tests leading to it
        chain: List[Tuple[ast.AST, bool]] = []
        pre: List[ast.stmt] = []
        child: ast.AST = st
        p = parent(st)
        while p is not None and p is not su.node:
            if isinstance(p, ast.If):
                in_body = any(child is b for b in p.body)
                chain.append((p.test, in_body))
                blk = p.body if in_body else p.orelse
            else:
                blk = getattr(p, "body", [])
            if isinstance(blk, list) and child in blk:
                pre = [x for x in blk[: blk.index(child)] if isinstance(x, (ast.Assign, ast.AnnAssign))] + pre
            if isinstance(p, (ast.For, ast.While)):
                break
            child, p = p, parent(p)
        verdict = {}
        for k in (STR, OTHER_K):
            for v in (ANY, OTHER_V):
                env = {"$args": (k, v)}
                ok = True
                for t, pol in reversed(chain):
                    # bind the assignments that precede (tuple unpacking included)
                    for a in pre:
                        tg = a.targets[0] if isinstance(a, ast.Assign) else a.target
                        try:
                            val = ev(a.value, env)
                        except AnalysisError:
                            continue
                        if isinstance(tg, ast.Name):
                            env[tg.id] = val
                        elif isinstance(tg, ast.Tuple) and isinstance(val, tuple) and len(val) == len(tg.elts):
                            for el, x in zip(tg.elts, val):
                                if isinstance(el, ast.Name):
                                    env[el.id] = x
                    if any(isinstance(x, ast.Call) and dotted(x.func) in ("isinstance", "dataclasses.is_dataclass") for x in ast.walk(t)) or (
                            isinstance(t, ast.Compare) and isinstance(t.ops[0], ast.Is) and "type(None)" in norm(t)):
                        continue  # the earlier arms of the chain (None / dataclass members) do not concern dict members
                    if bool(ev(t, env)) != pol:
                        ok = False
                verdict[(k.name, v.name)] = ok
        sub = f"{conv.relpath}:_structure_union raw-dict fallback condition"
        wrong = sorted(kv for kv, r in verdict.items() if r != (kv == ("str", "Any")))
        if not wrong:
            rep.ok("R16.8", sub, "the payload dict is passed through unchanged only for dict[str, Any]", su.loc(st))
        else:
            rep.violation("R16.8", sub, f"{su.fq}|dict-fallback|{wrong}",
                          f"the 'return the raw dict' fallback is (not) taken for dict{wrong}: e.g. Optional[dict[str, Model]] comes back as plain dicts - "
                          "the values are never structured and encoding them again fails", su.loc(st))


# ------------------------------------------------------------------------------------------------ R16.9 per-class memo lookups
_R169_EXAMPLE = '''
def make(captured_cls):
    def hook(obj):
        fn = getattr(captured_cls, "_memo_fn", None)
        if fn is None:
            fn = _build(captured_cls)
            setattr(captured_cls, "_memo_fn", fn)
        return fn(obj)
    return hook
'''


def _class_memo_hazards(tree: ast.AST):
    """(attribute, store node, read node) for every value that is computed *from a class object*, stored on that class under a constant
    attribute name and read back through an inheritance-aware lookup (getattr / hasattr / plain attribute access): a subclass
    without its own entry then finds its parent's value.  `vars(cls)` / `cls.__dict__` lookups are per class and are fine."""
    stores = {}  # attr -> (node, holder expr text)
    for n in ast.walk(tree):
        holder = attr = val = None
        if isinstance(n, ast.Call) and isinstance(n.func, ast.Name) and n.func.id == "setattr" and len(n.args) == 3 and isinstance(n.args[1], ast.Constant) and isinstance(n.args[1].value, str):
            holder, attr, val = n.args[0], n.args[1].value, n.args[2]
        elif isinstance(n, ast.Assign) and len(n.targets) == 1 and isinstance(n.targets[0], ast.Attribute) and isinstance(n.targets[0].value, ast.Name) and n.targets[0].value.id != "self":
            holder, attr, val = n.targets[0].value, n.targets[0].attr, n.value
        if holder is None or not isinstance(holder, ast.Name):
            continue
        # the stored value is specific to the holder: it is (a local bound to) a call that takes the holder as an argument
        fn = n
        while getattr(fn, "_parent", None) is not None and not isinstance(fn, (ast.FunctionDef, ast.AsyncFunctionDef)):
            fn = fn._parent  # type: ignore[attr-defined]
        cands = [val]
        if isinstance(val, ast.Name) and isinstance(fn, (ast.FunctionDef, ast.AsyncFunctionDef)):
            cands += [a.value for a in ast.walk(fn) if isinstance(a, ast.Assign) and any(isinstance(t, ast.Name) and t.id == val.id for t in a.targets)]
        specific = any(isinstance(c, ast.Call) and any(isinstance(a, ast.Name) and a.id == holder.id for a in c.args) for v in cands for c in ast.walk(v))
        if specific:
            stores[attr] = n
    out = []
    for n in ast.walk(tree):
        if isinstance(n, ast.Call) and isinstance(n.func, ast.Name) and n.func.id in ("getattr", "hasattr") and len(n.args) >= 2 and isinstance(n.args[1], ast.Constant) and n.args[1].value in stores:
            out.append((n.args[1].value, stores[n.args[1].value], n))
        elif isinstance(n, ast.Attribute) and isinstance(n.ctx, ast.Load) and n.attr in stores and not (isinstance(n.value, ast.Name) and n.value.id == "self"):
            out.append((n.attr, stores[n.attr], n))
    return out, stores


def rule_class_memo(repo: Repo, rep: Report, rule: str = "R16.9") -> None:
    from sa.model import set_parents

    ex = ast.parse(_R169_EXAMPLE)
    set_parents(ex)
    hz, _ = _class_memo_hazards(ex)
    rep.require(len(hz) == 1, f"{rule}: the built-in positive example is no longer recognised ({len(hz)} hazards) - the rule is broken")
    n_mod = 0
    for m in repo.modules.values():
        if ".core." not in "." + m.name + ".":
            continue
        if not any(m.relpath.endswith(x) for x in ("cattrs_converter.py", "utils.py", "schemas.py")):
            continue
        n_mod += 1
        if not hasattr(m.tree.body[0], "_parent"):
            set_parents(m.tree)
        hz, stores = _class_memo_hazards(m.tree)
        sub = f"{m.relpath} per-class memo lookups"
        if not hz:
            rep.ok(rule, sub, f"no value computed from a class is stored on it and read back through an inheriting lookup ({len(stores)} class-specific store(s))", f"{m.relpath}:1")
        for attr, st, rd in hz:
            rep.violation(rule, sub + f" `{attr}`", f"{m.relpath}|inherited-class-memo|{attr}",
                          f"`{norm(st)[:70]}` keeps a value computed for one class on that class, and `{norm(rd)[:60]}` reads it with an inheritance-aware lookup: "
                          "a dataclass that extends another one finds its parent's entry, so the subclass is encoded/decoded with the parent's field set "
                          "(its own fields are dropped) - use vars(cls)/cls.__dict__ or a dict keyed by the class", f"{m.relpath}:{rd.lineno}")
    rep.require(n_mod >= 1, f"{rule}: the converter module was not found (anchor)")
    rep.count(f"{rule}:modules", n_mod)


# ------------------------------------------------------------------------------------------------ R16.10 None-stripping descends everywhere
def rule_strip_descends(repo: Repo, rep: Report, rule: str = "R16.10") -> None:
    """`_remove_none_values` must look inside every container: in its dict and list branches every `return` is built from recursive calls
    on the members - returning the container as it came in (a 'nothing to strip here' shortcut) leaves the None-valued keys of nested
    dicts in the output."""
    utils = repo.module("core.utils")
    ds = utils.classes.get("DataclassSerializer")
    fn = ds.methods.get("_remove_none_values") if ds is not None else None
    if fn is None:
        raise AnalysisError("anchor vanished: DataclassSerializer._remove_none_values")
    # a thin alias (`return _strip(obj)`) is followed to the function that does the work
    for _ in range(2):
        body = [s for s in fn.node.body if not (isinstance(s, ast.Expr) and isinstance(s.value, ast.Constant))]  # type: ignore[attr-defined]
        if len(body) == 1 and isinstance(body[0], ast.Return) and isinstance(body[0].value, ast.Call):
            callee = body[0].value.func
            name = callee.id if isinstance(callee, ast.Name) else callee.attr if isinstance(callee, ast.Attribute) else None
            tgt = utils.functions.get(name or "") or (ds.methods.get(name or "") if ds is not None else None)
            if tgt is not None and tgt is not fn:
                fn = tgt
                continue
        break
    p = [a for a in fn.params if a not in ("self", "cls")][0]
    from sa.cfg import guards as _g1610

    cfg = CFG(fn.node)
    dom = cfg.dominators()
    # names the function itself goes by inside its body: its own name, and locals bound to it (`strip = DataclassSerializer._remove_none_values`)
    selfnames = {fn.name}
    for st in own_nodes(fn.node):
        if isinstance(st, ast.Assign) and len(st.targets) == 1 and isinstance(st.targets[0], ast.Name) and (
                (isinstance(st.value, ast.Attribute) and st.value.attr == fn.name) or (isinstance(st.value, ast.Name) and st.value.id == fn.name)):
            selfnames.add(st.targets[0].id)

    def is_self_call(c: ast.AST) -> bool:
        return isinstance(c, ast.Call) and ((isinstance(c.func, ast.Attribute) and c.func.attr in selfnames) or (isinstance(c.func, ast.Name) and c.func.id in selfnames))

    def branch_of(node_id: int) -> Set[str]:
        """container kinds the object is known to be on the way to this node (`isinstance(obj, dict)` true, or `not isinstance(obj, dict)` false)"""
        out: Set[str] = set()
        for g, pol in _g1610(cfg, node_id, dom):
            if g.kind != "test" or pol is None:
                continue
            t, pl = g.ast, pol
            while isinstance(t, ast.UnaryOp) and isinstance(t.op, ast.Not):
                t, pl = t.operand, not pl
            if isinstance(t, ast.Call) and dotted(t.func) == "isinstance" and len(t.args) == 2 and isinstance(t.args[0], ast.Name) and t.args[0].id == p and pl:
                for k in ("dict", "list"):
                    if k in norm(t.args[1]):
                        out.add(k)
        return out

    ret_nodes = [n for n in cfg.nodes if n.kind == "stmt" and isinstance(n.ast, ast.Return) and not n.copy]
    n_br = 0
    for branch in ("dict", "list"):
        sub = f"{utils.relpath}:{fn.qualname} {branch} branch"
        nodes = [n for n in ret_nodes if branch in branch_of(n.id)]
        rets = [n.ast for n in nodes]
        if not rets:
            rep.violation(rule, sub, f"{fn.fq}|strip-branch-missing|{branch}", f"no `isinstance({p}, {branch})` branch: {branch} members are not searched for None values", fn.loc())
            continue
        n_br += 1
        bare = [r for r in rets if r.value is None or (isinstance(r.value, ast.Name) and r.value.id == p)]
        recursive = [r for r in rets if r.value is not None and any(is_self_call(c) for c in ast.walk(r.value))]
        # a return of a local that was built from recursive calls counts as recursive
        built = {t.id for a in own_nodes(fn.node) if isinstance(a, (ast.Assign, ast.AnnAssign, ast.Expr))
                 for t in ast.walk(a) if isinstance(t, ast.Name) and any(is_self_call(c) for c in ast.walk(a))}
        other = [r for r in rets if r not in bare and r not in recursive and not (isinstance(r.value, ast.Name) and r.value.id in built)]
        if bare:
            rep.violation(rule, sub, f"{fn.fq}|strip-returns-container-unsearched|{branch}",
                          f"`{norm(bare[0])}` hands the {branch} back without descending into its members: a dict whose own values are all set but that contains a nested dict "
                          "/ dataclass with None fields keeps those null-valued keys in the serialised output", fn.loc(bare[0]))
        elif other:
            rep.error(f"{rule}: cannot evaluate `{norm(other[0])[:60]}` in the {branch} branch of {fn.qualname}")
        else:
            rep.ok(rule, sub, "every return is built from recursive calls on the members", fn.loc(rets[0]))
    rep.count(f"{rule}:branches", n_br)


# ------------------------------------------------------------------------------------------------ R16.12 "already done for this class" is remembered per class object
_R1612_EXAMPLE = '''
_hooked = set()

def _needs_hook(kind, cls):
    key = (kind, cls.__module__, cls.__qualname__)
    if key in _hooked:
        return False
    _hooked.add(key)
    return True
'''
_NAME_ATTRS = {"__name__", "__qualname__", "__module__"}


def _name_keyed_memos(tree: ast.AST):
    """[(function, container, key expression)] for module-level containers that a function both tests (`K in G`) and fills (`G.add(K)`,
    `G[K] = ...`) with a key K that identifies a parameter only by its *names* (`p.__name__`, `p.__qualname__`, `p.__module__`) and not by
    the object itself."""
    mod_containers = set()
    for st in getattr(tree, "body", []):
        if isinstance(st, (ast.Assign, ast.AnnAssign)):
            t = st.targets[0] if isinstance(st, ast.Assign) else st.target
            v = st.value
            if isinstance(t, ast.Name) and v is not None and (isinstance(v, (ast.Dict, ast.Set, ast.List)) or (
                    isinstance(v, ast.Call) and (dotted(v.func) or "").split(".")[-1] in ("set", "dict", "list", "defaultdict", "WeakSet", "WeakKeyDictionary", "OrderedDict"))):
                mod_containers.add(t.id)
    out, n = [], 0
    for fn in ast.walk(tree):
        if not isinstance(fn, (ast.FunctionDef, ast.AsyncFunctionDef)):
            continue
        L = Locals(fn)
        params = set(L.params)
        tests = [(c.left, c.comparators[0].id) for c in ast.walk(fn) if isinstance(c, ast.Compare) and len(c.ops) == 1 and isinstance(c.ops[0], (ast.In, ast.NotIn))
                 and isinstance(c.comparators[0], ast.Name) and c.comparators[0].id in mod_containers]
        for key, g in tests:
            fills = [c for c in ast.walk(fn) if (isinstance(c, ast.Call) and isinstance(c.func, ast.Attribute) and c.func.attr in ("add", "append", "setdefault") and isinstance(c.func.value, ast.Name)
                                                  and c.func.value.id == g) or (isinstance(c, ast.Assign) and any(isinstance(t, ast.Subscript) and isinstance(t.value, ast.Name) and t.value.id == g
                                                                                                                       for t in c.targets))]
            if not fills:
                continue
            n += 1
            ki = L.inline(key, stop=tuple(params))
            by_name = [x for x in ast.walk(ki) if isinstance(x, ast.Attribute) and x.attr in _NAME_ATTRS and isinstance(x.value, ast.Name) and x.value.id in params]
            whole = set()
            for x in ast.walk(ki):
                if isinstance(x, ast.Name) and x.id in params:
                    par = getattr(x, "_parent", None)
                    whole.add(x.id)
            # parameters that occur in the key *only* below a name attribute
            named = {x.value.id for x in by_name}
            bare = set()
            for x in ast.walk(ki):
                for ch in ast.iter_child_nodes(x):
                    if isinstance(ch, ast.Name) and ch.id in named and not (isinstance(x, ast.Attribute) and x.attr in _NAME_ATTRS):
                        bare.add(ch.id)
            if isinstance(ki, ast.Name) and ki.id in named:
                bare.add(ki.id)
            only_named = named - bare
            if only_named:
                out.append((fn, g, ki if isinstance(key, ast.Name) else key, sorted(only_named)))
    return out, n


def rule_memo_by_identity(repo: Repo, rep, rule: str = "R16.12") -> None:
    """The converter dispatches on class *objects* (`t is captured_cls`).  A process-wide record of "this class already has its hooks" must
    therefore remember class objects too.  Keyed by `(module, qualname)` it answers 'done' for a second, distinct class that merely has the
    same name (a model built by a factory, a reloaded module): that class never gets a hook, is handled by cattrs' default and loses its
    wire-key maps in both directions."""
    hz, n = _name_keyed_memos(ast.parse(_R1612_EXAMPLE))
    rep.require(len(hz) == 1 and n == 1, f"{rule}: the built-in positive example is no longer recognised - the rule is broken")
    n_mod = n_memo = 0
    found = False
    for modname, filename, dst, line in runtime_files_of(repo):
        dn = f"{modname}.{filename[:-3]}"
        if dn not in repo.modules:
            continue
        mod = repo.modules[dn]
        n_mod += 1
        hz, n = _name_keyed_memos(mod.tree)
        n_memo += n
        for fn, g, key, ps in hz:
            found = True
            rep.violation(rule, f"{mod.relpath}:{fn.name} records `{norm(key)[:50]}` in `{g}`", f"{mod.name}:{fn.name}|memo-keyed-by-name|{g}",
                          f"`{g}` remembers {ps} by name only (`{norm(key)[:70]}`), while hooks are dispatched on the class object: a second class with the same module and "
                          "qualname is taken for the first, gets no hook of its own and is converted without its Meta key maps (wrong wire keys, decode failures)",
                          f"{mod.relpath}:{getattr(key, 'lineno', fn.lineno)}")
    rep.count(f"{rule}:runtime_modules", n_mod)
    rep.count(f"{rule}:module_level_memos", n_memo)
    rep.require(n_mod >= 6, f"{rule}: only {n_mod} runtime modules analysed (floor 6)")
    if not found:
        rep.ok(rule, "runtime modules: process-wide 'already done' records", f"{n_memo} record(s) in {n_mod} modules: none identifies a class by its names only", "src/pyopenapi_gen/core:1")


def runtime_files_of(repo: Repo):
    from rules.c12 import runtime_files

    return runtime_files(repo)


# ------------------------------------------------------------------------------------------------ R16.14 Meta maps are collected over the MRO
_MAPS = ("key_transform_with_load", "key_transform_with_dump")


def _meta_map_reads(conv, fn_node: ast.AST, depth: int = 0, seen=None):
    """[(function node in which the Meta map is read, the read)] for `fn_node` and - transitively, three levels - the module helpers it calls"""
    seen = set() if seen is None else seen
    out = []
    for x in ast.walk(fn_node):
        if isinstance(x, ast.Attribute) and x.attr in _MAPS:
            out.append((fn_node, x))
        elif isinstance(x, ast.Call):
            d = dotted(x.func) or ""
            named = any(isinstance(a, ast.Constant) and a.value in _MAPS for a in x.args)
            if named and d in ("getattr", "hasattr"):
                out.append((fn_node, x))
            elif d in conv.functions and depth < 3 and d not in seen:
                callee = conv.functions[d].node
                if named:
                    out.append((callee, x))  # the helper is handed the map name: the read happens in it
                else:
                    out += _meta_map_reads(conv, callee, depth + 1, seen | {d})
    return out


def rule_meta_maps_over_mro(repo: Repo, rep, rule: str = "R16.14") -> None:
    conv = repo.module("core.cattrs_converter")
    for fname in ("_make_dataclass_structure_fn", "_make_dataclass_unstructure_fn"):
        fn = conv.functions.get(fname)
        if fn is None:
            raise AnalysisError(f"anchor vanished: {fname}")
        inherited = any((dotted(c.func) or "").split(".")[-1] == "fields" for c in calls_in(fn.node))
        reads = _meta_map_reads(conv, fn.node)
        if not reads:
            raise AnalysisError(f"{rule}: {fname} no longer reads a Meta key map (anchor)")
        sub = f"{conv.relpath}:{fname} wire-key map of inherited fields"
        if not inherited:
            rep.ok(rule, sub, "the factory does not iterate dataclasses.fields(cls): no inherited field is looked up in the map", fn.loc())
            continue
        bad = [r for where, r in reads if not any((isinstance(y, ast.Attribute) and y.attr in ("__mro__", "mro", "__bases__")) for y in ast.walk(where))]
        if bad:
            rep.violation(rule, sub, f"{fn.fq}|meta-map-of-nearest-class-only",
                          f"`{norm(bad[0])[:70]}`: the map is taken from the Meta that attribute lookup finds first, while the loop runs over dataclasses.fields(cls) - inherited "
                          "fields included: as soon as a subclass declares a Meta of its own the base class's keys are gone (decode fails on `createdAt`, encode emits `created_at`)", fn.loc(bad[0]))
        else:
            rep.ok(rule, sub, "the map is collected from every class of the MRO", fn.loc(reads[0][1]))


# ------------------------------------------------------------------------------------------------ R16.15 rejected variants keep their error detail
def rule_variant_errors_keep_detail(repo: Repo, rep, rule: str = "R16.15") -> None:
    conv = repo.module("core.cattrs_converter")
    su = conv.functions.get("_structure_union")
    if su is None:
        raise AnalysisError("anchor vanished: _structure_union")
    if "_extract_errors" not in conv.functions:
        raise AnalysisError(f"{rule}: the validation-group walker _extract_errors vanished (anchor)")
    n = 0
    for h in sorted([x for x in own_nodes(su.node) if isinstance(x, ast.ExceptHandler) and x.name], key=lambda x: x.lineno):
        # a handler that *records* the failure: <list>.append(... e ...) with the exception rendered as text
        recs = [c for c in calls_in(h) if isinstance(c.func, ast.Attribute) and c.func.attr == "append" and any(isinstance(y, ast.Name) and y.id == h.name for a in c.args for y in ast.walk(a))]
        hdl_name = h.name
        if not recs:
            continue
        n += 1
        sub = f"{conv.relpath}:_structure_union rejected-variant record #{n}"
        detail = any((dotted(c.func) or "").split(".")[-1] == "_extract_errors" and any(isinstance(y, ast.Name) and y.id == h.name for y in ast.walk(c)) for r in recs for c in calls_in(r))
        plain = any(isinstance(c.func, ast.Name) and c.func.id in ("str", "repr") and c.args and isinstance(c.args[0], ast.Name) and c.args[0].id == h.name for r in recs for c in calls_in(r))
        # ... through a helper of the module that is handed the exception (`_variant_error_summary(e)`): it must walk the group - and must not cut the text it
        # makes of it (the offending field of a nested union comes *last* in that text: a length cap removes exactly the field name)
        cut = None
        if not detail:
            for r in recs:
                for c in calls_in(r):
                    hn = dotted(c.func) or ""
                    hf = conv.functions.get(hn)
                    if hf is not None and any(isinstance(a, ast.Name) and a.id == hdl_name for a in c.args):
                        if any((dotted(c2.func) or "").split(".")[-1] == "_extract_errors" for c2 in calls_in(hf.node)):
                            detail = True
                            cuts = [x for x in ast.walk(hf.node) if isinstance(x, ast.Subscript) and isinstance(x.slice, ast.Slice)] + [
                                c2 for c2 in calls_in(hf.node) if (dotted(c2.func) or "").split(".")[-1] in ("shorten", "wrap", "fill")]
                            if cuts:
                                cut = (hf, cuts[0])
        if detail and cut is not None:
            rep.violation(rule, sub, f"{su.fq}|variant-error-truncated|{n}",
                          f"`{norm(cut[1])[:60]}` in `{cut[0].qualname}` caps the text made of the nested errors: for a failure below two Optional / union levels the path is written "
                          "outside-in and the offending field comes last - the cap removes exactly the field name from the ValueError", cut[0].loc(cut[1]))
        elif detail:
            rep.ok(rule, sub, "the nested validation errors (field path and reason) are kept", su.loc(recs[0]))
        elif plain:
            rep.violation(rule, sub, f"{su.fq}|variant-error-flattened|{n}",
                          f"`{norm(recs[0])[:80]}`: for a cattrs validation group `str(e)` is only the header 'While structuring X (1 sub-exception)'; the sub-exceptions that name the "
                          "offending field are dropped, and because every Optional[...] field goes through this function the ValueError of structure_from_dict stops at the optional field", su.loc(recs[0]))
        else:
            rep.ok(rule, sub, "the exception object itself is recorded", su.loc(recs[0]))
    rep.require(n >= 2, f"{rule}: only {n} rejected-variant record(s) found in _structure_union (floor 2)")


# ------------------------------------------------------------------------------------------------ R16.16 the hooks pass the value through
def rule_hooks_pass_values_through(repo: Repo, rep, rule: str = "R16.16") -> None:
    """`_register_(un)structure_hooks_recursively` install, per dataclass, a hook that ends in `_make_dataclass_(un)structure_fn(cls)(value, ...)`.
    The generated function already applies the wire-key maps (R16.11); anything done to the payload in front of it - accepting the Python field
    name as an alias of the wire key, dropping null entries so that a default applies - makes a conforming document decode into another
    instance than it describes (`owner_name` is a wire key of one field and the Python name of another; `{"labels": null}` is not `[]`), and the
    round trip is no longer the identity.  Decided: the first argument of that call is the hook's own first parameter, never re-bound."""
    conv = repo.module("core.cattrs_converter")
    n = 0
    for maker in ("_make_dataclass_structure_fn", "_make_dataclass_unstructure_fn"):
        for q, fn in sorted(conv.functions.items()):
            # `f = maker(cls)` (possibly fetched from a per-class memo first) ... `f(value)`: the names that can hold the generated function
            holders = {t.id for st in ast.walk(fn.node) if isinstance(st, ast.Assign) and isinstance(st.value, ast.Call) and (dotted(st.value.func) or "").split(".")[-1] == maker
                       for t in st.targets if isinstance(t, ast.Name)}
            for c in calls_in(fn.node):
                direct = isinstance(c.func, ast.Call) and (dotted(c.func.func) or "").split(".")[-1] == maker
                via = isinstance(c.func, ast.Name) and c.func.id in holders
                if not ((direct or via) and c.args):
                    continue
                # the innermost function definition that contains the call
                owner = None
                for d in ast.walk(fn.node):
                    if isinstance(d, (ast.FunctionDef, ast.AsyncFunctionDef, ast.Lambda)) and any(x is c for x in ast.walk(d)):
                        if owner is None or any(x is d for x in ast.walk(owner)):
                            owner = d
                if owner is None:
                    continue
                params = [a.arg for a in owner.args.args if a.arg != "self"]
                n += 1
                sub = f"{conv.relpath}:{q} hook -> {maker}(cls)(<value>)"
                a0 = c.args[0]
                body_nodes = list(ast.walk(owner))
                rebound = [st for st in body_nodes if isinstance(st, (ast.Assign, ast.AugAssign, ast.AnnAssign)) and any(
                    isinstance(t, ast.Name) and params and t.id == params[0] for t in (st.targets if isinstance(st, ast.Assign) else [st.target]))]
                # an alias of the parameter (`payload = d` ... `fn(payload, t)`) is the parameter
                if isinstance(a0, ast.Name) and params and a0.id != params[0]:
                    al = [st.value for st in body_nodes if isinstance(st, ast.Assign) and any(isinstance(t, ast.Name) and t.id == a0.id for t in st.targets)]
                    if al and all(isinstance(v, ast.Name) and v.id == params[0] for v in al):
                        a0 = ast.Name(id=params[0], ctx=ast.Load())
                if isinstance(a0, ast.Name) and params and a0.id == params[0] and not rebound:
                    rep.ok(rule, sub, f"`{a0.id}` is handed on as received", fn.loc(c))
                else:
                    what = norm(rebound[0])[:60] if rebound else norm(a0)[:60]
                    rep.violation(rule, sub, f"{fn.fq}|hook-rewrites-value|{maker}",
                                  f"`{what}`: the value is rewritten before the generated function (which applies the Meta key maps) sees it - a conforming document is decoded into "
                                  "another instance than it describes / an instance is encoded into another document, and decode-encode is no longer the identity", fn.loc(c))
    rep.require(n >= 2, f"{rule}: only {n} hook call(s) `_make_dataclass_(un)structure_fn(cls)(...)` found (floor 2)")
