"""C03 - model JSON round-trip preserves every value and wire key.

R3.1  generator/converter leaf-type agreement: every Python leaf type the resolver can emit is structured and unstructured
      by the bundled converter (cattrs native, or a registered hook *pair*)
R3.2  wire keys: every property gets a field_mappings entry; both Meta maps are rendered from the same mapping, swapped
R3.3  hook pairs are inverse (b64decode <-> b64encode, fromisoformat <-> isoformat, UUID <-> str)
R3.4  rename plumbing: structure fn reads Meta.key_transform_with_load, unstructure fn reads ..._with_dump, both pass
      override(rename=...) for every field
R3.6  field names are de-duplicated soundly (test / rename until unused / record): distinct wire keys never share one
      Python field, so the Meta maps are bijections                                          [pattern shared with C20]
R3.5  recursion over field types: every field of every dataclass gets its nested types registered (no skip)
"""
from __future__ import annotations

import ast

from rules import _converter as cv
from sa.cfg import CFG
from sa.model import full, AnalysisError, Repo, calls_in, dotted, norm, own_nodes
from sa.report import Report


def run(repo: Repo, rep: Report, tier: str) -> None:
    cv.rule_leaf_agreement(repo, rep, "R3.1")
    cv.rule_hook_pairs(repo, rep, "R3.3")
    cv.rule_rename_plumbing(repo, rep, "R3.4")
    cv.rule_recursive_registration(repo, rep, "R3.5")

    # ---------------------------------------------------------------- R3.2
    gen = repo.func("visit.model.dataclass_generator:DataclassGenerator.generate")
    cfg = CFG(gen.node)
    loops = [n for n in own_nodes(gen.node) if isinstance(n, ast.For) and "sorted_props" in norm(n.iter)]
    rep.require(len(loops) == 1, f"R3.2: expected one property loop in DataclassGenerator.generate, found {len(loops)}")
    for lp in loops:
        hdr = [n.id for n in cfg.nodes if n.kind == "iter" and n.stmt is lp]
        maps = {n.id for n in cfg.nodes if n.kind == "stmt" and isinstance(n.ast, ast.Assign) and isinstance(n.ast.targets[0], ast.Subscript)
                and norm(n.ast.targets[0].value) == "field_mappings" and norm(n.ast.targets[0].slice) == "prop_name" and norm(n.ast.value) == "field_name"}
        apps = {n.id for n in cfg.nodes if n.kind == "stmt" and n.ast is not None and any(
            isinstance(c.func, ast.Attribute) and c.func.attr == "append" and norm(c.func.value) == "fields_data" for c in calls_in(n.ast))}
        for label, nodes in (("wire-key mapping `field_mappings[prop_name] = field_name`", maps), ("field record `fields_data.append(...)`", apps)):
            w = None
            for m, lab in cfg.succ[hdr[0]]:
                if lab == "loop" and m not in nodes:
                    w = w or cfg.must_pass(m, nodes, {hdr[0], cfg.exit})
            sub = f"{gen.module.relpath}:DataclassGenerator.generate {label}"
            if nodes and w is None:
                rep.ok("R3.2", sub, "executed on every path through every iteration of the property loop", gen.loc(lp))
            else:
                rep.violation("R3.2", sub, f"{gen.fq}|per-property|{label[:20]}|{cfg.describe_path(w or [])}",
                              f"a property can pass through the loop without this step ({cfg.describe_path(w or [])}): the field or its wire key is lost", gen.loc(lp))
    # distinct field names are what makes the two Meta maps mutually inverse bijections
    from rules.c20 import _dedup_site

    class _R:
        def ok(self, rule, *a, **k):
            rep.ok("R3.6", *a, **k)

        def violation(self, rule, *a, **k):
            rep.violation("R3.6", *a, **k)

    _dedup_site(gen, "dataclass fields", "seen_field_names", _R())
    rd = repo.func("core.writers.python_construct_renderer:PythonConstructRenderer.render_dataclass")
    floops = sorted([n for n in own_nodes(rd.node) if isinstance(n, ast.For) and "field_mappings.items()" in norm(n.iter)], key=lambda n: n.lineno)
    texts = []
    for lp in floops:
        for c in calls_in(lp):
            if isinstance(c.func, ast.Attribute) and c.func.attr == "write_line" and c.args:
                texts.append(full(c.args[0]))
    sub = f"{rd.module.relpath}:render_dataclass Meta key maps"
    ok = len(floops) == 2 and len(texts) == 2
    if ok:
        a, b = texts
        # one line maps api->python, the other python->api, both from the same pair
        ok = ("api_field" in a.split(":")[0] and "python_field" in a.split(":", 1)[1]) and ("python_field" in b.split(":")[0] and "api_field" in b.split(":", 1)[1])
    if ok:
        rep.ok("R3.2", sub, "key_transform_with_load and key_transform_with_dump are rendered from the same field_mappings pairs, swapped (mutually inverse by construction)", rd.loc())
    else:
        rep.violation("R3.2", sub, f"{rd.fq}|meta-maps|{texts}", f"the two Meta maps are not the swapped rendering of one mapping: {texts}", rd.loc())
