"""C03 - model JSON round-trip preserves every value and wire key.

R3.1  generator/converter leaf-type agreement: every Python leaf type the resolver can emit is structured and unstructured
      by the bundled converter (cattrs native, or a registered hook *pair*)
R3.2  wire keys: every property gets a field_mappings entry; both Meta maps are rendered from the same mapping, swapped
R3.3  hook pairs are inverse (b64decode <-> b64encode, fromisoformat <-> isoformat, UUID <-> str)
R3.4  rename plumbing: structure fn reads Meta.key_transform_with_load, unstructure fn reads ..._with_dump, both pass
      override(rename=...) for every field
R3.6  field names are de-duplicated soundly (test / rename until unused / record): distinct wire keys never share one
      Python field, so the Meta maps are bijections                                          [pattern shared with C20]
R3.7  sibling agreement: _resolve_one_of and _resolve_any_of (two copies of one routine) return the same results
R3.10 every Python type chosen for a string format encodes back to a JSON string (str or a leaf type with a text-producing unstructure hook)
R3.9  the generated get_mapping() has an entry for every discriminator value of the spec (a conforming document with an aliased value decodes)  [= R14.5]
R3.13 a field the Meta map does not list has the same wire key in both directions: its own name (no derived key on one side)
R3.12 union variants are tried in declared order (a document of the first variant is not captured by a later, laxer one)          [= R14.9]
R3.14 the resolver's by-name fallback never merges kinds: an inline number property named like an integer schema stays a number  [= R2.11]
R3.15 the union decoder reads the discriminator from the type as given and keeps Annotated members whole                          [= R14.11]
R3.16 an object schema without properties is rendered as the data-preserving wrapper unless additionalProperties is false (predicate evaluated)  [finding]
R3.11 wire keys / discriminator values are emitted as literals that evaluate to the spec's own string (non-BMP characters survive)  [= R15.5]
R3.8  nullability written as a type array is read from the document node at every sibling site (never from IRSchema.type, a string)
R3.5  recursion over field types: every field of every dataclass gets its nested types registered (no skip)
R3.17 the dataclass hook factories resolve nested forward references before cattrs sees the class (tree-shaped models round-trip)        [= R16.13]
R3.20 the values of an `enum` keyword reach the IR as the document lists them: nothing but `null` may be filtered out (no truthiness filter: `""`, `0`, `false` are values)
R3.19 a JSON scalar of a primitive union is decoded as the variant of its own type, not coerced into an earlier one                          [= R14.15]
R3.18 a discriminator without explicit mapping still selects the variant (implicit mapping)                                                  [= R14.14]
"""
from __future__ import annotations

import ast
import copy

from rules import _converter as cv
from sa.cfg import CFG
from sa.model import full, AnalysisError, Repo, calls_in, const_str, dotted, norm, own_nodes
from sa.match import Locals, match, names_in
from sa.report import Report


def run(repo: Repo, rep: Report, tier: str) -> None:
    from sa.report import guarded as _guarded

    _guarded(rep, cv.rule_leaf_agreement, repo, rep, "R3.1")
    _guarded(rep, cv.rule_hook_pairs, repo, rep, "R3.3")
    _guarded(rep, cv.rule_rename_plumbing, repo, rep, "R3.4")
    _guarded(rep, cv.rule_unlisted_field_keeps_its_name, repo, rep, "R3.13")
    _guarded(rep, cv.rule_recursive_registration, repo, rep, "R3.5")
    _guarded(rep, cv.rule_field_types_resolved, repo, rep, "R3.17")
    from rules.c14 import rule_implicit_mapping as _rim

    _rim(repo, rep, "R3.18")

    # ---------------------------------------------------------------- R3.2
    gen = repo.func("visit.model.dataclass_generator:DataclassGenerator.generate")

    def _prop_loops(g_):
        L_ = Locals(g_.node)
        return [n for n in own_nodes(g_.node) if isinstance(n, ast.For) and isinstance(n.target, ast.Tuple) and len(n.target.elts) == 2
                and any(isinstance(x, ast.Attribute) and x.attr == "properties" for x in ast.walk(L_.inline(n.iter)))]

    if len(_prop_loops(gen)) != 1:
        from sa.flatten import flatten as _fl32

        gen = _fl32(gen)  # the per-property work may have been split into helpers of the generator: written out
    cfg = CFG(gen.node)
    L = Locals(gen.node)
    # the property loop: `for <key>, <schema> in <something derived from X.properties.items()>`
    loops = _prop_loops(gen)
    rep.require(len(loops) == 1, f"R3.2: expected one property loop in DataclassGenerator.generate, found {len(loops)}")
    # the containers handed to the renderer (public keyword names of render_dataclass)
    rcalls = [c for c in calls_in(gen.node) if isinstance(c.func, ast.Attribute) and c.func.attr == "render_dataclass"]
    rep.require(len(rcalls) >= 1, "R3.2: no render_dataclass(...) call in DataclassGenerator.generate")

    def container(kw: str) -> Optional[str]:
        for c in rcalls:
            for k in c.keywords:
                if k.arg == kw:
                    cands = [n for n in names_in(k.value) if any(kind == "assign" and isinstance(v, (ast.Dict, ast.List, ast.Call)) for kind, v, _ in L.defs.get(n, []))]
                    return cands[0] if cands else None
        return None

    map_var, list_var = container("field_mappings"), container("fields")
    if loops and (map_var is None or list_var is None):
        raise AnalysisError("R3.2: cannot identify the containers passed as field_mappings= / fields= to render_dataclass")
    def _same_object(name: Optional[str]) -> Set[str]:
        """names bound to the same container by plain copies in either direction (`fields_data = field_specs`)"""
        out = {name} if name else set()
        for _ in range(4):
            for st in own_nodes(gen.node):
                if isinstance(st, ast.Assign) and len(st.targets) == 1 and isinstance(st.targets[0], ast.Name) and isinstance(st.value, ast.Name):
                    if st.targets[0].id in out or st.value.id in out:
                        out |= {st.targets[0].id, st.value.id}
        return out

    for lp in loops:
        key_var = lp.target.elts[0].id if isinstance(lp.target.elts[0], ast.Name) else None  # type: ignore[attr-defined]
        hdr = [n.id for n in cfg.nodes if n.kind == "iter" and n.stmt is lp]
        map_names, list_names = _same_object(map_var), _same_object(list_var)
        maps = {n.id for n in cfg.nodes if n.kind == "stmt" and isinstance(n.ast, ast.Assign) and isinstance(n.ast.targets[0], ast.Subscript)
                and isinstance(n.ast.targets[0].value, ast.Name) and (L.root(n.ast.targets[0].value.id) == map_var or n.ast.targets[0].value.id in map_names)
                and isinstance(n.ast.targets[0].slice, ast.Name) and L.root(n.ast.targets[0].slice.id) == key_var}
        apps = {n.id for n in cfg.nodes if n.kind == "stmt" and n.ast is not None and any(
            isinstance(c.func, ast.Attribute) and c.func.attr == "append" and isinstance(c.func.value, ast.Name) and (
                L.root(c.func.value.id) == list_var or c.func.value.id in list_names)
            for c in calls_in(n.ast))}
        for label, nodes in ((f"wire-key mapping `{map_var}[{key_var}] = <field name>`", maps), (f"field record `{list_var}.append(...)`", apps)):
            w = None
            for m, lab in cfg.succ[hdr[0]]:
                if lab == "loop" and m not in nodes:
                    w = w or cfg.must_pass(m, nodes, {hdr[0], cfg.exit})
            sub = f"{gen.module.relpath}:DataclassGenerator.generate {label.split('`')[0].strip()}"
            if nodes and w is None:
                rep.ok("R3.2", sub, f"{label}: executed on every path through every iteration of the property loop", gen.loc(lp))
            else:
                rep.violation("R3.2", sub, f"{gen.fq}|per-property|{label.split('`')[0].strip()}",
                              f"a property can pass through the loop without {label} ({cfg.describe_path(w or [])}): the field or its wire key is lost", gen.loc(lp))
    # distinct field names are what makes the two Meta maps mutually inverse bijections
    from rules.c20 import _dedup_site

    class _R:
        def ok(self, rule, *a, **k):
            rep.ok("R3.6", *a, **k)

        def violation(self, rule, *a, **k):
            rep.violation("R3.6", *a, **k)

    _dedup_site(gen, "dataclass fields", "seen_field_names", _R())
    rd = repo.func("core.writers.python_construct_renderer:PythonConstructRenderer.render_dataclass")
    RL = Locals(rd.node)
    floops = sorted([n for n, _ in RL.loops_over("field_mappings.items()") + RL.loops_over("sorted(field_mappings.items(), **ANY_)") + RL.loops_over("sorted(field_mappings.items())")
                     if isinstance(n, ast.For)], key=lambda n: n.lineno)
    floops = [n for i, n in enumerate(floops) if n not in floops[:i]]
    orders = []
    texts = []
    for lp in floops:
        if not (isinstance(lp.target, ast.Tuple) and len(lp.target.elts) == 2 and all(isinstance(e, ast.Name) for e in lp.target.elts)):
            continue
        api, py = lp.target.elts[0].id, lp.target.elts[1].id  # items(): (wire key, python name)
        for c in calls_in(lp):
            if isinstance(c.func, ast.Attribute) and c.func.attr == "write_line" and c.args:
                texts.append(full(c.args[0]))
                # locals of the loop body (`api_literal = json.dumps(api_field)`): names assigned once inside this loop are written out
                defs: dict = {}
                for st in ast.walk(lp):
                    if isinstance(st, ast.Assign) and len(st.targets) == 1 and isinstance(st.targets[0], ast.Name):
                        defs.setdefault(st.targets[0].id, []).append(st.value)
                once = {k: v[0] for k, v in defs.items() if len(v) == 1 and k not in (api, py) and not any(isinstance(x, ast.Name) and x.id in defs for x in ast.walk(v[0]))}

                class _Sub(ast.NodeTransformer):
                    def visit_Name(self, node):  # noqa: N802
                        return self.visit(copy.deepcopy(once[node.id])) if node.id in once and isinstance(node.ctx, ast.Load) else node

                arg = _Sub().visit(copy.deepcopy(c.args[0])) if once else c.args[0]
                seq = [("api" if RL.root(n) == api else "py") for n in names_in(RL.inline(arg, stop=(api, py))) if RL.root(n) in (api, py)]
                orders.append(seq)
    # the same two renderings as comprehensions (`entries = ["{}: {},".format(dumps(k), dumps(v)) for k, v in sorted(pairs)]` ... written line by line)
    n_comp = 0
    if len(floops) < 2:
        for comp in [n for n in own_nodes(rd.node) if isinstance(n, (ast.ListComp, ast.GeneratorExp)) and len(n.generators) == 1]:
            g = comp.generators[0]
            if not (isinstance(g.target, ast.Tuple) and len(g.target.elts) == 2 and all(isinstance(e, ast.Name) for e in g.target.elts)) or g.ifs:
                continue
            if "field_mappings.items()" not in norm(RL.inline(g.iter, stop=tuple(RL.params))):
                continue
            api, py = g.target.elts[0].id, g.target.elts[1].id
            seq = [("api" if n_ == api else "py") for n_ in names_in(comp.elt) if n_ in (api, py)]
            if seq:
                n_comp += 1
                texts.append(full(comp.elt))
                orders.append(seq)
    sub = f"{rd.module.relpath}:render_dataclass Meta key maps"
    # one line maps api->python, the other python->api, both from the same pairs
    ok = (len(floops) + n_comp) == 2 and sorted(map(tuple, orders)) == [("api", "py"), ("py", "api")]
    if (len(floops) + n_comp) < 2 or len(orders) < 2:
        # the two rendering loops over field_mappings were not recognised (comprehensions, helper, format()): the recogniser failed, not the code
        rep.error(f"R3.2: cannot find the two loops that render the Meta key maps from field_mappings in render_dataclass (found {len(floops)} loops, {len(orders)} written lines)")
    elif ok:
        rep.ok("R3.2", sub, "key_transform_with_load and key_transform_with_dump are rendered from the same field_mappings pairs, swapped (mutually inverse by construction)", rd.loc())
    else:
        rep.violation("R3.2", sub, f"{rd.fq}|meta-maps|{orders}", f"the two Meta maps are not the swapped rendering of one mapping: {texts}", rd.loc())

    # ---------------------------------------------------------------- R3.7 the two composition resolvers return the same things
    from rules._siblings import return_signature

    a = repo.func("types.resolvers.schema_resolver:OpenAPISchemaResolver._resolve_one_of")
    b = repo.func("types.resolvers.schema_resolver:OpenAPISchemaResolver._resolve_any_of")
    sa_, sb_ = return_signature(a, {"one_of": "X_of", "oneOf": "XOf"}), return_signature(b, {"any_of": "X_of", "anyOf": "XOf"})
    sub = f"{a.module.relpath}:_resolve_one_of / _resolve_any_of return the same results"
    if sa_ == sb_:
        rep.ok("R3.7", sub, f"{len(sa_)} return expressions each, pairwise equal up to naming (optionality, forward-reference and import handling agree)", a.loc())
    else:
        only_a = [x for x in sa_ if x not in sb_]
        only_b = [x for x in sb_ if x not in sa_]
        rep.violation("R3.7", sub, f"{a.fq}|siblings-disagree|{len(only_a)}|{len(only_b)}",
                      f"oneOf and anyOf are resolved by two copies of one routine, but they no longer return the same things (only oneOf: {only_a[:2]}; only anyOf: "
                      f"{only_b[:2]}): e.g. the optionality of a single-variant composition is kept by one spelling and lost by the other", a.loc())

    _guarded(rep, cv.rule_string_formats, repo, rep, "R3.10")
    _guarded(rep, rule_enum_values_unfiltered, repo, rep, "R3.20")
    # ---------------------------------------------------------------- R3.9 every discriminator value the spec maps is in the generated dispatch table
    from rules._reuse import reuse as _reuse39

    _reuse39(repo, rep, "c14", {"R14.5": "R3.9", "R14.15": "R3.19"})  # R3.19: a scalar of a primitive union keeps its JSON type (no coercion)
    # R3.11: wire keys and discriminator values are written into the generated model modules as Python literals that evaluate to the
    # spec's own string (json.dumps with ensure_ascii=False: an astral-plane character is not turned into two lone surrogates)   [= R15.5]
    # R3.12: a conforming document of an un-discriminated union is decoded as the first declared variant that accepts it   [= R14.9]
    from rules.c14 import rule_declared_order as _rdo

    _rdo(repo, rep, "R3.12")
    # R3.14: an inline primitive property is never typed as a registered schema of another kind that happens to share its name   [= R2.11]
    from rules.c02 import rule_name_fallback_respects_kind as _rnf

    _rnf(repo, rep, "R3.14")
    # R3.15: a discriminated union keeps its discriminator on the way into the decoder (field of type `X | None` included)          [= R14.11]
    from rules.c14 import rule_metadata_from_the_given_type as _rmg

    _rmg(repo, rep, "R3.15")
    _guarded(rep, rule_free_form_object_keeps_content, repo, rep, "R3.16")
    _reuse39(repo, rep, "c15", {"R15.5": "R3.11"}, only=lambda subj: "python_construct_renderer" in subj)
    # ---------------------------------------------------------------- R3.8 type-array nullability is read from the document node
    # `type: [string, "null"]` lives in the raw node; IRSchema.type is a plain string (ir.py), so a test `isinstance(<ir>.type, list)` can never
    # hold and the property silently stops being nullable (None then fails to structure)
    ir_cls = repo.module("ir").classes.get("IRSchema")
    type_ann = ""
    if ir_cls is not None:
        for st in ir_cls.node.body:
            if isinstance(st, ast.AnnAssign) and isinstance(st.target, ast.Name) and st.target.id == "type":
                type_ann = norm(st.annotation)
    rep.require(bool(type_ann), "R3.8: IRSchema.type annotation not found (anchor)")
    sp = repo.module("core.parsing.schema_parser")
    good = bad = 0
    for fn in sp.functions.values():
        for n in own_nodes(fn.node):
            if isinstance(n, ast.Call) and dotted(n.func) == "isinstance" and len(n.args) == 2 and norm(n.args[1]) == "list":
                a0 = n.args[0]
                from_node = (isinstance(a0, ast.Call) and isinstance(a0.func, ast.Attribute) and a0.func.attr == "get" and a0.args and const_str(a0.args[0]) == "type") or (
                    isinstance(a0, ast.Subscript) and const_str(a0.slice) == "type")
                from_ir = isinstance(a0, ast.Attribute) and a0.attr == "type"
                if from_node:
                    good += 1
                elif from_ir and "list" not in type_ann.lower():
                    bad += 1
                    rep.violation("R3.8", f"{sp.relpath}:{fn.qualname} nullable type array read from the IR", f"{fn.fq}|type-array-from-ir",
                                  f"`{norm(n)}` can never be true (IRSchema.type: {type_ann}): a property declared `type: [T, \"null\"]` is no longer marked nullable "
                                  "here, while the sibling branches read the raw node", fn.loc(n))
    if good and not bad:
        rep.ok("R3.8", f"{sp.relpath} nullable type arrays", f"all {good} `isinstance(<node>['type'], list)` tests read the document node", sp.relpath)
    rep.require(good + bad >= 2, f"R3.8: only {good + bad} type-array nullability tests found in schema_parser (floor 2)")


# ------------------------------------------------------------------------------------------------ R3.16 a free-form object keeps its content
def rule_free_form_object_keeps_content(repo: Repo, rep, rule: str = "R3.16") -> None:
    """`type: object` without `properties` and without `additionalProperties` is JSON Schema for "any object" (an absent
    additionalProperties means true).  The dataclass generator renders such a schema either as the data-preserving wrapper class or as a
    dataclass without fields - and cattrs ignores unknown keys, so the field-less dataclass silently drops every key of the value.  The
    wrapper decision (`_is_arbitrary_json_object`) is evaluated over additional_properties in {None, True, False, <schema>} for an object
    schema without properties: it must choose the wrapper for everything but an explicit False."""
    from sa.feval import Unknown, evaluate

    gen = repo.module("visit.model.dataclass_generator")
    cls = gen.classes.get("DataclassGenerator")
    fn = cls.methods.get("_is_arbitrary_json_object") if cls else None
    if fn is None:
        raise AnalysisError(f"{rule}: anchor vanished: DataclassGenerator._is_arbitrary_json_object")
    rets = [r for r in own_nodes(fn.node) if isinstance(r, ast.Return) and r.value is not None]
    if len(rets) != 1:
        raise AnalysisError(f"{rule}: _is_arbitrary_json_object no longer consists of one returned predicate ({len(rets)} returns) - not modelled")
    p = [a for a in fn.params if a not in ("self", "cls")][0]
    L = Locals(fn.node)
    pred = L.inline(rets[0].value, stop=tuple(L.params))

    class _Schema:  # stands for "some IRSchema": isinstance(x, IRSchema) is the only thing asked of it
        pass

    sub = f"{gen.relpath}:DataclassGenerator._is_arbitrary_json_object"
    outcomes = {}
    try:
        for label, ap in (("absent", None), ("true", True), ("false", False), ("schema", "SCHEMA")):
            env = {f"{p}.type": "object", f"{p}.properties": {}, f"{p}.additional_properties": ap, f"{p}.all_of": None, f"{p}.any_of": None, f"{p}.one_of": None,
                   f"{p}.enum": None, f"{p}._is_circular_ref": False, f"{p}._is_self_referential_stub": False, f"{p}._from_unresolved_ref": False,
                   f"{p}._max_depth_exceeded_marker": False}
            # isinstance(<p>.additional_properties, IRSchema) is true exactly for the "schema" case
            pr = ast.parse(ast.unparse(pred).replace(f"isinstance({p}.additional_properties, IRSchema)", "True" if ap == "SCHEMA" else "False"), mode="eval").body
            outcomes[label] = bool(evaluate(pr, env))
    except Unknown as e:
        rep.error(f"{rule}: cannot evaluate the wrapper predicate `{norm(pred)[:80]}` ({e})")
        return
    want = {"absent": True, "true": True, "false": False, "schema": True}
    wrong = [k for k in want if outcomes.get(k) != want[k]]
    if not wrong:
        rep.ok(rule, sub, f"wrapper chosen for additionalProperties absent / true / <schema>, plain dataclass for false: {outcomes}", fn.loc(rets[0]))
    else:
        rep.violation(rule, sub, f"{fn.fq}|free-form-object-as-empty-dataclass|{','.join(wrong)}",
                      f"for an object schema without properties the wrapper is {'not ' if not outcomes.get(wrong[0]) else ''}chosen when additionalProperties is {wrong[0]} "
                      f"({outcomes}): `metadata: {{type: object}}` becomes a dataclass without fields, structuring accepts any object for it and drops every key - "
                      "a conforming document comes back with `{}` in its place", fn.loc(rets[0]))


# ------------------------------------------------------------------------------------------------ R3.20 enum values are not filtered by truthiness
_R320_EXAMPLE = '''
def parse(schema_node):
    values = schema_node.get("enum")
    if values and nullable:
        values = list(filter(None, values))
    return IRSchema(enum=values)
'''


def _enum_value_filters(fn_node: ast.AST):
    """(lossy filters, number of `enum=` constructor arguments looked at): a definition of the value handed to `IRSchema(enum=...)` that drops
    list elements by truthiness (`filter(None, xs)`, `[v for v in xs if v]`, `if not v: continue`) or cuts the list (slice)"""
    from sa.match import Locals as _L

    L = _L(fn_node)
    out = []
    n = 0

    def lossy(e: ast.AST, depth: int = 0) -> Optional[ast.AST]:
        if depth > 6:
            return None
        if isinstance(e, ast.Name):
            for k, v, _ in L.defs.get(e.id, []):
                if v is not None and k == "assign":
                    r = lossy(v, depth + 1)
                    if r is not None:
                        return r
            return None
        for x in ast.walk(e):
            if isinstance(x, ast.Call) and isinstance(x.func, ast.Name) and x.func.id == "filter" and x.args and isinstance(x.args[0], ast.Constant) and x.args[0].value is None:
                return x
            if isinstance(x, (ast.ListComp, ast.GeneratorExp, ast.SetComp)):
                for g in x.generators:
                    tv = {t.id for t in ast.walk(g.target) if isinstance(t, ast.Name)}
                    for cond in g.ifs:
                        c = cond
                        while isinstance(c, ast.UnaryOp) and isinstance(c.op, ast.Not):
                            c = c.operand
                        if isinstance(c, ast.Name) and c.id in tv:
                            return x
            if isinstance(x, ast.Subscript) and isinstance(x.slice, ast.Slice):
                return x
            # `list({name_of(v): v for ... }.values())`: values whose derived keys coincide collapse into one (de-duplication by something else than the value)
            if isinstance(x, ast.Call) and isinstance(x.func, ast.Attribute) and x.func.attr == "values":
                srcs = [x.func.value] + ([v for _, v, _ in L.defs.get(x.func.value.id, []) if v is not None] if isinstance(x.func.value, ast.Name) else [])
                for sv in srcs:
                    if isinstance(sv, ast.DictComp) and norm(sv.key) != norm(sv.value):
                        return x
        for x in ast.walk(e):
            if isinstance(x, ast.Name) and x is not e:
                r = lossy(x, depth + 1)
                if r is not None:
                    return r
        return None

    for c in ast.walk(fn_node):
        if isinstance(c, ast.Call) and (dotted(c.func) or "").split(".")[-1] == "IRSchema":
            for k in c.keywords:
                if k.arg == "enum" and not (isinstance(k.value, ast.Constant) and k.value.value is None):
                    n += 1
                    r = lossy(k.value)
                    if r is not None:
                        out.append((c, r))
    return out, n


def rule_enum_values_unfiltered(repo: Repo, rep, rule: str = "R3.20") -> None:
    """An enum value that does not reach `IRSchema.enum` is not a member of the generated Enum class: a conforming document carrying it cannot
    be structured (`'' is not a valid SortOrder`).  `null` is the only entry that may be taken out (it is what `nullable` says); a filter by
    truthiness also takes out `""`, `0`, `0.0` and `false`."""
    hz, n = _enum_value_filters(ast.parse(_R320_EXAMPLE).body[0])
    rep.require(len(hz) == 1 and n == 1, f"{rule}: the built-in positive example is no longer recognised - the rule is broken")
    total = 0
    for fq in ("core.parsing.schema_parser:_parse_schema", "core.parsing.schema_parser:_parse_properties", "core.loader.loader:SpecLoader._create_unified_enum_schema"):
        try:
            fn = repo.func(fq)
        except AnalysisError:
            continue
        hz, n = _enum_value_filters(fn.node)
        total += n
        sub = f"{fn.module.relpath}:{fn.qualname} values handed to IRSchema(enum=...)"
        if hz:
            c, r = hz[0]
            rep.violation(rule, sub, f"{fn.fq}|enum-values-filtered-by-truthiness",
                          f"`{norm(r)[:70]}` takes entries out of the document's enum values by something else than `is None` (truthiness, a slice, a key that several values can share): "
                          "`\"\"`, `0`, `false`, or one of two values whose derived names coincide (`sms-text` / `sms_text`) is no member of the generated Enum and a conforming document "
                          "that carries it cannot be structured", fn.loc(r))
        elif n:
            rep.ok(rule, sub, f"{n} constructor argument(s): the document's list, unfiltered", fn.loc())
    rep.require(total >= 1, f"{rule}: no `IRSchema(enum=...)` argument found in the schema parser (anchor)")
