"""C06 - non-2xx responses always raise a status-carrying, class-correct error.

R6.1  the transport's raise guard is exactly the complement of 200..299 (predicate evaluated over 100..599)
R6.2  the class raised by the transport is range-correct (4xx -> ClientError subclass, 5xx -> ServerError subclass)
R6.3  generated dispatch: the wildcard arm and every non-2xx arm raise on every generator path, never return
R6.4  alias classes: base chosen by range helpers that evaluate to [400,499] / [500,599]; every status for which
      the handler raises an alias has an alias class (agreement handler <-> ExceptionVisitor/ExceptionsEmitter)
R6.5  errors carry status and response (HTTPError.__init__, alias __init__ template, raise templates)
R6.6  the shared-core predicate holds for every layout [= R11.2]; R6.7 call-local memo keys in the loader cover the status code
R6.9  the alias module regenerated for the union of all clients' codes imports ClientError and ServerError unconditionally          [= R11.4]
R6.10 the registry of a core contained in the regenerated package (at any depth) survives the removal of that package              [= R11.5]
R6.15 a model class never takes the name of an exception alias / ClientError / ServerError the dispatch raises (`raise GoneError(...)` would build the dataclass) [= R20.13]
R6.14 generated dispatch: no exact-status arm is written after a range-guarded arm (first match wins: the exact arm would be dead)          [= R5.19]
R6.13 HttpxTransport.request sends once per call (no replay / retry site), so every answer it returns has passed the status guard      [= R4.21]
R6.12 generated dispatch: an undeclared / range-declared 4xx or 5xx is classified (ClientError / ServerError) before the catch-all raises the base class
R6.11 the bundled transport never switches httpx's redirect-following on (a 3xx with a Location header must reach the raise guard)
R6.8  the exception registry is read, extended and written back as a union, never rebuilt (alias classes of other clients stay importable)  [= R11.1]
"""
from __future__ import annotations

import ast
from typing import Dict, List, Optional, Set, Tuple

from sa.cfg import CFG, forward, guards, witness_path
from sa.intervals import DOMAIN, Evaluator, fmt
from sa.model import AnalysisError, Function, Module, Repo, calls_in, const_str, dotted, norm, own_nodes
from sa.match import Locals
from sa.report import Report, with_flatten_fallback
from sa.templates import template_of

NON2XX = {c for c in DOMAIN if not 200 <= c <= 299}


def _anc(node: ast.AST, root: ast.AST) -> List[ast.AST]:
    """ancestors of `node` below `root` (statement nesting)"""
    path: List[ast.AST] = []

    def rec(cur: ast.AST, stack: List[ast.AST]) -> bool:
        if cur is node:
            path.extend(stack)
            return True
        for ch in ast.iter_child_nodes(cur):
            if rec(ch, stack + [cur]):
                return True
        return False

    rec(root, [])
    return path


def _helpers(repo: Repo) -> Dict[str, ast.AST]:
    m = repo.module("core.http_status_codes")
    return {q: f.node for q, f in m.functions.items() if q.startswith("is_")}


def _consts(repo: Repo) -> Dict[str, tuple]:
    """module-level literal dicts/sets/tuples of ints in core/http_status_codes.py (their keys/elements)."""
    m = repo.module("core.http_status_codes")
    out: Dict[str, tuple] = {}
    for st in m.tree.body:
        tgt = val = None
        if isinstance(st, ast.Assign) and isinstance(st.targets[0], ast.Name):
            tgt, val = st.targets[0].id, st.value
        elif isinstance(st, ast.AnnAssign) and isinstance(st.target, ast.Name):
            tgt, val = st.target.id, st.value
        if tgt is None or val is None:
            continue
        elts = val.keys if isinstance(val, ast.Dict) else (val.elts if isinstance(val, (ast.Set, ast.Tuple, ast.List)) else None)
        if elts and all(isinstance(k, ast.Constant) and isinstance(k.value, int) for k in elts):
            out[tgt] = tuple(k.value for k in elts)  # type: ignore[union-attr]
    return out


def _subclasses(mod: Module) -> Dict[str, Set[str]]:
    """class -> all (transitive) bases inside core/exceptions.py, incl. itself."""
    direct = {c.name: set(c.base_names) for c in mod.classes.values()}
    out: Dict[str, Set[str]] = {}
    for c in direct:
        seen = {c}
        todo = list(direct[c])
        while todo:
            b = todo.pop()
            if b in seen:
                continue
            seen.add(b)
            todo.extend(direct.get(b, ()))
        out[c] = seen
    return out


def _transport_var_for(resp: str, L=None):
    def f(e: ast.AST) -> Optional[str]:
        if L is not None and isinstance(e, ast.Name):
            e = L.inline(e)  # a local holding <response>.status_code
        d = dotted(e)
        # `<alias>.status_code` where the alias is (only ever) bound to the response: `response = answer`
        if L is not None and isinstance(e, ast.Attribute) and isinstance(e.value, ast.Name) and e.value.id != resp:
            base = L.inline(e.value)
            if isinstance(base, ast.Name) and base.id == resp:
                d = f"{resp}.{e.attr}"
        if d == f"{resp}.status_code":
            return "int"
        if d == resp:
            return "response"
        return None

    return f


def run(repo: Repo, rep: Report, tier: str) -> None:
    from sa.report import guarded as _guarded

    from rules.c20 import rule_models_spare_endpoint_names

    _guarded(rep, rule_models_spare_endpoint_names, repo, rep, "R6.15")
    helpers = _helpers(repo)
    consts = _consts(repo)
    rep.count("status_constant_tables", {k: len(v) for k, v in consts.items()})
    exc_mod = repo.module("core.exceptions")
    subs = _subclasses(exc_mod)
    for need in ("HTTPError", "ClientError", "ServerError"):
        rep.require(need in subs, f"anchor vanished: core/exceptions.py class {need}")
    if "HTTPError" in subs:
        for c, base in (("ClientError", "HTTPError"), ("ServerError", "HTTPError")):
            if c in subs and base in subs[c]:
                rep.ok("R6.2", f"{exc_mod.relpath}:{c}", f"{c} derives from {base}", f"{exc_mod.relpath}:{exc_mod.classes[c].node.lineno}")
            else:
                rep.violation("R6.2", f"{exc_mod.relpath}:{c}", f"hierarchy|{c}", f"{c} is not a subclass of {base}", exc_mod.relpath)

    def _transport_rules(tr: Function, rep) -> None:
        # ---------------------------------------------------------------- R6.1 / R6.2 transport
        if any(isinstance(n, ast.Raise) and n.exc is not None and isinstance(n.exc, ast.Call) and isinstance(n.exc.func, ast.Call) for n in own_nodes(tr.node)):
            from sa.flatten import flatten as _fl62

            tr = _fl62(tr)  # `raise _error_class_for_status(status)(...)`: the class choice lives in a helper
        cfg = CFG(tr.node)
        dom = cfg.dominators()
        raises = [n for n in cfg.nodes if isinstance(n.ast, ast.Raise) and not n.copy]
        rep.require(bool(raises), "R6.1: HttpxTransport.request has no raise statement (anchor vanished)")
        raised_for: Dict[int, str] = {}
        returns = [n for n in cfg.nodes if isinstance(n.ast, ast.Return)]
        # per status code, walk the CFG after the send call deciding every test by evaluation
        send_nodes = [n for n in cfg.nodes if n.ast is not None and n.kind == "stmt" and any(
            isinstance(c.func, ast.Attribute) and c.func.attr == "request" and "_client" in norm(c.func.value) for c in calls_in(n.ast))]
        rep.require(len(send_nodes) >= 1, "R6.1: no send call (`self._client.request(...)`) found in HttpxTransport.request (anchor)")
        # R6.13 one call, one exchange: a second send site (a retry / replay in a handler or behind a status test) issues a second request for one
        # awaited call, and what it returns has not passed the status guard that follows the first one
        sub13 = f"{tr.module.relpath}:HttpxTransport.request one send per call"
        uniq = sorted({n.lineno for n in send_nodes if not n.copy})
        in_loop = [n for n in send_nodes if any(isinstance(a, (ast.For, ast.While, ast.AsyncFor)) for a in _anc(n.ast, tr.node))]
        if len(uniq) > 1 or in_loop:
            extra = [n for n in send_nodes if not n.copy and n.lineno != uniq[0]] or in_loop
            unchecked = any(isinstance(n.ast, ast.Return) for n in extra)
            rep.violation("R6.13", sub13, f"{tr.fq}|second-send|{'returned-unchecked' if unchecked else 'replayed'}",
                          f"the request is sent from {len(uniq)} places ({'in a loop' if in_loop else 'lines ' + str(uniq)}): one awaited call can put two requests on the wire (the first may "
                          "already have been processed by the server)" + ("; the answer of the second send is returned as it is - a non-2xx status reaches the caller as a value" if unchecked else ""),
                          tr.loc(extra[0].ast))
            send_nodes = [n for n in send_nodes if n.lineno == uniq[0]][:1]
        else:
            rep.ok("R6.13", sub13, "exactly one send site, outside loops and handlers; its answer goes through the status guard", tr.loc(send_nodes[0].ast))
        resp_var = "response"
        if send_nodes and isinstance(send_nodes[0].ast, (ast.Assign, ast.AnnAssign)):
            tg = send_nodes[0].ast.targets[0] if isinstance(send_nodes[0].ast, ast.Assign) else send_nodes[0].ast.target
            if isinstance(tg, ast.Name):
                resp_var = tg.id
        ev = Evaluator(_transport_var_for(resp_var, Locals(tr.node)), helpers)
        outcome: Dict[int, Tuple[str, str]] = {}
        undecided: List[str] = []
        if send_nodes:
            for code in DOMAIN:
                outcome[code] = _simulate(cfg, send_nodes[0].id, code, ev, undecided)
        if undecided:
            rep.error(f"R6.1: transport control flow depends on predicates the evaluator cannot decide: {sorted(set(undecided))[:3]}")
        ret_codes = {c for c, (k, _) in outcome.items() if k == "return"}
        raise_codes = {c for c, (k, _) in outcome.items() if k == "raise"}
        sub = f"{tr.module.relpath}:HttpxTransport.request status guard"
        loc = tr.loc(raises[0].ast) if raises else tr.loc()
        leak = ret_codes & NON2XX
        if leak:
            rep.violation("R6.1", sub, f"{tr.fq}|returns-non2xx|{fmt(leak)}",
                          f"the bundled transport returns the response instead of raising for statuses {fmt(leak)}", loc)
        else:
            rep.ok("R6.1", sub, f"raises for {fmt(raise_codes)}; returns only for {fmt(ret_codes)}", loc)
        over = raise_codes & set(range(200, 300))
        if over:
            rep.violation("R6.1", sub + " (2xx)", f"{tr.fq}|raises-2xx|{fmt(over)}", f"the transport raises for success statuses {fmt(over)}", loc)
        else:
            rep.ok("R6.1", sub + " (2xx)", "no 2xx status raises", loc)
        # class correctness
        bad4 = {c for c in raise_codes if 400 <= c <= 499 and "ClientError" not in subs.get(outcome[c][1], set())}
        bad5 = {c for c in raise_codes if 500 <= c <= 599 and "ServerError" not in subs.get(outcome[c][1], set())}
        badh = {c for c in raise_codes if "HTTPError" not in subs.get(outcome[c][1], set())}
        classes = sorted({outcome[c][1] for c in raise_codes})
        sub2 = f"{tr.module.relpath}:HttpxTransport.request raised class"
        if badh:
            rep.violation("R6.2", sub2, f"{tr.fq}|not-httperror|{fmt(badh)}", f"for {fmt(badh)} the raised object is not an HTTPError ({classes})", loc)
        if bad4:
            rep.violation("R6.2", sub2 + " 4xx", f"{tr.fq}|4xx-class|{sorted({outcome[c][1] for c in bad4})}",
                          f"statuses {fmt(bad4)} raise {sorted({outcome[c][1] for c in bad4})}, not a ClientError: `except ClientError` never fires", loc)
        else:
            rep.ok("R6.2", sub2 + " 4xx", f"400..499 raise {sorted({outcome[c][1] for c in raise_codes if 400 <= c <= 499})}", loc)
        if bad5:
            rep.violation("R6.2", sub2 + " 5xx", f"{tr.fq}|5xx-class|{sorted({outcome[c][1] for c in bad5})}",
                          f"statuses {fmt(bad5)} raise {sorted({outcome[c][1] for c in bad5})}, not a ServerError: `except ServerError` never fires", loc)
        else:
            rep.ok("R6.2", sub2 + " 5xx", f"500..599 raise {sorted({outcome[c][1] for c in raise_codes if 500 <= c <= 599})}", loc)
        # the raise carries status and response
        for r in raises:
            call = r.ast.exc if isinstance(r.ast.exc, ast.Call) else None  # type: ignore[union-attr]
            if call is None and isinstance(r.ast.exc, ast.Name):  # type: ignore[union-attr]
                # `err = ErrorClass(...)` ... `raise err` (e.g. a written-out helper that builds the error)
                ds = [v for k_, v, _ in Locals(tr.node).defs.get(r.ast.exc.id, []) if isinstance(v, ast.Call)]  # type: ignore[union-attr]
                call = ds[0] if len(ds) == 1 else None
            kws = {k.arg: norm(Locals(tr.node).inline(k.value)) for k in call.keywords} if call else {}
            # building the error must not be able to fail with something else: arguments are plain reads of the response, no decoding / parsing
            TL = Locals(tr.node)
            risky = [x for a in (list(call.args) + [k.value for k in call.keywords] if call else []) for x in ast.walk(TL.inline(a))
                     if isinstance(x, ast.Call) and not (isinstance(x.func, ast.Name) and x.func.id in ("str", "repr", "int"))
                     and not any(k.arg == "errors" for k in x.keywords)]
            # `.text` is not a plain read: httpx decodes the body with the charset the Content-Type names, and that raises for a body the label cannot decode
            lazy = [x for a in (list(call.args) + [k.value for k in call.keywords] if call else []) for x in ast.walk(TL.inline(a))
                    if isinstance(x, ast.Attribute) and x.attr == "text" and isinstance(x.value, ast.Name)]
            if lazy and not risky:
                rep.violation("R6.5", f"{tr.module.relpath}:HttpxTransport.request raise args are total", f"{tr.fq}|raise-arg-can-fail|decoded-text",
                              f"`{norm(lazy[0])}` is evaluated while the error is being built: the body is decoded with the charset its Content-Type names, and for a body that label cannot "
                              "decode (a BOM-less UTF-16 page of a proxy, a mislabelled payload) this raises UnicodeError - the caller loses the HTTPError with status and response", tr.loc(r.ast))
            elif risky:
                rep.violation("R6.5", f"{tr.module.relpath}:HttpxTransport.request raise args are total", f"{tr.fq}|raise-arg-can-fail|{norm(risky[0].func)[-30:]}",
                              f"`{norm(risky[0])[:60]}` is evaluated while the error is being built: if it raises (e.g. a body that is not valid UTF-8 / JSON) the "
                              "caller gets that exception instead of an HTTPError carrying status and response", tr.loc(r.ast))
            elif call is not None:
                rep.ok("R6.5", f"{tr.module.relpath}:HttpxTransport.request raise args are total", "the error is built from plain attribute reads of the response", tr.loc(r.ast))
            if kws.get("status_code") == f"{resp_var}.status_code" and kws.get("response") == resp_var:
                rep.ok("R6.5", f"{tr.module.relpath}:HttpxTransport.request raise args", "status_code=response.status_code, response=response", tr.loc(r.ast))
            else:
                rep.violation("R6.5", f"{tr.module.relpath}:HttpxTransport.request raise args", f"{tr.fq}|raise-args|{norm(r.ast)}",
                              f"`{norm(r.ast)}` does not pass the status code and the response to the error", tr.loc(r.ast))


    with_flatten_fallback(rep, repo.func("core.http_transport:HttpxTransport.request"), _transport_rules)

    # ---------------------------------------------------------------- R6.5 HTTPError.__init__
    he = exc_mod.classes["HTTPError"].methods.get("__init__")
    if he is None:
        raise AnalysisError("anchor vanished: HTTPError.__init__")
    assigns = {norm(n.targets[0]): norm(n.value) for n in own_nodes(he.node) if isinstance(n, ast.Assign)}
    # building the error object is total: the constructors of HTTPError / ClientError / ServerError do nothing that can raise for some status
    # (a table lookup such as `HTTPStatus(status_code)` raises ValueError for 499, 52x, ... - the caller gets that instead of an HTTPError)
    for cname in ("HTTPError", "ClientError", "ServerError"):
        ctor = exc_mod.classes[cname].methods.get("__init__") if cname in exc_mod.classes else None
        if ctor is None:
            continue
        risky = [c for c in calls_in(ctor.node) if not (isinstance(c.func, ast.Attribute) and c.func.attr == "__init__")
                 and not (isinstance(c.func, ast.Name) and c.func.id in ("super", "str", "repr", "int", "getattr", "isinstance", "type", "format"))
                 and not (isinstance(c.func, ast.Attribute) and isinstance(c.func.value, ast.Constant) and isinstance(c.func.value.value, str) and c.func.attr in ("format", "join"))]
        subs_ = [x for x in ast.walk(ctor.node) if isinstance(x, ast.Subscript) and isinstance(x.ctx, ast.Load)]
        subc = f"{exc_mod.relpath}:{cname}.__init__ is total"
        if risky or subs_:
            bad = (risky or subs_)[0]
            rep.violation("R6.5", subc, f"{ctor.fq}|constructor-can-fail|{norm(bad)[:40]}",
                          f"`{norm(bad)[:60]}` is evaluated while the error object is built: for a status it does not know (499, 520, 306, ...) it raises, and the caller gets "
                          "that exception instead of an HTTPError carrying status and response", ctor.loc(bad))
        else:
            rep.ok("R6.5", subc, "stores its arguments; nothing in it can raise for a particular status", ctor.loc())
    for attr in ("status_code", "response"):
        if assigns.get(f"self.{attr}") == attr:
            rep.ok("R6.5", f"{exc_mod.relpath}:HTTPError.__init__ self.{attr}", "stored from the constructor argument", he.loc())
        else:
            rep.violation("R6.5", f"{exc_mod.relpath}:HTTPError.__init__ self.{attr}", f"{he.fq}|attr|{attr}",
                          f"HTTPError does not keep `{attr}` (self.{attr} = {assigns.get(f'self.{attr}')})", he.loc())

    # ---------------------------------------------------------------- R6.4 alias generators
    D_sets: Dict[str, Set[int]] = {}
    for spec in ("visit.exception_visitor:ExceptionVisitor.visit", "emitters.exceptions_emitter:ExceptionsEmitter._generate_for_codes"):
        from sa.resolve import follow_delegation

        fn = follow_delegation(repo, repo.func(spec))  # `_generate_for_codes` may hand the rendering to the visitor's shared routine
        _res: Dict[str, Set[int]] = {}

        def _alias_body(f: Function, r, _spec=spec, _res=_res) -> None:
            _res["D"] = _alias_generator_rules(f, helpers, r)

        with_flatten_fallback(rep, fn, _alias_body)
        D_sets[spec] = _res.get("D", set())  # None: the generator's base-class choice was not recognised (reported as an analysis error)
    # ---------------------------------------------------------------- R6.6 the alias classes a client raises stay importable when the core is shared
    # (the shared-core predicate of C11: a client that is wrongly judged "not shared" never enters the registry and loses its
    #  exception classes when the next client is generated - its operations can then no longer raise the package's error classes)
    from rules._reuse import reuse

    reuse(repo, rep, "c11", {"R11.2": "R6.6"})
    # R6.8: the alias classes other clients raise survive a regeneration (registry read-modify-write-union)
    # R6.9: ... and the regenerated alias module imports the base class of every alias it defines, whatever the current spec declares
    reuse(repo, rep, "c11", {"R11.1": "R6.8", "R11.4": "R6.9"})
    # R6.10: ... and a forced regeneration of the client that hosts the core carries the registry over the removal of its package   [= R11.5]
    reuse(repo, rep, "c11", {"R11.5": "R6.10"})
    _guarded(rep, rule_no_redirect_following, repo, rep, "R6.11")
    _guarded(rep, rule_error_path_has_a_read_body, repo, rep, "R6.16")
    from rules._memo import local_memo_rule

    local_memo_rule(repo, rep, "R6.7", ("core.loader",),
                    "An IRResponse carries the status code it was declared under: a shared `Problem` response referenced under 404 and 409 is loaded as 404 twice, "
                    "no alias class and no arm exist for 409, and that status raises the base HTTPError instead of a ClientError.")

    # ---------------------------------------------------------------- R6.3 + agreement
    gen = repo.func("visit.endpoint.generators.response_handler_generator:EndpointResponseHandlerGenerator.generate_response_handling")
    _eres: Dict[str, Set[int]] = {}

    def _dispatch_body(f: Function, r) -> None:
        _eres["E"] = _dispatch_rules(f, helpers, r, consts)

    def _raise_only_writer(h: Function) -> bool:
        """helpers that only write `raise ...` lines (safe to inline for the must-raise analysis; return-writing helpers stay calls)"""
        texts = [norm(c.args[0]) for c in calls_in(h.node) if isinstance(c.func, ast.Attribute) and c.func.attr == "write_line" and c.args]
        return bool(texts) and not any(t.lstrip("f'\"").startswith(("return", "yield", "async for")) for t in texts)

    with_flatten_fallback(rep, gen, _dispatch_body, select=_raise_only_writer)
    E = _eres.get("E", set())
    for spec, D in D_sets.items():
        fn = repo.func(spec)
        if D is None:
            continue
        sub = f"alias agreement: handler raises aliases for {fmt(E)} / {fn.qualname} defines {fmt(D)}"
        missing = E - D
        if missing:
            rep.violation("R6.4", sub, f"alias-undefined|{fn.fq}|{fmt(missing)}",
                          f"the response handler emits `raise <Alias>` + `from <core> import <Alias>` for declared statuses {fmt(missing)}, "
                          f"but {fn.qualname} never defines a class for them: the endpoints module cannot be imported", gen.loc())
        else:
            rep.ok("R6.4", sub, "every alias the handler can raise is defined", gen.loc())


def _simulate(cfg: CFG, start: int, code: int, ev: Evaluator, undecided: List[str]) -> Tuple[str, str]:
    """Follow the CFG from `start` for one concrete status code; returns ('return'|'raise'|'?', class name)."""
    env: Dict[str, str] = {}
    n = start
    steps = 0
    while steps < 200:
        steps += 1
        nd = cfg.nodes[n]
        nxt: Optional[int] = None
        if nd.kind == "test":
            t = bool(nd.ast.value) if isinstance(nd.ast, ast.Constant) else ev.truth(nd.ast, code)
            if t is None:
                undecided.append(norm(nd.ast))
                return ("?", "")
            lab = "true" if t else "false"
            cands = [m for m, l in cfg.succ[n] if l == lab]
            nxt = cands[0] if cands else None
        elif nd.kind == "stmt" and isinstance(nd.ast, ast.Raise):
            exc = nd.ast.exc
            f = exc.func if isinstance(exc, ast.Call) else exc
            name = dotted(f) if f is not None else None
            if name in env:
                name = env[name]
            return ("raise", name or "?")
        elif nd.kind == "stmt" and isinstance(nd.ast, ast.Return):
            return ("return", "")
        elif nd.kind == "stmt" and isinstance(nd.ast, (ast.Assign, ast.AnnAssign)):
            tgt = nd.ast.targets[0] if isinstance(nd.ast, ast.Assign) else nd.ast.target
            if isinstance(tgt, ast.Name) and nd.ast.value is not None:
                v = dotted(nd.ast.value)
                if v is not None:
                    env[tgt.id] = env.get(v, v)
                elif isinstance(nd.ast.value, ast.Call) and dotted(nd.ast.value.func) is not None:
                    # `err = error_class(...)`: an instance of the class the callee name stands for (raised later as `raise err`)
                    fnm = dotted(nd.ast.value.func) or ""
                    env[tgt.id] = env.get(fnm, fnm)
                elif isinstance(nd.ast.value, ast.IfExp):
                    b: Optional[ast.AST] = nd.ast.value
                    while isinstance(b, ast.IfExp):
                        t = ev.truth(b.test, code)
                        if t is None:
                            undecided.append(norm(b.test))
                            return ("?", "")
                        b = b.body if t else b.orelse
                    v2 = dotted(b) if b is not None else None
                    if v2:
                        env[tgt.id] = env.get(v2, v2)
        if nd.kind in ("exit", "raise_exit"):
            return ("return" if nd.kind == "exit" else "raise", "?")
        if nxt is None:
            cands = [m for m, l in cfg.succ[n] if l != "exc"]
            if not cands:
                return ("?", "")
            nxt = cands[0]
        n = nxt
    return ("?", "")


def _alias_generator_rules(fn: Function, helpers: Dict[str, ast.AST], rep: Report) -> Set[int]:
    """Checks base-class choice; returns the set of codes for which an alias class is generated."""
    from sa.match import Locals

    L = Locals(fn.node)
    # the status code: a loop variable of the function (or an int-annotated parameter)
    code_vars = {name for name, ds in L.defs.items() if any(k == "for" for k, _, _ in ds)}
    code_vars |= {a.arg for a in fn.node.args.args if a.annotation is not None and norm(a.annotation) == "int"}  # type: ignore[attr-defined]
    ev = Evaluator(lambda e: "int" if isinstance(e, ast.Name) and e.id in code_vars else None, helpers)
    # the base-class variable: the one that is assigned the names of the error base classes
    BASES = ("ClientError", "ServerError")

    def _alts(v: ast.AST, conds: List[Tuple[ast.AST, bool]]) -> List[Tuple[str, List[Tuple[ast.AST, bool]]]]:
        """constant base names a value can take, each with the conditional-expression tests that select it"""
        if const_str(v) is not None:
            return [(const_str(v) or "", conds)]
        if isinstance(v, ast.IfExp):
            return _alts(v.body, conds + [(v.test, True)]) + _alts(v.orelse, conds + [(v.test, False)])
        return []

    base_vars = {nd.targets[0].id for nd in own_nodes(fn.node) if isinstance(nd, ast.Assign) and isinstance(nd.targets[0], ast.Name)
                 and any(b in BASES for b, _ in _alts(nd.value, []))}
    cfg = CFG(fn.node)
    dom = cfg.dominators()
    sub0 = f"{fn.module.relpath}:{fn.qualname}"
    base_sets: Dict[str, Set[int]] = {}
    n_assign = 0
    for nd in cfg.nodes:
        if not (isinstance(nd.ast, ast.Assign) and isinstance(nd.ast.targets[0], ast.Name) and nd.ast.targets[0].id in base_vars):
            continue
        for val, extra in _alts(nd.ast.value, []):
            n_assign += 1
            gs = [(g, p) for g, p in guards(cfg, nd.id, dom) if g.kind == "test" and any(isinstance(x, ast.Name) and x.id in code_vars for x in ast.walk(g.ast))]
            gs = [(type("G", (), {"ast": t, "kind": "test"})(), pol) for t, pol in extra] + gs
            codes = set(DOMAIN)
            for g, pol in gs:
                if pol is None:
                    continue
                s = ev.codes_where(g.ast, pol)
                if s is None:
                    rep.error(f"R6.4: cannot evaluate guard `{norm(g.ast)}` in {fn.qualname}")
                    s = set()
                codes &= s
            base_sets[val] = base_sets.get(val, set()) | codes
    rep.require(n_assign >= 2, f"R6.4: {fn.qualname} has {n_assign} base_class assignments (floor 2)")
    if n_assign < 2:
        return None  # type: ignore[return-value]  (the base-class choice was not recognised: nothing below can be judged)
    want = {"ClientError": set(range(400, 500)), "ServerError": set(range(500, 600))}
    for b, w in want.items():
        got = base_sets.get(b, set())
        if got == w:
            rep.ok("R6.4", f"{sub0} base {b}", f"chosen exactly for {fmt(got)}", fn.loc())
        else:
            rep.violation("R6.4", f"{sub0} base {b}", f"{fn.fq}|base|{b}|{fmt(got)}",
                          f"alias classes derive from {b} for statuses {fmt(got)} (expected {fmt(w)})", fn.loc())
    # which codes get a class at all: those reaching the class-name computation
    defined: Set[int] = set()
    for b, s in base_sets.items():
        defined |= s
    # the pre-filter (is_error_code) only narrows what is iterated; evaluate it when present
    for n in own_nodes(fn.node):
        if isinstance(n, (ast.ListComp, ast.SetComp, ast.GeneratorExp)):
            for g in n.generators:
                for cond in g.ifs:
                    if "is_error_code" in norm(cond):
                        s = ev.codes_where(cond, True)
                        if s is not None:
                            defined &= s
    # the alias __init__ template forwards status and response
    tmpl_ok = False
    for n in own_nodes(fn.node):
        s = const_str(n) if isinstance(n, ast.Constant) else None
        if s and "super().__init__(" in s:
            # the call may be written over several template lines: take the following string elements of the same list up to the closing parenthesis
            from sa.model import parent as _par

            p_ = _par(n)
            if isinstance(p_, (ast.List, ast.Tuple)) and s.count("(") > s.count(")"):
                els = p_.elts
                i0 = next((i for i, e in enumerate(els) if e is n), None)
                j = (i0 or 0) + 1
                while i0 is not None and j < len(els) and s.count("(") > s.count(")"):
                    nxt = const_str(els[j]) if isinstance(els[j], ast.Constant) else None
                    if nxt is None:
                        break
                    s += " " + nxt.strip()
                    j += 1
            tmpl_ok = "status_code=response.status_code" in s and "response=response" in s
            if tmpl_ok:
                rep.ok("R6.5", f"{sub0} alias __init__ template", "passes status_code=response.status_code and response=response", fn.loc(n))
            else:
                rep.violation("R6.5", f"{sub0} alias __init__ template", f"{fn.fq}|alias-init|{s.strip()}",
                              f"generated alias __init__ `{s.strip()}` does not forward status code and response", fn.loc(n))
    return defined


def _guard_codes(txt: str) -> Optional[frozenset]:
    """statuses for which the emitted guard of `case <pattern> if <guard>:` holds (the guard is Python text over response.status_code / the capture)"""
    try:
        g = txt.split(" if ", 1)[1].rsplit(":", 1)[0]
        if "\x00" in g:
            return None
        tree = ast.parse(g.strip(), mode="eval")
    except (SyntaxError, IndexError):
        return None
    cap = txt[5:].split(" if ", 1)[0].strip()
    out = set()
    for code in DOMAIN:
        class _V(ast.NodeTransformer):
            def visit_Attribute(self, n):
                return ast.copy_location(ast.Constant(code), n) if n.attr == "status_code" else n

            def visit_Name(self, n):
                return ast.copy_location(ast.Constant(code), n) if n.id == cap and cap != "_" else n

        e = ast.fix_missing_locations(_V().visit(ast.parse(g.strip(), mode="eval")))
        if any(isinstance(x, (ast.Name, ast.Attribute, ast.Call)) for x in ast.walk(e)):
            return None
        try:
            if eval(compile(e, "<guard>", "eval"), {"__builtins__": {}}, {}):  # constants and comparisons only (checked above)
                out.add(code)
        except Exception:
            return None
    return frozenset(out)


def _dispatch_rules(gen: Function, helpers: Dict[str, ast.AST], rep: Report, consts: Dict[str, tuple]) -> Set[int]:
    """R6.3 on the generator of the `match response.status_code` block. Returns the set of declared statuses for
    which an alias class is raised (for the agreement rule)."""
    cfg = CFG(gen.node)
    dom = cfg.dominators()
    sub0 = f"{gen.module.relpath}:{gen.qualname}"

    def classify(call: ast.Call) -> Optional[Tuple[str, str]]:
        """('case_wild'|'case_num'|'raise'|'return'|'indent'|'dedent'|'other', text)"""
        f = call.func
        if not isinstance(f, ast.Attribute):
            return None
        if f.attr == "indent" and not call.args:
            return ("indent", "")
        if f.attr == "dedent" and not call.args:
            return ("dedent", "")
        if f.attr == "write_line" and call.args:
            t = template_of(call.args[0], gen.node)
            if t is None:
                return ("other", norm(call.args[0]))
            txt = t.text.lstrip()
            if txt.startswith("case _ if ") or (txt.startswith("case ") and " if " in txt and not txt[5:6].isdigit()):
                return ("case_guard", txt)  # `case _ if 400 <= response.status_code < 500:` / `case code if ...:`
            if txt.startswith("case _"):
                return ("case_wild", txt)
            if txt.startswith("case "):
                # `case {pattern}:` where the pattern text is computed: if one of the strings it can be carries a guard, the arm may be a range arm
                for h in t.holes:
                    if any(" if " in v for v in _possible_strings(h)):
                        return ("case_num_or_guard", txt)
                return ("case_num", txt)
            if txt.startswith("raise "):
                return ("raise", txt)
            if txt.startswith("return") or txt.startswith("yield"):
                return ("return", txt)
            if txt.startswith("match "):
                return ("match", txt)
            return ("other", txt)
        if f.attr in ("_write_strategy_based_return", "_write_parsed_return", "_write_union_response_handling",
                      "_write_content_type_conditional_handling"):
            return ("return", f"<{f.attr}>")
        return None

    _CL = Locals(gen.node)

    def _possible_strings(e: ast.AST, depth: int = 0) -> List[str]:
        """string constants an expression can evaluate to: through single-step locals and the `return <constant>` statements of helpers of the module / class"""
        if depth > 4:
            return []
        if isinstance(e, ast.Constant) and isinstance(e.value, str):
            return [e.value]
        if isinstance(e, ast.IfExp):
            return _possible_strings(e.body, depth + 1) + _possible_strings(e.orelse, depth + 1)
        if isinstance(e, ast.JoinedStr):
            return ["".join(v.value if isinstance(v, ast.Constant) else "{}" for v in e.values)]
        if isinstance(e, ast.Name):
            return [x for _, v, _ in _CL.defs.get(e.id, []) if v is not None for x in _possible_strings(v, depth + 1)]
        if isinstance(e, ast.Call):
            nm = (dotted(e.func) or "").split(".")[-1]
            hf = gen.module.functions.get(nm) or (gen.cls.methods.get(nm) if gen.cls is not None else None)
            if hf is not None:
                return [x for r_ in ast.walk(hf.node) if isinstance(r_, ast.Return) and r_.value is not None for x in _possible_strings(r_.value, depth + 1)]
        return []

    closures: List[Tuple[int, Tuple]] = []
    _ev2 = Evaluator(lambda e: "str" if isinstance(e, ast.Attribute) and e.attr == "status_code" and isinstance(e.value, ast.Name) else None, helpers, consts)

    def _is_2xx_test(t: ast.AST) -> bool:
        if not any(isinstance(x, ast.Attribute) and x.attr == "status_code" for x in ast.walk(t)):
            return False
        parts = list(t.values) if isinstance(t, ast.BoolOp) and isinstance(t.op, ast.And) else [t]
        return any(any(isinstance(x, ast.Attribute) and x.attr == "status_code" for x in ast.walk(c)) and _ev2.codes_where(c, True) == set(range(200, 300)) for c in parts)

    guard_arms: List[Tuple[int, Tuple]] = []
    shadowed: Set[int] = set()
    _DL = Locals(gen.node)

    def _implied(e: ast.AST, truth: bool) -> Set[Tuple[str, bool]]:
        """facts about plain boolean locals that follow from `e` evaluating to `truth`"""
        if isinstance(e, ast.Name):
            return {(e.id, truth)}
        if isinstance(e, ast.UnaryOp) and isinstance(e.op, ast.Not):
            return _implied(e.operand, not truth)
        if isinstance(e, ast.Call) and isinstance(e.func, ast.Name) and e.func.id == "bool" and len(e.args) == 1:
            return _implied(e.args[0], truth)
        if isinstance(e, ast.BoolOp):
            if (isinstance(e.op, ast.And) and truth) or (isinstance(e.op, ast.Or) and not truth):
                out: Set[Tuple[str, bool]] = set()
                for v in e.values:
                    out |= _implied(v, truth)
                return out
        return set()

    def _expand(fs: Set[Tuple[str, bool]]) -> Set[Tuple[str, bool]]:
        """a local defined once as `flag = bool(a and b ...)`: flag true implies a and b"""
        out = set(fs)
        work = list(fs)
        while work:
            nm, tv = work.pop()
            alld = _DL.defs.get(nm, [])
            ds = [v for k_, v, _ in alld if k_ == "assign" and v is not None]
            if tv:  # a definition `flag = False` / `flag = None` cannot be the one that made the flag true
                ds = [v for v in ds if not (isinstance(v, ast.Constant) and not v.value)]
            else:
                ds = [v for v in ds if not (isinstance(v, ast.Constant) and v.value is True)]
            if all(k_ == "assign" for k_, _, _ in alld) and len(ds) == 1:
                for f_ in _implied(ds[0], tv):
                    if f_ not in out and f_[0] != nm:
                        out.add(f_)
                        work.append(f_)
        return out

    # only locals that are consulted by at least two tests can make a path infeasible (everything else would just multiply states)
    _cnt: Dict[str, int] = {}
    for _n in cfg.nodes:
        if _n.kind == "test" and _n.ast is not None and not _n.copy:
            for nm_ in {f_[0] for tv_ in (True, False) for f_ in _expand(_implied(_n.ast, tv_))}:
                _cnt[nm_] = _cnt.get(nm_, 0) + 1
    _seed: Set[str] = set()
    for _if in [x for x in ast.walk(gen.node) if isinstance(x, ast.If)]:
        if any((classify(c) or ("",))[0] in ("case_guard", "case_wild") for c in calls_in(_if)):
            _seed |= {f_[0] for tv_ in (True, False) for f_ in _expand(_implied(_if.test, tv_))}
    _relevant = {nm_ for nm_, c_ in _cnt.items() if c_ >= 2 and nm_ in _seed}
    rep.count("R6.12:path_facts_tracked", sorted(_relevant))

    def transfer(node, st, label):
        arm, depth, has_raise, has_return, g2, covered, facts = st
        a = node.ast
        if node.kind == "test" and a is not None and label in ("true", "false"):
            # boolean locals decide which arms are written: a path that takes `if not flag or ...` as false and later `if flag` as false does not exist
            learnt = {f_ for f_ in _expand(_implied(a, label == "true")) if f_[0] in _relevant}
            known = dict(facts)
            for nm, tv in learnt:
                if known.get(nm, tv) != tv:
                    return ()
                known[nm] = tv
            facts = frozenset(known.items())
        if node.kind == "test" and a is not None and _is_2xx_test(a):
            if label == "true":
                g2 = "2xx"
            elif label == "false":
                g2 = "non2xx"
            return ((arm, depth, has_raise, has_return, g2, covered, facts),)
        if node.kind == "iter":
            return ((arm, depth, has_raise, has_return, None if arm is None else g2, covered, facts),)
        if node.kind == "stmt" and isinstance(a, (ast.Assign, ast.AugAssign, ast.AnnAssign)):
            tg = a.targets if isinstance(a, ast.Assign) else [a.target]
            killed = {t.id for t in tg if isinstance(t, ast.Name)}
            if killed:
                facts = frozenset((n_, v_) for n_, v_ in facts if n_ not in killed)
        if node.kind != "stmt" or a is None:
            return ((arm, depth, has_raise, has_return, g2, covered, facts),)
        for c in calls_in(a):
            k = classify(c)
            if k is None:
                continue
            kind = k[0]
            if kind == "case_guard":
                arm, depth, has_raise, has_return = ("case_guard", k[1]), 0, False, False
                covered = covered | {"range-arm"}
            elif kind in ("case_wild", "case_num", "case_num_or_guard"):
                if kind != "case_wild" and "range-arm" in covered:
                    shadowed.add(node.id)
                if kind == "case_num_or_guard":
                    covered = covered | {"range-arm"}
                    kind = "case_num"
                arm, depth, has_raise, has_return = kind, 0, False, False
            elif kind == "match":
                depth = -1  # the indent after `match` is not an arm
            elif kind == "indent":
                depth += 1
            elif kind == "dedent":
                depth -= 1
                if arm is not None and depth == 0:
                    if isinstance(arm, tuple) and isinstance(has_raise, str) and not has_return:
                        gc = _guard_codes(arm[1])
                        if gc is not None and has_raise == "ClientError" and gc == frozenset(range(400, 500)):
                            covered = covered | {"4xx"}
                        if gc is not None and has_raise == "ServerError" and gc == frozenset(range(500, 600)):
                            covered = covered | {"5xx"}
                    closures.append((node.id, (arm, has_raise, has_return, g2, covered)))
                    arm, g2 = None, None
            elif kind == "raise" and arm is not None:
                has_raise = k[1].split("(", 1)[0][6:].strip() or True
            elif kind == "return" and arm is not None:
                has_return = has_return or k[1][:60]
        return ((arm, max(-2, min(depth, 6)), has_raise, has_return, g2, covered, facts),)

    states, wit = forward(cfg, (None, 0, False, False, None, frozenset(), frozenset()), transfer)
    n_arms = len({(n, c) for n, c in closures})
    rep.count("R6.3:arm_closures(path-classes)", n_arms)
    rep.require(n_arms >= 4, f"R6.3: only {n_arms} case-arm closures found in the dispatch generator (floor 4)")
    seen: Set[Tuple] = set()
    tails: Set[Tuple] = set()
    for nid, (arm, has_raise, has_return, g2, covered) in closures:
        if arm == "case_wild" and has_raise and not has_return:
            tails.add((cfg.nodes[nid].lineno, covered))
        key = (cfg.nodes[nid].lineno, arm, has_raise, has_return, g2)
        if key in seen:
            continue
        seen.add(key)
        loc = gen.loc(cfg.nodes[nid].ast)
        if isinstance(arm, tuple):
            codes = _guard_codes(arm[1])
            gtxt = arm[1].split(" if ", 1)[1].rsplit(":", 1)[0]
            sub = f"{sub0} guarded arm `if {gtxt}`"
            if codes is None:
                if has_raise and not has_return:
                    rep.ok("R6.3", sub, "a guard that is not evaluated: the arm raises and never returns", loc)
                else:
                    rep.violation("R6.3", sub, f"{gen.fq}|guarded-arm-returns|{gtxt}", "an arm whose guard cannot be shown to be 2xx-only returns a value", loc)
            elif codes <= set(range(200, 300)):
                rep.ok("R6.3", sub, f"success arm for {fmt(codes)} (see C05)", loc)
            elif has_return or not has_raise:
                rep.violation("R6.3", sub, f"{gen.fq}|guarded-arm-returns|{fmt(codes & NON2XX)}",
                              f"the arm answers the non-2xx statuses {fmt(codes & NON2XX)} with a return (or without a raise)", loc)
            else:
                cls = has_raise if isinstance(has_raise, str) else "?"
                want = {"ClientError": set(range(400, 500)), "ServerError": set(range(500, 600))}
                wrong = (codes - want[cls]) if cls in want else (codes & set(range(400, 600)))
                if wrong:
                    rep.violation("R6.2", sub, f"{gen.fq}|guarded-arm-class|{cls}|{fmt(wrong)}",
                                  f"`raise {cls}` answers {fmt(wrong)}: a 4xx must be a ClientError, a 5xx a ServerError, anything else the base class", loc)
                else:
                    rep.ok("R6.2", sub, f"`raise {cls}` exactly for {fmt(codes)}", loc)
                guard_arms.append((nid, (cls, codes)))
            continue
        if arm == "case_wild":
            sub = f"{sub0} wildcard arm closed at L{cfg.nodes[nid].lineno} ({'returns ' + has_return if has_return else 'raise'})"
            if has_raise and not has_return:
                rep.ok("R6.3", sub, "this generator path writes `raise ...` and no return into `case _:`", loc)
            else:
                rep.violation("R6.3", sub, f"{gen.fq}|wildcard-returns|raise={has_raise}|return={has_return or '-'}",
                              "a generator path fills the wildcard `case _:` arm with a return (or without a raise): an undeclared / non-2xx "
                              "status handed over by a non-raising transport becomes a value", loc)
        else:
            sub = f"{sub0} numeric arm closed at L{cfg.nodes[nid].lineno} ({g2 or 'unguarded'})"
            if g2 == "2xx":
                rep.ok("R6.3", sub, "2xx arm (success handling, see C05)", loc)
            elif has_raise and not has_return:
                rep.ok("R6.3", sub, "non-2xx declared status: raise only", loc)
            else:
                rep.violation("R6.3", sub, f"{gen.fq}|non2xx-arm-returns|{g2}|raise={has_raise}|return={has_return or '-'}",
                              "a declared non-2xx status arm can return a value / lacks a raise", loc)

    # R6.14 arm order: `match` takes the first arm that matches, so an arm for an exact status written after a range-guarded arm
    # (`case _ if 200 <= status < 300:`) is dead code - the exact response (206 -> FileChunk, 404 -> NotFoundError) is answered by the range arm
    sub14 = f"{sub0} exact-status arms precede range-guarded arms"
    if shadowed:
        nd0 = cfg.nodes[sorted(shadowed)[0]]
        rep.violation("R6.14", sub14, f"{gen.fq}|exact-arm-after-range-arm",
                      "on some generator path a `case <status>:` arm is written after a range-guarded arm: the exact arm can never match, the declared response of that status is "
                      "decoded / raised as the range's response (wrong model, body lost; wrong error class)", gen.loc(nd0.ast))
    else:
        rep.ok("R6.14", sub14, "no generator path writes an exact-status arm once a range-guarded arm has been written", gen.loc())

    # R6.12 classified tail: where the wildcard arm raises (the base class), every 4xx / 5xx without an arm of its own was answered before by
    # `case _ if 400 <= status < 500: raise ClientError` / `... 500 <= status < 600: raise ServerError` on the same generator path
    for ln, covered in sorted(tails, key=lambda t: (t[0], sorted(t[1]))):
        sub = f"{sub0} statuses reaching the raising wildcard arm (closed at L{ln}; classified arms on this path: {sorted(covered) or 'none'})"
        covered = covered - {"range-arm"}
        missing = [r for r in ("4xx", "5xx") if r not in covered]
        if missing:
            rep.violation("R6.12", sub, f"{gen.fq}|unclassified-tail|{'+'.join(missing)}",
                          f"an undeclared (or range-declared) {' / '.join(missing)} status handed over by a non-raising transport falls into `case _:` and raises the base HTTPError: "
                          "`except ClientError` / `except ServerError` handlers miss it", gen.loc())
        else:
            rep.ok("R6.12", sub, "4xx -> ClientError and 5xx -> ServerError are raised before the catch-all; the base class remains for statuses outside 400..599", gen.loc())
    rep.require(bool(tails), "R6.12: no raising wildcard arm found in the dispatch generator (anchor)")

    # set of codes for which an alias raise is emitted: guards of the `raise {alias}` write
    from sa.match import Locals as _L, match as _match

    GL = _L(gen.node)
    int_vars = {name for name, _, _ in GL.bound_from("int(ANY_r.status_code)")}

    def var(e: ast.AST) -> Optional[str]:
        if isinstance(e, ast.Name) and e.id in int_vars:
            return "int"
        if isinstance(e, ast.Attribute) and e.attr == "status_code" and isinstance(e.value, ast.Name):
            return "str"
        return None

    ev = Evaluator(var, helpers, consts)
    E: Set[int] = set()
    found = False
    for nd in cfg.nodes:
        if nd.kind != "stmt" or nd.ast is None:
            continue
        for c in calls_in(nd.ast):
            k = classify(c)
            if not (k and k[0] == "raise"):
                continue
            gs = guards(cfg, nd.id, dom)
            in_numeric_arm = any(g.kind == "test" and "isdigit" in norm(g.ast) and pol is True for g, pol in gs)
            codes = set(DOMAIN)
            for g, pol in gs:
                if pol is None or g.kind != "test":
                    continue
                s = ev.codes_where(g.ast, pol)
                if s is not None:
                    codes &= s
            if k[1].startswith("raise \x00("):
                found = True
                E |= codes
            elif in_numeric_arm and k[1].startswith("raise HTTPError("):
                # a *declared* status raising the base class: class-correct only outside 400..599
                bad = codes & set(range(400, 600))
                sub = f"{sub0} declared-status arm raising base HTTPError (L{nd.lineno})"
                if bad:
                    rep.violation("R6.2", sub, f"{gen.fq}|declared-error-raises-base|{fmt(bad)}",
                                  f"declared statuses {fmt(bad)} raise the base HTTPError in the generated dispatch: a 4xx is not a ClientError / "
                                  "a 5xx not a ServerError", gen.loc(c))
                else:
                    rep.ok("R6.2", sub, f"only for {fmt(codes)} (no 4xx/5xx)", gen.loc(c))
    rep.require(found, "R6.4: no `raise {alias}(...)` template found in the dispatch generator (anchor vanished)")
    rep.count("R6.4:statuses_raising_alias", fmt(E))
    return E


# ------------------------------------------------------------------------------------------------ R6.11 the status the guard sees is the server's own answer
_R611_EXAMPLE = '''
async def request(self, method, url, **kwargs):
    request_args = dict(kwargs)
    request_args.setdefault("follow_redirects", True)
    return await self._client.request(method, url, **request_args)
'''


def _redirect_following(tree: ast.AST):
    """Places that switch redirect-following on: a `follow_redirects=` keyword, a dict entry / subscript store / setdefault under that key -
    with any value that is not the constant False."""
    out = []

    def on(v: ast.AST) -> bool:
        return not (isinstance(v, ast.Constant) and v.value is False)

    for n in ast.walk(tree):
        if isinstance(n, ast.Call):
            for k in n.keywords:
                if k.arg == "follow_redirects" and on(k.value):
                    out.append(n)
            if isinstance(n.func, ast.Attribute) and n.func.attr in ("setdefault", "update", "__setitem__") and n.args and const_str(n.args[0]) == "follow_redirects" \
                    and (len(n.args) < 2 or on(n.args[1])):
                out.append(n)
        if isinstance(n, ast.Dict):
            for k, v in zip(n.keys, n.values):
                if k is not None and const_str(k) == "follow_redirects" and on(v):
                    out.append(n)
        if isinstance(n, ast.Assign) and any(isinstance(t, ast.Subscript) and const_str(t.slice) == "follow_redirects" for t in n.targets) and on(n.value):
            out.append(n)
        if isinstance(n, ast.Assign) and any(isinstance(t, ast.Attribute) and t.attr == "follow_redirects" for t in n.targets) and on(n.value):
            out.append(n)
    return out


def rule_no_redirect_following(repo: Repo, rep, rule: str = "R6.11") -> None:
    """The raise guard of the bundled transport looks at `response.status_code` of what httpx returns.  With redirect-following switched on,
    httpx answers a 301/302/303/307/308 that carries a Location header by requesting the target and returns *that* response: the 3xx
    status never reaches the guard and the call returns a value for a status outside 200-299."""
    rep.require(len(_redirect_following(ast.parse(_R611_EXAMPLE))) == 1, f"{rule}: the built-in positive example is no longer recognised - the rule is broken")
    ht = repo.module("core.http_transport")
    hz = _redirect_following(ht.tree)
    n_calls = sum(1 for c in ast.walk(ht.tree) if isinstance(c, ast.Call) and isinstance(c.func, ast.Attribute) and c.func.attr in ("request", "AsyncClient", "send", "stream"))
    rep.count(f"{rule}:httpx_call_sites", n_calls)
    rep.require(n_calls >= 2, f"{rule}: the httpx client construction / request call of the bundled transport were not found (anchor)")
    sub = f"{ht.relpath} redirects are not followed behind the raise guard"
    if hz:
        rep.violation(rule, sub, f"{ht.name}|follows-redirects",
                      f"`{norm(hz[0])[:70]}`: httpx follows a 3xx answer that has a Location header and hands the transport the final response - a 301/302/303/307/308 "
                      "then returns a value instead of raising HTTPError with that status", f"{ht.relpath}:{hz[0].lineno}")
    else:
        rep.ok(rule, sub, f"{n_calls} httpx call site(s): `follow_redirects` is never switched on (httpx default: off)", f"{ht.relpath}:1")


_R616_EXAMPLE = '''
class HttpxTransport:
    async def request(self, method, url, **kwargs):
        if kwargs.get("stream"):
            response = await self._client.send(self._client.build_request(method, url), stream=True)
        else:
            response = await self._client.request(method, url)
        if response.status_code >= 300:
            raise HTTPError(status_code=response.status_code, message=response_text(response), response=response)
        return response
'''


def _r616_unread_bodies(fn_node: ast.AST) -> tuple[int, list[ast.AST]]:
    """(send sites, [send sites that hand back an unread body while the error path does not read it])."""
    sends = [c for c in ast.walk(fn_node) if isinstance(c, ast.Call) and isinstance(c.func, ast.Attribute) and c.func.attr in ("request", "send", "stream", "get", "post")
             and any(isinstance(x, ast.Attribute) and x.attr in ("_client", "client") for x in ast.walk(c.func.value))]
    unread = []
    for c in sends:
        kw = next((k.value for k in c.keywords if k.arg == "stream"), None)
        if c.func.attr == "stream" or (kw is not None and not (isinstance(kw, ast.Constant) and kw.value in (False, None))):
            unread.append(c)
    if not unread:
        return len(sends), []
    # the status guard's error branch reads the body first (`await response.aread()`)
    for i in ast.walk(fn_node):
        if isinstance(i, ast.If) and any(isinstance(a, ast.Attribute) and a.attr == "status_code" for a in ast.walk(i.test)) and any(isinstance(r, ast.Raise) for s in i.body for r in ast.walk(s)):
            reads = [c for s in i.body for c in ast.walk(s) if isinstance(c, ast.Call) and isinstance(c.func, ast.Attribute) and c.func.attr in ("aread", "read")]
            raises = [r for s in i.body for r in ast.walk(s) if isinstance(r, ast.Raise)]
            if reads and raises and min(c.lineno for c in reads) < min(r.lineno for r in raises):
                return len(sends), []
    return len(sends), unread


def rule_error_path_has_a_read_body(repo: Repo, rep, rule: str = "R6.16") -> None:
    """The transport builds the error from the response (`response_text(response)`, the body of the message).  That is total only for a response
    whose body has been read: `send(..., stream=True)` / `client.stream(...)` hand the response back after the headers, and every access to
    `.content` / `.text` on it raises `httpx.ResponseNotRead` - the non-2xx answer of a streamed operation then surfaces as that, not as
    HTTPError/ClientError/ServerError.  A send site that does not buffer the body needs `await response.aread()` in the status guard before the raise."""
    ex = ast.parse(_R616_EXAMPLE).body[0].body[0]
    n, bad = _r616_unread_bodies(ex)
    rep.require(n >= 2 and len(bad) == 1, f"{rule}: the built-in positive example is no longer recognised - the rule is broken")
    mod = repo.module("core.http_transport")
    cls = mod.classes.get("HttpxTransport")
    fn = cls.methods.get("request") if cls else None
    if fn is None:
        raise AnalysisError(f"{rule}: anchor vanished: HttpxTransport.request")
    n, bad = _r616_unread_bodies(fn.node)
    rep.count(f"{rule}:send_sites", n)
    rep.require(n >= 1, f"{rule}: no send site found in HttpxTransport.request")
    sub = f"{mod.relpath}:HttpxTransport.request responses that reach the status guard have their body"
    if bad:
        for c in bad:
            rep.violation(rule, sub, f"{fn.fq}|unread-body-reaches-error-path|{c.func.attr}",
                          f"`{norm(c)[:70]}` returns once the headers have arrived; the status guard then builds the error from the body of a response that was never read "
                          "(`httpx.ResponseNotRead` instead of HTTPError / ClientError / ServerError for every non-2xx answer of a streamed operation)", fn.loc(c))
    else:
        rep.ok(rule, sub, f"{n} send site(s), none un-buffered without `aread()` before the raise", fn.loc(fn.node))
