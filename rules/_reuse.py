"""Re-issue the instances of one property's rule under another property's rule id (a rule that is a necessary condition of both)."""
from __future__ import annotations

import importlib
from typing import Dict, Iterable


_ACTIVE: set = set()


class _Filter:
    def __init__(self, rep, mapping: Dict[str, str], only=None):
        self.rep, self.mapping, self.only = rep, mapping, only

    def _keep(self, rule, a) -> bool:
        return rule in self.mapping and (self.only is None or (bool(a) and self.only(str(a[0]))))

    def ok(self, rule, *a, **k):
        if self._keep(rule, a):
            self.rep.ok(self.mapping[rule], *a, **k)

    def violation(self, rule, *a, **k):
        if self._keep(rule, a):
            self.rep.violation(self.mapping[rule], *a, **k)

    def require(self, cond, msg):
        if not cond and any(r in msg for r in self.mapping):
            self.rep.require(cond, msg)

    def error(self, msg):
        if any(r in msg for r in self.mapping):
            self.rep.error(msg)

    def count(self, *a, **k):
        pass


def reuse(repo, rep, module: str, mapping: Dict[str, str], only=None) -> None:
    """Run rules.<module>.run and keep only the instances of the rules in `mapping` (source rule id -> rule id under this property);
    `only(subject)` optionally restricts the instances by their subject text."""
    mod = importlib.import_module(f"rules.{module}")
    from sa.model import AnalysisError

    if module in _ACTIVE:
        return  # mutual re-use (c02 <-> c08): the inner run does not take instances from the module that is re-using it
    _ACTIVE.add(module)
    try:
        mod.run(repo, _Filter(rep, mapping, only), "quick")
    except AnalysisError as e:
        # the source rules stopped (a lost anchor somewhere in that module): the re-used rules were not (fully) evaluated - that is an
        # analysis error of *these* rule ids only; whatever else the caller checks goes on
        rep.error(f"{'/'.join(sorted(set(mapping.values())))}: the rules of {module} they are taken from could not be evaluated ({e})")
    finally:
        _ACTIVE.discard(module)
